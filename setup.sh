#!/bin/bash
# Run once after a fresh restore (offline): builds the instrumenter and the worker binaries for the
# current /repo tree, which also warms the Go build cache.
set -eu
cd "$(dirname "$(readlink -f "$0")")"
VERIF_DIR=$(pwd); export VERIF_DIR
./build.sh >/dev/null
./build.sh race >/dev/null || true
./check SELF | tail -1 || echo "warning: explorer self-test failed"
echo "setup ok"
