#!/bin/bash
# Run once after a fresh restore (offline): builds the instrumenter and the worker binaries for the
# current /repo tree, which also warms the Go build cache.
set -eu
cd /verif
./build.sh >/dev/null
./build.sh race >/dev/null || true
echo "setup ok"
