#!/bin/bash
# Runs the sanity mutants in /verif/mutants (all, or those whose name matches $1) against the check
# named by the file-name prefix (cNN-...) plus any extra checks listed in mutants/<name>.checks;
# prints one line per (mutant, check).
cd /verif
for f in mutants/*${1:-}*.diff; do
  n=$(basename "$f" .diff)
  ids=$(echo "${n%%-*}" | tr a-z A-Z)
  [ -f "mutants/$n.checks" ] && ids="$ids $(cat mutants/$n.checks)"
  for id in $ids; do
    out=$(MUT_LINES=2 ./mutate.sh "$f" "$id" 2>&1)
    echo "$n $id: $(echo "$out" | head -1 | sed 's/^== [A-Z0-9]* //')  | $(echo "$out" | sed -n 3p | cut -c1-150)"
  done
done
