module verif

go 1.23

require github.com/bilibili/gengine v0.0.0

require (
	github.com/antlr/antlr4 v0.0.0-20210105192202-5c2b686f95e1 // indirect
	github.com/golang-collections/collections v0.0.0-20130729185459-604e922904d3 // indirect
	github.com/google/martian v2.1.0+incompatible // indirect
)

replace github.com/bilibili/gengine => /repo
