#!/bin/bash
# Runs the repository's own test-suite (guard off: the instrumentation is overlay-only, so this is
# simply the plain tree) and prints pass/fail counts. Expected: the 77 stable tests pass;
# test/plugin::Test_pligin and test::Test_lexer fail at baseline too.
cd /repo || exit 2
export GOFLAGS=-mod=mod GOPROXY=off GOSUMDB=off GOTOOLCHAIN=local
go test -mod=mod -json -vet=off -count=1 -timeout 25m ./... 2>&1 | python3 -c '
import sys, json
res={}
for l in sys.stdin:
    try: e=json.loads(l)
    except Exception: continue
    if e.get("Test") and "/" not in e["Test"] and e.get("Action") in ("pass","fail"):
        res[e["Package"]+"::"+e["Test"]]=e["Action"]
stable=set(json.load(open("/root/.vp/BASELINE.json"))["stable_pass"])
bad=[t for t in stable if res.get(t)!="pass"]
print("passed=%d failed=%d stable_ok=%d/%d"%(sum(v=="pass" for v in res.values()),sum(v=="fail" for v in res.values()),len(stable)-len(bad),len(stable)))
for t in bad: print("  NOT PASSING:",t,res.get(t))
sys.exit(1 if bad else 0)
'
