#!/bin/bash
# usage: seed_verify.sh <cNN> [CHECK-ID ...]   (default checks: the property's own)
# Confirms an independently produced property-breaking change (made by a sub-agent that saw only the
# property text) and runs /verif's checks against it. Nothing is ever committed to /repo.
set -u
ID=$1; shift
UP=$(echo "$ID" | tr a-z A-Z)
SRC=${SEEDROOT:-/tmp/seed}/$ID
DST=/verif/seeded/$UP${SUFFIX:-}
export GOFLAGS=-mod=mod GOPROXY=off GOSUMDB=off GOTOOLCHAIN=local
mkdir -p "$DST"
cp "$SRC/patch.diff" "$DST/patch.diff" || exit 2
rm -rf "$DST/demo"; cp -r "$SRC/demo" "$DST/demo"; rm -f "$DST"/demo/*.txt
[ -f "$SRC/NOTES.md" ] && cp "$SRC/NOTES.md" "$DST/NOTES.md"
CHECKS="${*:-$UP}"
PROP=$UP
# 1. demo without / with the change, in a scratch worktree of /repo HEAD
W=$(mktemp -d /tmp/sv-XXXXXX); rmdir "$W"
git -C /repo worktree add -q --detach "$W" HEAD || exit 2
cp -r "$DST/demo" "$W/demo"
( cd "$W" && timeout 600 go test ${DEMO_FLAGS:-} -count=1 ./demo >"$DST/demo_without.txt" 2>&1 ); RC_WITHOUT=$?
( cd "$W" && git apply "$DST/patch.diff" ) || { echo "patch does not apply to HEAD"; git -C /repo worktree remove --force "$W"; exit 2; }
( cd "$W" && go build ./engine ./builder ./context ./internal/... ) || { echo "does not build"; git -C /repo worktree remove --force "$W"; exit 2; }
( cd "$W" && timeout 600 go test ${DEMO_FLAGS:-} -count=1 ./demo >"$DST/demo_with.txt" 2>&1 ); RC_WITH=$?
git -C /repo worktree remove --force "$W"
echo "demo: without change rc=$RC_WITHOUT (want 0), with change rc=$RC_WITH (want !=0)"
# 2. baseline suite + checks against /repo with the change applied, then restore
cd /repo && git diff --quiet || { echo "/repo not clean"; exit 2; }
git apply "$DST/patch.diff" || exit 2
trap 'git -C /repo checkout -- .' EXIT
BASE=$(/verif/run_baseline.sh 2>&1 | tail -3)
echo "suite: $BASE"
RES=""
for c in $CHECKS; do
  out=$(cd /verif && timeout 1500 ./check "$c" 2>&1); rc=$?
  first=$(echo "$out" | grep -A1 '^VIOLATION' | sed -n 2p | cut -c1-220)
  n=$(echo "$out" | grep -c '^VIOLATION')
  echo "check $c: rc=$rc violations=$n :: $first"
  RES="$RES{\"check\":\"$c\",\"rc\":$rc,\"violation_lines\":$n,\"first\":$(python3 -c 'import json,sys; print(json.dumps(sys.argv[1]))' "$first")},"
done
python3 - "$DST" "$PROP" "$RC_WITHOUT" "$RC_WITH" "$BASE" "[${RES%,}]" <<'PY'
import json,sys,os
dst,up,rw,rc,base,res=sys.argv[1:7]
meta={}
p=os.path.join(dst,'meta.json')
if os.path.exists(p):
    try: meta=json.load(open(p))
    except Exception: meta={}
meta.update({"property":up,"demo_rc_without_change":int(rw),"demo_rc_with_change":int(rc),"repo_suite_with_change":base.strip(),
 "checks_run":json.loads(res),"how_run":"seed_verify.sh: demo in a scratch worktree of /repo HEAD with/without patch.diff; patch applied to /repo's working tree (never committed), run_baseline.sh, ./check <ID> quick, git checkout -- ."})
json.dump(meta,open(p,'w'),indent=1)
PY
