//go:build go1.18

package vsched

import (
	"reflect"
	"unsafe"
)

// Channel operations of the instrumented code (rewrite R7). gengine itself uses no channels, but a
// changed tree may (wake-up signalling, fail-fast selects); without this model such code would block
// the cooperative scheduler on a real channel. Under an attached execution the real channel is only
// an identity token: buffer contents, closing and rendezvous live in the scheduler's model, every
// send / receive / select / close is a scheduling point with a modelled enabledness, and
// "goroutines blocked on channels forever" is the ordinary deadlock verdict. Detached, the helpers
// perform the real operations.

type chanState struct {
	cap    int
	q      []chanItem
	closed bool
	cvc    []uint32 // clock of the close
	dc     []uint32
}

type chanItem struct {
	v  interface{}
	vc []uint32
}

// pending channel operation of a parked thread
type chanOp struct {
	sel     []SelCase // OpSelect: the cases; send/recv: one case
	hasDef  bool
	handoff bool // a partner completed this operation while the thread was parked
	idx     int  // chosen case (after handoff / when performed)
	val     interface{}
	ok      bool
}

// SelCase is one case of a select (or a plain send / receive).
type SelCase struct {
	send bool
	id   unsafe.Pointer // channel identity (nil channel: never ready)
	cp   int
	val  interface{}
	rv   reflect.Value // the real channel, for detached operation
}

// SelResult is what Select returns.
type SelResult struct {
	Index int // chosen case, -1 = default
	val   interface{}
	ok    bool
}

const (
	OpChanSend OpKind = 20 + iota
	OpChanRecv
	OpSelect
	OpChanClose
)

func chanPtr[T any](ch <-chan T) unsafe.Pointer  { return *(*unsafe.Pointer)(unsafe.Pointer(&ch)) }
func chanPtrS[T any](ch chan<- T) unsafe.Pointer { return *(*unsafe.Pointer)(unsafe.Pointer(&ch)) }

// RecvCase / SendCase build select cases.
func RecvCase[T any](ch <-chan T) SelCase {
	return SelCase{id: chanPtr(ch), cp: cap(ch), rv: reflect.ValueOf(ch)}
}

func SendCase[T any](ch chan<- T, v T) SelCase {
	return SelCase{send: true, id: chanPtrS(ch), cp: cap(ch), val: v, rv: reflect.ValueOf(ch)}
}

// SelVal extracts the value received by the chosen receive case.
func SelVal[T any](s SelResult, ch <-chan T) (T, bool) {
	if s.val == nil {
		var z T
		return z, s.ok
	}
	return s.val.(T), s.ok
}

func (e *Exec) chanOf(c SelCase) *chanState {
	if e.chans == nil {
		e.chans = map[unsafe.Pointer]*chanState{}
	}
	st := e.chans[c.id]
	if st == nil {
		st = &chanState{cap: c.cp}
		e.chans[c.id] = st
	}
	return st
}

// partner: a parked thread (other than t) whose pending operation can rendezvous with case c
func (e *Exec) partner(t *thread, c SelCase) (*thread, int) {
	for _, u := range e.threads {
		if u == t || u.done || !u.parked || u.aborted || u.ch == nil || u.ch.handoff {
			continue
		}
		if u.op != OpChanSend && u.op != OpChanRecv && u.op != OpSelect {
			continue
		}
		for i, uc := range u.ch.sel {
			if uc.id == c.id && uc.send != c.send {
				return u, i
			}
		}
	}
	return nil, -1
}

// ready reports whether case c of thread t can complete now.
func (e *Exec) caseReady(t *thread, c SelCase) bool {
	if c.id == nil {
		return false // nil channel
	}
	st := e.chanOf(c)
	if c.send {
		if st.closed {
			return true // will panic, as the real operation does
		}
		if len(st.q) < st.cap {
			return true
		}
		if st.cap == 0 {
			u, _ := e.partner(t, c)
			return u != nil
		}
		return false
	}
	if len(st.q) > 0 || st.closed {
		return true
	}
	if st.cap == 0 {
		u, _ := e.partner(t, c)
		return u != nil
	}
	return false
}

func (e *Exec) chanEnabled(t *thread) bool {
	if t.ch.handoff || t.ch.hasDef {
		return true
	}
	for _, c := range t.ch.sel {
		if e.caseReady(t, c) {
			return true
		}
	}
	return false
}

// perform completes case i of the running thread t.
func (e *Exec) perform(t *thread, i int) {
	c := t.ch.sel[i]
	st := e.chanOf(c)
	joinVC(&t.dc, st.dc)
	if c.send {
		if st.closed {
			panic("send on closed channel")
		}
		if st.cap == 0 {
			u, ui := e.partner(t, c)
			u.ch.handoff, u.ch.idx, u.ch.val, u.ch.ok = true, ui, c.val, true
			joinVC(&u.vc, t.vc)
			joinVC(&u.dc, t.dc)
		} else {
			st.q = append(st.q, chanItem{c.val, cloneVC(t.vc)})
		}
		t.tick()
	} else {
		switch {
		case len(st.q) > 0:
			it := st.q[0]
			st.q = st.q[1:]
			t.ch.val, t.ch.ok = it.v, true
			joinVC(&t.vc, it.vc)
		case st.closed:
			t.ch.val, t.ch.ok = nil, false
			joinVC(&t.vc, st.cvc)
		default: // unbuffered: take it from the parked sender
			u, ui := e.partner(t, c)
			t.ch.val, t.ch.ok = u.ch.sel[ui].val, true
			u.ch.handoff, u.ch.idx = true, ui
			joinVC(&t.vc, u.vc)
			joinVC(&t.dc, u.dc)
		}
	}
	t.ch.idx = i
	x := uint64(i) << 1
	if c.send {
		x |= 1
	}
	e.event(t, OpSelect, x)
	st.dc = cloneVC(t.dc)
}

// doSelect parks the running thread with the given cases and completes one of them.
func (e *Exec) doSelect(op OpKind, hasDefault bool, cases []SelCase) SelResult {
	t := e.running
	if t.aborted {
		return SelResult{Index: -1}
	}
	t.ch = &chanOp{sel: cases, hasDef: hasDefault}
	e.point(op, 0, 0, nil)
	if t.aborted {
		return SelResult{Index: -1}
	}
	defer func() { t.ch = nil }()
	if t.ch.handoff {
		// a partner completed one of the cases while this thread was parked
		e.event(t, OpSelect, uint64(t.ch.idx)<<1|2)
		return SelResult{Index: t.ch.idx, val: t.ch.val, ok: t.ch.ok}
	}
	var ready []int
	for i, c := range cases {
		if e.caseReady(t, c) {
			ready = append(ready, i)
		}
	}
	if len(ready) == 0 {
		if !hasDefault {
			InternalError("scheduled a channel operation that cannot complete")
		}
		e.event(t, OpSelect, ^uint64(0))
		return SelResult{Index: -1}
	}
	pick := ready[0]
	if len(ready) > 1 {
		pick = ready[Choose(len(ready))] // Go chooses among the ready cases at random: an environment choice
	}
	e.perform(t, pick)
	return SelResult{Index: pick, val: t.ch.val, ok: t.ch.ok}
}

// Select models a select statement (index of the chosen case, -1 = default).
func Select(hasDefault bool, cases ...SelCase) SelResult {
	e := cur
	if e == nil {
		rc := make([]reflect.SelectCase, 0, len(cases)+1)
		for _, c := range cases {
			if c.send {
				rc = append(rc, reflect.SelectCase{Dir: reflect.SelectSend, Chan: c.rv, Send: reflect.ValueOf(c.val)})
			} else {
				rc = append(rc, reflect.SelectCase{Dir: reflect.SelectRecv, Chan: c.rv})
			}
		}
		if hasDefault {
			rc = append(rc, reflect.SelectCase{Dir: reflect.SelectDefault})
		}
		i, v, ok := reflect.Select(rc)
		if hasDefault && i == len(cases) {
			return SelResult{Index: -1}
		}
		r := SelResult{Index: i, ok: ok}
		if v.IsValid() && ok {
			r.val = v.Interface()
		}
		return r
	}
	return e.doSelect(OpSelect, hasDefault, cases)
}

// ChanSend models `ch <- v`.
func ChanSend[T any](ch chan<- T, v T) {
	e := cur
	if e == nil {
		ch <- v
		return
	}
	e.doSelect(OpChanSend, false, []SelCase{SendCase(ch, v)})
}

// ChanRecv2 models `v, ok := <-ch`.
func ChanRecv2[T any](ch <-chan T) (T, bool) {
	e := cur
	if e == nil {
		v, ok := <-ch
		return v, ok
	}
	return SelVal(e.doSelect(OpChanRecv, false, []SelCase{RecvCase(ch)}), ch)
}

// ChanRecv models `<-ch`.
func ChanRecv[T any](ch <-chan T) T {
	v, _ := ChanRecv2(ch)
	return v
}

// ChanClose models close(ch).
func ChanClose[T any](ch chan<- T) {
	e := cur
	if e == nil {
		close(ch)
		return
	}
	t := e.point(OpChanClose, 0, 0, nil)
	if t.aborted {
		return
	}
	st := e.chanOf(SelCase{id: chanPtrS(ch), cp: cap(ch)})
	if st.closed {
		panic("close of closed channel")
	}
	st.closed = true
	st.cvc = cloneVC(t.vc)
	t.tick()
	joinVC(&t.dc, st.dc)
	e.event(t, OpChanClose, 0)
	st.dc = cloneVC(t.dc)
}

// ChanLen models len(ch).
func ChanLen[T any](ch <-chan T) int {
	e := cur
	if e == nil {
		return len(ch)
	}
	if e.running.aborted {
		return 0
	}
	return len(e.chanOf(SelCase{id: chanPtr(ch), cp: cap(ch)}).q)
}
