//go:build go1.18

// Package vsched is the controlled scheduler that the instrumented gengine build runs on.
//
// It is supplied to the build as a *virtual package* through `go build -overlay`
// (import path github.com/bilibili/gengine/verifrt/vsched); nothing of it lives in /repo.
//
// Exactly one registered thread runs at a time. A thread gives up control only at a *point*
// (before Lock/RLock/WaitGroup.Add/Done/Wait, before a spawn, at a SpinYield, at a harness
// observer/gate, optionally before a hooked shared-memory access, and at environment choices).
// At every point the scheduler computes the set of enabled threads and asks the current
// execution's choice sequence which one runs next. Blocking is modelled (a thread whose
// pending operation is not enabled is simply never chosen) so deadlock is "nobody enabled".
//
// When no execution is attached every entry point falls through to plain Go behaviour.
package vsched

import (
	"fmt"
	"os"
	"reflect"
	"runtime"
	"runtime/debug"
	"sort"
	"strconv"
	"strings"
	"sync"
	"time"
	"unsafe"
)

// OpKind names the pending operation of a parked thread.
type OpKind uint8

const (
	OpStart OpKind = iota
	OpLock
	OpRLock
	OpWGAdd
	OpWGDone
	OpWGWait
	OpSpawn
	OpSpin
	OpObs    // harness observer call (log write); all mutually dependent
	OpWait   // harness gate: enabled when its predicate holds
	OpAccess // hooked shared-memory access made visible as a point
	OpEnd
	OpLockAcq // second half of RWMutex.Lock: the announced writer waits for the readers to leave
	OpAtomic  // sync/atomic operation
)

var opNames = [...]string{"start", "lock", "rlock", "wgadd", "wgdone", "wgwait", "spawn", "spin", "obs", "wait", "acc", "end", "lockacq", "atomic"}

func (k OpKind) String() string {
	if int(k) < len(opNames) {
		return opNames[k]
	}
	switch k {
	case OpChanSend:
		return "chsend"
	case OpChanRecv:
		return "chrecv"
	case OpSelect:
		return "select"
	case OpChanClose:
		return "chclose"
	}
	return "op?"
}

// ObjRef is embedded in every shim object; it gives the object a per-execution identity.
type ObjRef struct {
	epoch uint32
	id    uint32
}

type muState struct {
	pending *thread // RWMutex: writer that announced itself and waits for the readers to leave
	writer  *thread
	readers int
	vc      []uint32 // release clock (writer unlocks and reader unlocks joined)
	dc      []uint32
	rdc     []uint32 // join of reader events since the last writer event
}

type wgState struct {
	n  int
	vc []uint32
	dc []uint32
}

type thread struct {
	idx     int
	path    string
	wake    chan struct{}
	exited  chan struct{}
	nspawn  int
	op      OpKind
	obj     uint32
	arg     int
	pred    func() bool
	parked  bool
	started bool
	done    bool
	aborted bool
	nsteps  int
	vc      []uint32 // happens-before clock (synchronisation only) - race monitor
	dc      []uint32 // dependence clock (synchronisation + conflicting accesses + log order) - trace fingerprint
	phash   uint64
	// fairness for spin loops: threads that must step (or be disabled/done) before this one is
	// enabled again, with their step counts at the time of the yield
	spinWait  map[*thread]int
	ch        *chanOp // pending channel operation (chan.go)
	signalled bool    // condition variable: selected by a Signal / Broadcast
	sigVC     []uint32
}

// PointRec describes one recorded choice point of an execution.
type PointRec struct {
	N         int    // number of alternatives
	Chosen    int    // alternative taken
	Costly    bool   // a non-default choice here costs one deviation (preemption / env answer)
	Env       bool   // environment choice (not a thread choice)
	EnabledFP uint64 // trace fingerprint of the state in which the choice is made
	Running   uint64 // identity of the thread that was running (part of the pruning key)
}

// Options configure one execution.
type Options struct {
	Horizon      int            // max scheduling steps before verdict "horizon" (0 = 200000)
	AccessPoints bool           // hooked accesses to shared state are scheduling points
	Monitor      bool           // happens-before race monitor on hooked accesses
	MapChoices   bool           // map iteration order is an environment choice (else always ascending)
	Trace        bool           // keep a textual step trace
	Sites        map[int32]bool // with AccessPoints: the access sites that are scheduling points
	MapSites     map[int32]bool // with MapChoices: only these range-over-map sites are choice points (nil = all)
}

// Race is one happens-before race reported by the monitor.
type Race struct {
	SiteA, SiteB int32 // site ids as assigned by the instrumenter (A <= B)
	WriteA       bool
	WriteB       bool
}

// Exec is one controlled execution.
type Exec struct {
	opts       Options
	threads    []*thread
	running    *thread
	prefix     []int32
	pos        int
	Points     []PointRec
	Choices    []int32
	steps      int
	Verdict    string // "" (completed) | deadlock | horizon | crash
	Crash      string
	ctl        chan ctlMsg
	live       sync.WaitGroup
	mus        map[uint32]*muState
	wgs        map[uint32]*wgState
	nextObj    uint32
	epoch      uint32
	aborting   bool
	Races      map[Race]bool
	locs       map[unsafe.Pointer]*locState
	obsDC      []uint32
	obsSeq     uint64
	Sites      map[int32]bool // access sites that are scheduling points in this execution
	TraceLog   []string
	hb         map[string][]uint32 // harness HB keys
	chans      map[unsafe.Pointer]*chanState
	conds      map[uint32][]*thread // waiters per condition variable
	locPool    []locState           // slab of shadow states (monitor.go)
	atomics    map[unsafe.Pointer]*atomicState
	det        bool   // deterministic tail: no further choice points are recorded
	fp         uint64 // running fingerprint of the Mazurkiewicz trace (xor of event hashes)
	divergence string
}

type ctlMsg struct {
	kind int // 0 finished, 1 abort
	from *thread
}

var (
	cur      *Exec
	epochCtr uint32
)

// Attached reports whether a controlled execution is in progress.
func Attached() bool { return cur != nil }

// Cur returns the attached execution or nil.
func Cur() *Exec { return cur }

// InternalError aborts the process with exit code 2 (never a verdict).
func InternalError(format string, a ...interface{}) {
	fmt.Fprintf(os.Stderr, "INTERNAL-ERROR vsched: "+format+"\n", a...)
	os.Exit(2)
}

// Run executes body as thread "0" under the scheduler, replaying prefix and then taking the default
// (0) at every later choice point. It returns when every thread has ended or the execution was
// abandoned (see Verdict).
func Run(opts Options, prefix []int32, body func()) *Exec {
	if cur != nil {
		InternalError("nested Run")
	}
	if opts.Horizon == 0 {
		opts.Horizon = 200000
	}
	epochCtr++
	e := &Exec{opts: opts, prefix: prefix, ctl: make(chan ctlMsg, 4), mus: map[uint32]*muState{}, wgs: map[uint32]*wgState{}, epoch: epochCtr}
	if opts.Monitor {
		e.Races = map[Race]bool{}
	}
	if opts.Monitor || opts.AccessPoints {
		e.locs = make(map[unsafe.Pointer]*locState, locsHint)
		e.locPool = make([]locState, locsHint+16)
	}
	e.Sites = opts.Sites
	cur = e
	t0 := e.newThread(nil, body)
	e.running = t0
	t0.started = true
	t0.parked = false
	t0.wake <- struct{}{}
	e.coordinate()
	cur = nil
	if e.locs != nil {
		locsHint = len(e.locs) // executions of one scenario touch about the same number of locations
	}
	return e
}

var locsHint int

func (e *Exec) newThread(parent *thread, f func()) *thread {
	t := &thread{idx: len(e.threads), wake: make(chan struct{}, 1), exited: make(chan struct{})}
	if parent == nil {
		t.path = "0"
		t.vc = []uint32{1}
		t.dc = []uint32{0}
	} else {
		t.path = parent.path + "." + strconv.Itoa(parent.nspawn)
		parent.nspawn++
		t.vc = make([]uint32, t.idx+1)
		copy(t.vc, parent.vc)
		t.vc[t.idx] = 1
		parent.tick()
		t.dc = make([]uint32, t.idx+1)
		copy(t.dc, parent.dc)
	}
	t.phash = strHash(t.path)
	t.op = OpStart
	t.parked = true
	e.threads = append(e.threads, t)
	e.live.Add(1)
	go func() {
		defer e.live.Done()
		defer close(t.exited)
		defer func() {
			if r := recover(); r != nil {
				// a panic escaping a goroutine = process crash in reality
				if !t.aborted && !e.aborting {
					buf := make([]byte, 4096)
					buf = buf[:runtime.Stack(buf, false)]
					e.Crash = fmt.Sprintf("panic in thread %s: %v\n%s", t.path, r, buf)
					e.Verdict = "crash"
					t.aborted = true
					e.aborting = true
					e.ctl <- ctlMsg{1, t}
				}
			}
		}()
		<-t.wake
		if t.aborted {
			return
		}
		f()
		if t.aborted {
			return
		}
		t.done = true
		t.parked = false
		e.schedule(t)
	}()
	return t
}

func (t *thread) tick() { t.vc[t.idx]++ }

func joinVC(dst *[]uint32, src []uint32) {
	d := *dst
	if len(src) > len(d) {
		nd := make([]uint32, len(src))
		copy(nd, d)
		d = nd
	}
	for i, v := range src {
		if v > d[i] {
			d[i] = v
		}
	}
	*dst = d
}

func cloneVC(v []uint32) []uint32 { return append([]uint32(nil), v...) }

// coordinate runs on the goroutine that called Run.
func (e *Exec) coordinate() {
	timer := time.NewTimer(120 * time.Second)
	defer timer.Stop()
	select {
	case m := <-e.ctl:
		if m.kind == 1 {
			// serial abort: first the reporter, then every other live thread
			if m.from != nil {
				<-m.from.exited
			}
			for i := 0; i < len(e.threads); i++ { // threads may grow? no: Go() is a no-op while aborting
				t := e.threads[i]
				select {
				case <-t.exited:
					continue
				default:
				}
				if t.done && !t.parked {
					<-t.exited
					continue
				}
				t.aborted = true
				e.running = t
				t.wake <- struct{}{}
				<-t.exited
			}
		}
	case <-timer.C:
		dump := make([]byte, 1<<16)
		dump = dump[:runtime.Stack(dump, true)]
		InternalError("watchdog: execution made no progress for 120s (blocked on something the scheduler does not own?)\n%s", dump)
	}
	e.live.Wait()
}

func (e *Exec) abort(from *thread, verdict string) {
	// called on thread `from` (running)
	e.Verdict = verdict
	e.aborting = true
	from.aborted = true
	e.ctl <- ctlMsg{1, from}
	runtime.Goexit()
}

func (e *Exec) isEnabled(t *thread) bool {
	if t.done || !t.parked || t.aborted {
		return false
	}
	switch t.op {
	case OpLock:
		m := e.mus[t.obj]
		if t.arg == 1 { // RWMutex.Lock: may announce itself while readers are inside (see LockRW)
			return m == nil || (m.writer == nil && m.pending == nil)
		}
		return m == nil || (m.writer == nil && m.readers == 0)
	case OpLockAcq:
		m := e.mus[t.obj]
		return m == nil || m.readers == 0
	case OpRLock:
		m := e.mus[t.obj]
		return m == nil || (m.writer == nil && m.pending == nil)
	case OpWGWait:
		w := e.wgs[t.obj]
		return w == nil || w.n == 0
	case OpWait:
		return t.pred()
	case OpChanSend, OpChanRecv, OpSelect:
		return e.chanEnabled(t)
	case OpSpin:
		for u, n := range t.spinWait {
			if u.done || u.nsteps != n {
				delete(t.spinWait, u)
				continue
			}
			if e.isEnabled(u) {
				return false
			}
		}
		return true
	}
	return true
}

// schedule is called by the running thread `from` when it parks (or ends); it returns when `from`
// has been chosen to run again (never, if from.done).
func (e *Exec) schedule(from *thread) {
	e.steps++
	if e.steps > e.opts.Horizon {
		if from.done {
			e.Verdict = "horizon"
			e.aborting = true
			e.ctl <- ctlMsg{1, nil}
			return
		}
		e.abort(from, "horizon")
	}
	var en []*thread
	if e.isEnabled(from) {
		en = append(en, from)
	}
	costly := len(en) == 1
	for _, t := range e.threads {
		if t != from && e.isEnabled(t) {
			en = append(en, t)
		}
	}
	if len(en) == 0 {
		alldone := true
		for _, t := range e.threads {
			if !t.done {
				alldone = false
				break
			}
		}
		if alldone {
			e.ctl <- ctlMsg{0, nil}
			return
		}
		// somebody is blocked and nobody can run
		spin := false
		for _, t := range e.threads {
			if !t.done && t.op == OpSpin {
				spin = true
			}
		}
		v := "deadlock"
		if spin {
			v = "livelock"
		}
		if from.done {
			e.Verdict = v
			e.aborting = true
			e.ctl <- ctlMsg{1, nil}
			return
		}
		e.abort(from, v)
	}
	idx := 0
	if len(en) > 1 && !e.det {
		rh := uint64(1)
		if costly {
			rh = from.phash
		}
		idx = e.choose(len(en), costly, false, rh)
	}
	next := en[idx]
	e.running = next
	if next == from {
		from.parked = false
		return
	}
	next.parked = false
	next.wake <- struct{}{}
	if from.done {
		return
	}
	<-from.wake
	if from.aborted {
		runtime.Goexit()
	}
}

func (e *Exec) choose(n int, costly bool, env bool, running uint64) int {
	c := 0
	if e.pos < len(e.prefix) {
		c = int(e.prefix[e.pos])
		if c >= n {
			e.divergence = fmt.Sprintf("replay divergence at choice %d: prefix wants %d of %d", e.pos, c, n)
			c = 0
		}
	}
	e.pos++
	e.Points = append(e.Points, PointRec{N: n, Chosen: c, Costly: costly, Env: env, EnabledFP: e.fp, Running: running})
	e.Choices = append(e.Choices, int32(c))
	return c
}

// Divergence returns a non-empty message if the replayed prefix did not fit this execution.
func (e *Exec) Divergence() string { return e.divergence }

// Steps returns the number of scheduling steps taken.
func (e *Exec) Steps() int { return e.steps }

// NThreads returns the number of threads created.
func (e *Exec) NThreads() int { return len(e.threads) }

// point parks the running thread with the given pending operation until it is chosen.
func (e *Exec) point(op OpKind, obj uint32, arg int, pred func() bool) *thread {
	t := e.running
	if t.aborted {
		return t
	}
	t.op, t.obj, t.arg, t.pred = op, obj, arg, pred
	t.parked = true
	e.schedule(t)
	t.nsteps++
	t.pred = nil
	if e.opts.Trace {
		e.TraceLog = append(e.TraceLog, fmt.Sprintf("%s:%s#%d", t.path, op, obj))
	}
	return t
}

func (e *Exec) objID(r *ObjRef) uint32 {
	if r.epoch != e.epoch {
		r.epoch = e.epoch
		e.nextObj++
		r.id = e.nextObj
	}
	return r.id
}

func mix(h uint64, v uint64) uint64 {
	h ^= v + 0x9e3779b97f4a7c15 + (h << 6) + (h >> 2)
	h *= 0xff51afd7ed558ccd
	h ^= h >> 33
	return h
}

func strHash(s string) uint64 {
	var h uint64 = 14695981039346656037
	for i := 0; i < len(s); i++ {
		h ^= uint64(s[i])
		h *= 1099511628211
	}
	return h
}

// event folds one executed visible operation into the execution's trace fingerprint. The
// operation is identified by (thread path, index in thread, kind, argument) and by its
// *dependence clock*: the per-thread event counts of everything it depends on (synchronisation,
// conflicting accesses to hooked shared memory, log order). Two executions therefore have equal
// fingerprints exactly when they performed the same partially ordered set of events, i.e. the same
// Mazurkiewicz trace, and - the code under test being deterministic given what each thread
// observed - reached the same state.
func (e *Exec) event(t *thread, op OpKind, extra uint64) {
	t.dc[t.idx] = uint32(t.nsteps) + 1
	h := mix(t.phash, uint64(t.nsteps))
	h = mix(h, uint64(op))
	h = mix(h, extra)
	var c uint64
	for i, v := range t.dc {
		if v != 0 {
			c += mix(e.threads[i].phash, uint64(v))
		}
	}
	h = mix(h, c)
	e.fp ^= h
}

// Fingerprint of the events executed so far.
func (e *Exec) Fingerprint() uint64 { return e.fp }

// ---- mutex ----

func (e *Exec) mu(id uint32) *muState {
	m := e.mus[id]
	if m == nil {
		m = &muState{}
		e.mus[id] = m
	}
	return m
}

func (e *Exec) Lock(r *ObjRef) {
	id := e.objID(r)
	t := e.point(OpLock, id, 0, nil)
	if t.aborted {
		return
	}
	m := e.mu(id)
	if m.writer != nil || m.readers != 0 {
		InternalError("scheduled a Lock on a held mutex")
	}
	m.writer = t
	joinVC(&t.vc, m.vc)
	joinVC(&t.dc, m.dc)
	joinVC(&t.dc, m.rdc)
	e.event(t, OpLock, 0)
	m.dc = cloneVC(t.dc)
	m.rdc = nil
}

// LockRW models sync.RWMutex.Lock, which prefers writers: once a writer has announced itself, new
// readers block even though earlier readers are still inside (a recursive read lock therefore
// deadlocks against a waiting writer). With no reader inside, announcing and acquiring are one step;
// otherwise the announcement is a step of its own and the acquisition waits for the readers to leave.
func (e *Exec) LockRW(r *ObjRef) {
	id := e.objID(r)
	t := e.point(OpLock, id, 1, nil)
	if t.aborted {
		return
	}
	m := e.mu(id)
	if m.writer != nil || m.pending != nil {
		InternalError("scheduled an RWMutex.Lock while another writer holds or awaits the lock")
	}
	if m.readers != 0 {
		m.pending = t
		joinVC(&t.dc, m.dc)
		joinVC(&t.dc, m.rdc)
		e.event(t, OpLock, 1)
		m.dc = cloneVC(t.dc)
		e.point(OpLockAcq, id, 0, nil)
		m.pending = nil
		if t.aborted {
			return
		}
		if m.readers != 0 {
			InternalError("scheduled the acquisition of an RWMutex with readers inside")
		}
	}
	m.writer = t
	joinVC(&t.vc, m.vc)
	joinVC(&t.dc, m.dc)
	joinVC(&t.dc, m.rdc)
	e.event(t, OpLock, 0)
	m.dc = cloneVC(t.dc)
	m.rdc = nil
}

// TryLock models Mutex.TryLock / RWMutex.TryLock (read = false) and RWMutex.TryRLock (read = true):
// a scheduling point that acquires the lock if it is free at that instant and reports whether it did.
func (e *Exec) TryLock(r *ObjRef, read bool) bool {
	id := e.objID(r)
	t := e.point(OpAtomic, id, 0, nil)
	if t.aborted {
		return false
	}
	m := e.mu(id)
	joinVC(&t.dc, m.dc)
	if !read {
		joinVC(&t.dc, m.rdc)
	}
	ok := m.writer == nil && m.pending == nil && (read || m.readers == 0)
	x := uint64(2)
	if ok {
		x = 3
		joinVC(&t.vc, m.vc)
		if read {
			m.readers++
		} else {
			m.writer = t
		}
	}
	e.event(t, OpLock, x)
	if read {
		joinVC(&m.rdc, t.dc)
	} else {
		m.dc = cloneVC(t.dc)
		if ok {
			m.rdc = nil
		}
	}
	return ok
}

func (e *Exec) Unlock(r *ObjRef) {
	t := e.running
	if t.aborted {
		return
	}
	id := e.objID(r)
	m := e.mus[id]
	if m == nil || m.writer == nil {
		panic("sync: unlock of unlocked mutex")
	}
	m.writer = nil
	m.vc = cloneVC(t.vc)
	t.tick()
}

func (e *Exec) RLock(r *ObjRef) {
	id := e.objID(r)
	t := e.point(OpRLock, id, 0, nil)
	if t.aborted {
		return
	}
	m := e.mu(id)
	m.readers++
	joinVC(&t.vc, m.vc)
	joinVC(&t.dc, m.dc)
	e.event(t, OpRLock, 0)
	joinVC(&m.rdc, t.dc)
}

func (e *Exec) RUnlock(r *ObjRef) {
	t := e.running
	if t.aborted {
		return
	}
	id := e.objID(r)
	m := e.mus[id]
	if m == nil || m.readers == 0 {
		panic("sync: RUnlock of unlocked RWMutex")
	}
	m.readers--
	joinVC(&m.vc, t.vc)
	t.tick()
}

// ---- wait group ----

func (e *Exec) WGAdd(r *ObjRef, delta int) {
	id := e.objID(r)
	op := OpWGAdd
	if delta < 0 {
		op = OpWGDone
	}
	t := e.point(op, id, delta, nil)
	if t.aborted {
		return
	}
	w := e.wgs[id]
	if w == nil {
		w = &wgState{}
		e.wgs[id] = w
	}
	w.n += delta
	if w.n < 0 {
		panic("sync: negative WaitGroup counter")
	}
	// counter updates are mutually dependent (they do not commute with Wait's enabledness)
	joinVC(&t.dc, w.dc)
	e.event(t, op, uint64(int64(delta)))
	w.dc = cloneVC(t.dc)
	if delta < 0 {
		joinVC(&w.vc, t.vc)
		t.tick()
	}
}

func (e *Exec) WGWait(r *ObjRef) {
	id := e.objID(r)
	t := e.point(OpWGWait, id, 0, nil)
	if t.aborted {
		return
	}
	if w := e.wgs[id]; w != nil {
		joinVC(&t.vc, w.vc)
		joinVC(&t.dc, w.dc)
	}
	e.event(t, OpWGWait, 0)
}

// ---- spawn / spin / harness ----

// Go replaces the `go` statement in instrumented code.
func Go(f func()) {
	e := cur
	if e == nil {
		go f()
		return
	}
	t := e.running
	if t.aborted || e.aborting {
		return
	}
	e.point(OpSpawn, 0, 0, nil)
	if t.aborted {
		return
	}
	c := e.newThread(t, f)
	c.started = true
	e.event(t, OpSpawn, 0)
	copy(c.dc, t.dc)
}

// SpinYield is appended to condition-less loops that retry a lock: the caller is not scheduled
// again before every other thread that could run has taken a step (fair scheduling), so a
// busy-wait does not make the execution space cyclic.
func SpinYield() {
	e := cur
	if e == nil {
		runtime.Gosched()
		return
	}
	t := e.running
	if t.aborted {
		runtime.Goexit()
	}
	t.spinWait = map[*thread]int{}
	for _, u := range e.threads {
		if u != t && !u.done {
			t.spinWait[u] = u.nsteps
		}
	}
	e.point(OpSpin, 0, 0, nil)
	t.spinWait = nil
}

// Obs is a scheduling point for a harness observer (a write to the global event log).
func Obs() {
	e := cur
	if e == nil {
		return
	}
	t := e.point(OpObs, 0, 0, nil)
	if t.aborted {
		return
	}
	e.logEvent(t, OpObs)
}

// logEvent: observer calls and gate passages are writes to one global log, hence totally ordered
// among themselves (mutually dependent).
func (e *Exec) logEvent(t *thread, op OpKind) {
	joinVC(&t.dc, e.obsDC)
	e.obsSeq++
	e.event(t, op, e.obsSeq)
	e.obsDC = cloneVC(t.dc)
}

// WaitUntil blocks the caller (in the scheduler's model) until pred holds. pred may read only
// harness state that is mutated by scheduled threads.
func WaitUntil(pred func() bool) {
	e := cur
	if e == nil {
		for !pred() {
			runtime.Gosched()
		}
		return
	}
	t := e.point(OpWait, 0, 0, pred)
	if t.aborted {
		return
	}
	e.logEvent(t, OpWait)
}

// HBRelease / HBAcquire let the harness declare real synchronisation it performs itself (for the
// race monitor only).
func HBRelease(key string) {
	e := cur
	if e == nil || e.running.aborted {
		return
	}
	if e.hb == nil {
		e.hb = map[string][]uint32{}
	}
	v := e.hb[key]
	joinVC(&v, e.running.vc)
	e.hb[key] = v
	e.running.tick()
}

func HBAcquire(key string) {
	e := cur
	if e == nil || e.running.aborted {
		return
	}
	if v, ok := e.hb[key]; ok {
		joinVC(&e.running.vc, v)
	}
}

// Choose is an environment choice point with n alternatives (default 0).
func Choose(n int) int {
	e := cur
	if e == nil || n <= 1 || e.running.aborted || e.det {
		return 0
	}
	c := e.choose(n, true, true, mix(e.running.phash, 77))
	e.fp = mix(e.fp, uint64(c)+uint64(n)<<8)
	return c
}

// Sleep replaces time.Sleep in instrumented code: detached it sleeps; under a controlled execution
// real time does not exist, the sleeper just lets every other runnable thread take a step first.
func Sleep(d time.Duration) {
	if cur == nil {
		time.Sleep(d)
		return
	}
	SpinYield()
}

// Epoch identifies the execution (shims reset per-execution state with it).
func (e *Exec) Epoch() uint64 { return uint64(e.epoch) }

// SpawnCount returns how many threads the calling thread has started so far (harness use: which
// request of a client a goroutine belongs to).
func SpawnCount() int {
	if e := cur; e != nil && e.running != nil {
		return e.running.nspawn
	}
	return 0
}

// ThreadPath returns the spawn path of the running thread ("" when detached).
func ThreadPath() string {
	if cur == nil {
		return ""
	}
	return cur.running.path
}

// Aborted reports whether the calling thread is being torn down (its observations are void).
func Aborted() bool {
	return cur != nil && (cur.running.aborted || cur.aborting)
}

// ---- map iteration order ----

// SortedKeys returns the keys of a map in ascending order or, when map choices are enabled for the
// execution, in the permutation chosen by the environment (rewrite R3: `range` over a map).
func SortedKeys[K comparable, V any](m map[K]V, site int32) []K {
	keys := make([]K, 0, len(m))
	for k := range m {
		keys = append(keys, k)
	}
	sort.Slice(keys, func(i, j int) bool { return lessValue(reflect.ValueOf(keys[i]), reflect.ValueOf(keys[j])) })
	e := cur
	if e != nil {
		if e.locs != nil && site >= 0 && m != nil {
			e.acc(mapPtr(m), site, false)
		}
		if e.opts.MapChoices && len(keys) > 1 && !e.running.aborted && (e.opts.MapSites == nil || e.opts.MapSites[site]) {
			keys = permute(keys, Choose(numPerms(len(keys))))
		}
	}
	return keys
}

func numPerms(n int) int {
	if n > 4 {
		return n // rotations only
	}
	f := 1
	for i := 2; i <= n; i++ {
		f *= i
	}
	return f
}

func permute[K any](keys []K, k int) []K {
	n := len(keys)
	if n > 4 {
		return append(append([]K{}, keys[k:]...), keys[:k]...)
	}
	// k-th permutation in lexicographic order (factorial number system)
	pool := append([]K{}, keys...)
	out := make([]K, 0, n)
	f := numPerms(n)
	for i := n; i >= 1; i-- {
		f /= i
		j := k / f
		k %= f
		out = append(out, pool[j])
		pool = append(pool[:j], pool[j+1:]...)
	}
	return out
}

// Summary renders the choice sequence compactly (for replay files).
func ChoicesString(c []int32) string {
	var sb strings.Builder
	for i, v := range c {
		if i > 0 {
			sb.WriteByte(',')
		}
		sb.WriteString(strconv.Itoa(int(v)))
	}
	return sb.String()
}

// GCControl disables the collector during monitored executions (no address reuse inside one
// execution) and collects between executions.
func GCControl(off bool) {
	if off {
		debug.SetGCPercent(-1)
	} else {
		debug.SetGCPercent(100)
	}
}

// WaitOthersDone blocks the caller until every other thread has ended ("the system is quiescent").
func WaitOthersDone() {
	e := cur
	if e == nil {
		return
	}
	t := e.running
	WaitUntil(func() bool {
		for _, u := range e.threads {
			if u != t && !u.done {
				return false
			}
		}
		return true
	})
}

// Deterministic switches the rest of the execution to the default schedule without recording
// choice points: used for a probe phase that examines the state reached by the explored part
// (e.g. "can the pool still serve max simultaneous requests?") - the probe itself is not explored.
func Deterministic(on bool) {
	if e := cur; e != nil {
		e.det = on
	}
}

// ---- condition variables ----

// CondWait models sync.Cond.Wait: release the lock, park until a Signal/Broadcast issued after this
// call selects this waiter, re-acquire the lock.
func (e *Exec) CondWait(r *ObjRef, unlock, lock func()) {
	t := e.running
	if t.aborted {
		return
	}
	id := e.objID(r)
	if e.conds == nil {
		e.conds = map[uint32][]*thread{}
	}
	e.conds[id] = append(e.conds[id], t)
	t.signalled = false
	unlock()
	e.point(OpWait, id, 0, func() bool { return t.signalled })
	if t.aborted {
		return
	}
	joinVC(&t.vc, t.sigVC)
	e.logEvent(t, OpWait)
	lock()
}

// CondSignal models Signal (all=false: the longest waiting thread) and Broadcast (all=true).
func (e *Exec) CondSignal(r *ObjRef, all bool) {
	t := e.running
	if t.aborted {
		return
	}
	id := e.objID(r)
	e.point(OpObs, id, 0, nil)
	if t.aborted {
		return
	}
	if e.conds == nil {
		e.conds = map[uint32][]*thread{}
	}
	ws := e.conds[id]
	n := len(ws)
	if !all && n > 1 {
		n = 1
	}
	for _, w := range ws[:n] {
		w.signalled = true
		w.sigVC = cloneVC(t.vc)
	}
	e.conds[id] = ws[n:]
	t.tick()
	e.logEvent(t, OpObs)
}

// ---- sync/atomic ----

type atomicState struct {
	vc []uint32
	dc []uint32
}

// AtomicP is wrapped around the address operand (or receiver) of every sync/atomic operation of the
// instrumented code. The operation is a scheduling point; all operations on one address are totally
// ordered, mutually dependent, and each one is both an acquire and a release (Go's atomics are
// sequentially consistent), so data published through an atomic flag is not reported as a race.
func AtomicP[T any](p *T) *T {
	if e := cur; e != nil {
		e.atomicOp(unsafe.Pointer(p))
	}
	return p
}

func (e *Exec) atomicOp(p unsafe.Pointer) {
	t := e.running
	if t.aborted || p == nil {
		return
	}
	e.point(OpAtomic, 0, 0, nil)
	if t.aborted {
		return
	}
	if e.atomics == nil {
		e.atomics = map[unsafe.Pointer]*atomicState{}
	}
	st := e.atomics[p]
	if st == nil {
		st = &atomicState{}
		e.atomics[p] = st
	}
	joinVC(&t.vc, st.vc)
	joinVC(&t.dc, st.dc)
	e.event(t, OpAtomic, 0)
	st.vc = cloneVC(t.vc)
	st.dc = cloneVC(t.dc)
	t.tick()
}
