//go:build go1.18

// Package vsync is the drop-in replacement for "sync" in the instrumented gengine build
// (import path github.com/bilibili/gengine/verifrt/vsync, supplied through the build overlay).
// With no controlled execution attached every method falls through to the real sync type.
package vsync

import (
	"sync"

	"github.com/bilibili/gengine/verifrt/vsched"
)

type Mutex struct {
	m   sync.Mutex
	ref vsched.ObjRef
}

func (m *Mutex) Lock() {
	if e := vsched.Cur(); e != nil {
		e.Lock(&m.ref)
		return
	}
	m.m.Lock()
}

func (m *Mutex) Unlock() {
	if e := vsched.Cur(); e != nil {
		e.Unlock(&m.ref)
		return
	}
	m.m.Unlock()
}

type RWMutex struct {
	m   sync.RWMutex
	ref vsched.ObjRef
}

func (m *RWMutex) Lock() {
	if e := vsched.Cur(); e != nil {
		e.Lock(&m.ref)
		return
	}
	m.m.Lock()
}

func (m *RWMutex) Unlock() {
	if e := vsched.Cur(); e != nil {
		e.Unlock(&m.ref)
		return
	}
	m.m.Unlock()
}

func (m *RWMutex) RLock() {
	if e := vsched.Cur(); e != nil {
		e.RLock(&m.ref)
		return
	}
	m.m.RLock()
}

func (m *RWMutex) RUnlock() {
	if e := vsched.Cur(); e != nil {
		e.RUnlock(&m.ref)
		return
	}
	m.m.RUnlock()
}

type WaitGroup struct {
	w   sync.WaitGroup
	ref vsched.ObjRef
}

func (w *WaitGroup) Add(delta int) {
	if e := vsched.Cur(); e != nil {
		e.WGAdd(&w.ref, delta)
		return
	}
	w.w.Add(delta)
}

func (w *WaitGroup) Done() {
	if e := vsched.Cur(); e != nil {
		e.WGAdd(&w.ref, -1)
		return
	}
	w.w.Done()
}

func (w *WaitGroup) Wait() {
	if e := vsched.Cur(); e != nil {
		e.WGWait(&w.ref)
		return
	}
	w.w.Wait()
}

// Types the scheduler does not model are passed through unchanged so that a changed tree which
// starts using them still builds (their blocking behaviour is then invisible to the explorer; a
// hang is caught by the watchdog as an internal error, never as a verdict).
type (
	Once   = sync.Once
	Map    = sync.Map
	Pool   = sync.Pool
	Cond   = sync.Cond
	Locker = sync.Locker
)

func NewCond(l Locker) *Cond { return sync.NewCond(l) }
