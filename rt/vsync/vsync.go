//go:build go1.18

// Package vsync is the drop-in replacement for "sync" in the instrumented gengine build
// (import path github.com/bilibili/gengine/verifrt/vsync, supplied through the build overlay).
// With no controlled execution attached every method falls through to the real sync type.
package vsync

import (
	"fmt"
	"sort"
	"sync"

	"github.com/bilibili/gengine/verifrt/vsched"
)

type Mutex struct {
	m   sync.Mutex
	ref vsched.ObjRef
}

func (m *Mutex) Lock() {
	if e := vsched.Cur(); e != nil {
		e.Lock(&m.ref)
		return
	}
	m.m.Lock()
}

func (m *Mutex) Unlock() {
	if e := vsched.Cur(); e != nil {
		e.Unlock(&m.ref)
		return
	}
	m.m.Unlock()
}

func (m *Mutex) TryLock() bool {
	if e := vsched.Cur(); e != nil {
		return e.TryLock(&m.ref, false)
	}
	return m.m.TryLock()
}

type RWMutex struct {
	m   sync.RWMutex
	ref vsched.ObjRef
}

func (m *RWMutex) Lock() {
	if e := vsched.Cur(); e != nil {
		e.LockRW(&m.ref)
		return
	}
	m.m.Lock()
}

func (m *RWMutex) Unlock() {
	if e := vsched.Cur(); e != nil {
		e.Unlock(&m.ref)
		return
	}
	m.m.Unlock()
}

func (m *RWMutex) RLock() {
	if e := vsched.Cur(); e != nil {
		e.RLock(&m.ref)
		return
	}
	m.m.RLock()
}

func (m *RWMutex) RUnlock() {
	if e := vsched.Cur(); e != nil {
		e.RUnlock(&m.ref)
		return
	}
	m.m.RUnlock()
}

func (m *RWMutex) TryLock() bool {
	if e := vsched.Cur(); e != nil {
		return e.TryLock(&m.ref, false)
	}
	return m.m.TryLock()
}

func (m *RWMutex) TryRLock() bool {
	if e := vsched.Cur(); e != nil {
		return e.TryLock(&m.ref, true)
	}
	return m.m.TryRLock()
}

type rlocker RWMutex

func (r *rlocker) Lock()   { (*RWMutex)(r).RLock() }
func (r *rlocker) Unlock() { (*RWMutex)(r).RUnlock() }

// RLocker returns a Locker whose Lock / Unlock are m.RLock / m.RUnlock.
func (m *RWMutex) RLocker() Locker { return (*rlocker)(m) }

type WaitGroup struct {
	w   sync.WaitGroup
	ref vsched.ObjRef
}

func (w *WaitGroup) Add(delta int) {
	if e := vsched.Cur(); e != nil {
		e.WGAdd(&w.ref, delta)
		return
	}
	w.w.Add(delta)
}

func (w *WaitGroup) Done() {
	if e := vsched.Cur(); e != nil {
		e.WGAdd(&w.ref, -1)
		return
	}
	w.w.Done()
}

func (w *WaitGroup) Wait() {
	if e := vsched.Cur(); e != nil {
		e.WGWait(&w.ref)
		return
	}
	w.w.Wait()
}

// Once: the real sync.Once would block a second caller on its internal mutex while the first one is
// parked inside f - invisible to the scheduler. This one is built from the shim Mutex.
type Once struct {
	m    Mutex
	done bool
}

func (o *Once) Do(f func()) {
	o.m.Lock()
	defer o.m.Unlock()
	if !o.done {
		defer func() { o.done = true }()
		f()
	}
}

// OnceFunc, OnceValue, OnceValues as in package sync, on top of the shim Once.
func OnceFunc(f func()) func() {
	var o Once
	return func() { o.Do(f) }
}

func OnceValue[T any](f func() T) func() T {
	var o Once
	var v T
	return func() T {
		o.Do(func() { v = f() })
		return v
	}
}

func OnceValues[T1, T2 any](f func() (T1, T2)) func() (T1, T2) {
	var o Once
	var v1 T1
	var v2 T2
	return func() (T1, T2) {
		o.Do(func() { v1, v2 = f() })
		return v1, v2
	}
}

// Cond: Wait releases L, parks until signalled (modelled), re-acquires L.
type Cond struct {
	L    Locker
	real *sync.Cond
	m    sync.Mutex
	ref  vsched.ObjRef
}

func NewCond(l Locker) *Cond { return &Cond{L: l} }

func (c *Cond) realCond() *sync.Cond {
	c.m.Lock()
	defer c.m.Unlock()
	if c.real == nil {
		c.real = sync.NewCond(c.L)
	}
	return c.real
}

func (c *Cond) Wait() {
	if e := vsched.Cur(); e != nil {
		e.CondWait(&c.ref, c.L.Unlock, c.L.Lock)
		return
	}
	c.realCond().Wait()
}

func (c *Cond) Signal() {
	if e := vsched.Cur(); e != nil {
		e.CondSignal(&c.ref, false)
		return
	}
	c.realCond().Signal()
}

func (c *Cond) Broadcast() {
	if e := vsched.Cur(); e != nil {
		e.CondSignal(&c.ref, true)
		return
	}
	c.realCond().Broadcast()
}

// Map: every operation is one atomic step on the map (a scheduling point, and both an acquire and
// a release: what was written before a Store is visible after the Load that finds it).
type Map struct {
	m sync.Map
}

func (m *Map) op() { vsched.AtomicP(m) }

// RawRange visits the entries without being an operation of the model (harness use: copying a template).
func (m *Map) RawRange(f func(key, value interface{}) bool) { m.m.Range(f) }

// RawStore stores without being an operation of the model.
func (m *Map) RawStore(key, value interface{}) { m.m.Store(key, value) }

func (m *Map) Load(key interface{}) (interface{}, bool) { m.op(); return m.m.Load(key) }
func (m *Map) Store(key, value interface{})             { m.op(); m.m.Store(key, value) }
func (m *Map) LoadOrStore(key, value interface{}) (interface{}, bool) {
	m.op()
	return m.m.LoadOrStore(key, value)
}
func (m *Map) LoadAndDelete(key interface{}) (interface{}, bool) {
	m.op()
	return m.m.LoadAndDelete(key)
}
func (m *Map) Delete(key interface{})                          { m.op(); m.m.Delete(key) }
func (m *Map) Swap(key, value interface{}) (interface{}, bool) { m.op(); return m.m.Swap(key, value) }
func (m *Map) CompareAndSwap(key, old, new interface{}) bool {
	m.op()
	return m.m.CompareAndSwap(key, old, new)
}
func (m *Map) CompareAndDelete(key, old interface{}) bool {
	m.op()
	return m.m.CompareAndDelete(key, old)
}
func (m *Map) Range(f func(key, value interface{}) bool) {
	m.op()
	// a deterministic order: sync.Map ranges in an unspecified one
	type kv struct{ k, v interface{} }
	var all []kv
	m.m.Range(func(k, v interface{}) bool { all = append(all, kv{k, v}); return true })
	if vsched.Cur() != nil {
		sort.SliceStable(all, func(i, j int) bool { return fmt.Sprint(all[i].k) < fmt.Sprint(all[j].k) })
	}
	for _, e := range all {
		if !f(e.k, e.v) {
			return
		}
	}
}

// Pool: the real sync.Pool keeps per-P caches and is emptied by the garbage collector, which makes
// executions irreproducible. Under a controlled execution this one is a plain LIFO stack that starts
// empty in every execution (Put -> Get is a happens-before edge); detached it is the real pool.
type Pool struct {
	New   func() interface{}
	real  sync.Pool
	items []interface{}
	epoch uint64
	once  sync.Once
}

func (p *Pool) Get() interface{} {
	if e := vsched.Cur(); e != nil {
		vsched.AtomicP(p)
		if p.epoch != e.Epoch() {
			p.epoch, p.items = e.Epoch(), nil
		}
		if n := len(p.items); n > 0 {
			x := p.items[n-1]
			p.items = p.items[:n-1]
			return x
		}
		if p.New != nil {
			return p.New()
		}
		return nil
	}
	p.once.Do(func() { p.real.New = p.New })
	return p.real.Get()
}

func (p *Pool) Put(x interface{}) {
	if e := vsched.Cur(); e != nil {
		vsched.AtomicP(p)
		if p.epoch != e.Epoch() {
			p.epoch, p.items = e.Epoch(), nil
		}
		p.items = append(p.items, x)
		return
	}
	p.real.Put(x)
}

type Locker = sync.Locker
