//go:build go1.18

// Package vsync is the drop-in replacement for "sync" in the instrumented gengine build
// (import path github.com/bilibili/gengine/verifrt/vsync, supplied through the build overlay).
// With no controlled execution attached every method falls through to the real sync type.
package vsync

import (
	"sync"

	"github.com/bilibili/gengine/verifrt/vsched"
)

type Mutex struct {
	m   sync.Mutex
	ref vsched.ObjRef
}

func (m *Mutex) Lock() {
	if e := vsched.Cur(); e != nil {
		e.Lock(&m.ref)
		return
	}
	m.m.Lock()
}

func (m *Mutex) Unlock() {
	if e := vsched.Cur(); e != nil {
		e.Unlock(&m.ref)
		return
	}
	m.m.Unlock()
}

type RWMutex struct {
	m   sync.RWMutex
	ref vsched.ObjRef
}

func (m *RWMutex) Lock() {
	if e := vsched.Cur(); e != nil {
		e.LockRW(&m.ref)
		return
	}
	m.m.Lock()
}

func (m *RWMutex) Unlock() {
	if e := vsched.Cur(); e != nil {
		e.Unlock(&m.ref)
		return
	}
	m.m.Unlock()
}

func (m *RWMutex) RLock() {
	if e := vsched.Cur(); e != nil {
		e.RLock(&m.ref)
		return
	}
	m.m.RLock()
}

func (m *RWMutex) RUnlock() {
	if e := vsched.Cur(); e != nil {
		e.RUnlock(&m.ref)
		return
	}
	m.m.RUnlock()
}

type WaitGroup struct {
	w   sync.WaitGroup
	ref vsched.ObjRef
}

func (w *WaitGroup) Add(delta int) {
	if e := vsched.Cur(); e != nil {
		e.WGAdd(&w.ref, delta)
		return
	}
	w.w.Add(delta)
}

func (w *WaitGroup) Done() {
	if e := vsched.Cur(); e != nil {
		e.WGAdd(&w.ref, -1)
		return
	}
	w.w.Done()
}

func (w *WaitGroup) Wait() {
	if e := vsched.Cur(); e != nil {
		e.WGWait(&w.ref)
		return
	}
	w.w.Wait()
}

// Once: the real sync.Once would block a second caller on its internal mutex while the first one is
// parked inside f - invisible to the scheduler. This one is built from the shim Mutex.
type Once struct {
	m    Mutex
	done bool
}

func (o *Once) Do(f func()) {
	o.m.Lock()
	defer o.m.Unlock()
	if !o.done {
		defer func() { o.done = true }()
		f()
	}
}

// Cond: Wait releases L, parks until signalled (modelled), re-acquires L.
type Cond struct {
	L    Locker
	real *sync.Cond
	m    sync.Mutex
	ref  vsched.ObjRef
}

func NewCond(l Locker) *Cond { return &Cond{L: l} }

func (c *Cond) realCond() *sync.Cond {
	c.m.Lock()
	defer c.m.Unlock()
	if c.real == nil {
		c.real = sync.NewCond(c.L)
	}
	return c.real
}

func (c *Cond) Wait() {
	if e := vsched.Cur(); e != nil {
		e.CondWait(&c.ref, c.L.Unlock, c.L.Lock)
		return
	}
	c.realCond().Wait()
}

func (c *Cond) Signal() {
	if e := vsched.Cur(); e != nil {
		e.CondSignal(&c.ref, false)
		return
	}
	c.realCond().Signal()
}

func (c *Cond) Broadcast() {
	if e := vsched.Cur(); e != nil {
		e.CondSignal(&c.ref, true)
		return
	}
	c.realCond().Broadcast()
}

// Types the scheduler does not need to model are passed through unchanged.
type (
	Map    = sync.Map
	Pool   = sync.Pool
	Locker = sync.Locker
)
