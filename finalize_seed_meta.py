#!/usr/bin/env python3
"""Completes seeded/<ID>[-n]/meta.json from the seed tables of DESIGN.md (what it changes / needs /
caught by) and from the results seed_verify.sh recorded. Run after seed_verify.sh."""
import json, os, re, sys
rows = {}
for l in open('/verif/DESIGN.md'):
    m = re.match(r'\| (C\d\d(?:-\d)?) \|(.*)\|\s*$', l)
    if not m:
        continue
    cells = [c.strip() for c in m.group(2).split('|')]
    if len(cells) < 3 or cells[0].startswith('all '):
        continue
    rows[m.group(1)] = cells
for sid, cells in sorted(rows.items()):
    p = '/verif/seeded/%s/meta.json' % sid
    if not os.path.exists(p):
        continue
    meta = json.load(open(p))
    rnd = sid.split('-')[1] if '-' in sid else '1'
    root = {'1': '/tmp/seed', '2': '/tmp/seed2', '3': '/tmp/seed3'}.get(rnd, '/tmp/seed' + rnd)
    meta['breaks_property'] = sid[:3]
    meta['what_it_changes'] = cells[0].replace('`', '')
    meta['needs_to_manifest'] = cells[1].replace('`', '')
    meta['produced_by'] = ("fresh sub-agent given only the property text (and, from round 2 on, one line per idea already "
                           "used) and a scratch git worktree of /repo under %s; it never read /verif" % root)
    caught = [c['check'] for c in meta.get('checks_run', []) if c.get('rc') == 1 and c.get('violation_lines', 0) > 0]
    meta['caught_by'] = caught
    meta['caught_by_note'] = cells[2].replace('`', '')
    json.dump(meta, open(p, 'w'), indent=1)
    ok = meta.get('demo_rc_without_change') == 0 and meta.get('demo_rc_with_change') != 0 and 'stable_ok=77/77' in meta.get('repo_suite_with_change', '')
    print(sid, 'caught_by', caught, 'confirmed' if ok else 'NOT-CONFIRMED(demo/suite): %s %s %s' % (
        meta.get('demo_rc_without_change'), meta.get('demo_rc_with_change'), meta.get('repo_suite_with_change')))
