#!/usr/bin/env python3
"""Regenerates MANIFEST.json from the table below (kept in one place so it always validates)."""
import json, sys
ALL = ["C%02d" % i for i in range(1, 21)]
# id -> (technique, level text, level note, design ref)
CLAIMED = {
 "C13": ("stateless DFS over goroutine interleavings of the real ExecuteDAGModel under a controlled scheduler (preemption-bounded, HB-fingerprint pruning); barrier/exactly-once oracle on the global event log",
         "Every schedule (quick: <=2 preemptions; thorough: unbounded, closed by trace pruning) of every small DAG layering x failing subset x fresh/used engine is executed on the real code and judged by a barrier / exactly-once / stop-after-failure oracle; a missing barrier shows up as an execution with the opposite event order.",
         "Trusted: the instrumenter's sync->shim and go->vsched.Go rewrites cover all of gengine's synchronisation (sync.Mutex/RWMutex/WaitGroup + go statements only); sequentially consistent memory; bounds: <=4 rules, <=3 layers, width<=3(4 thorough).",
         "DESIGN.md §2 C13"),
 "C04": ("bounded-exhaustive enumeration of rule sets x failing subsets x policy x arrival histories, each executed on the real engine under the scheduler (single deterministic schedule) against a staged reference plan",
         "All rule sets up to 4 (thorough 5) rules over a salience alphabet with ties/negatives/absent, every failing subset, both policies, three sorted entry points, every incremental insertion order and salience change; each is run on the real engine and compared with the reference plan (order, exactly-once, stop/continue, error iff failure, effect counters).",
         "Sequential model: no interleaving involved. Trusted: reference plan in /verif/harness/ref/model.go; observer rules (ev/boom) as rule bodies. Bounds: <=5 rules, saliences from {-1,0,2,absent}.",
         "DESIGN.md §2 C04"),
 "C05": ("stateless DFS over all goroutine interleavings (preemption bound 2 quick / 3 thorough, HB-fingerprint pruning) of the real mix / inverse-mix / N-M model functions; staged barrier oracle on the global event log",
         "Every schedule within the bound of ~1.8k (thorough ~9k) configurations (model x size x salience pattern x failing subset x N,M x policy) is run on the real code; the oracle demands the stage barrier, exactly-once, sorted-stage order, stop/continue policy, window membership and error-iff-failure, accepting any order among equal saliences.",
         "Trusted: instrumenter rewrites cover all synchronisation; sequentially consistent memory; bounds: <=5 rules, N,M<=2, <=2 failing rules, preemption bound 2/3.",
         "DESIGN.md §2 C05"),
 "C12": ("bounded-exhaustive enumeration of all name lists (length 0-4 over 4 rules + unknown, all permutations) x 11 selected variants x policy x N,M; concurrent variants explored over all schedules with <=1 (thorough 2) preemptions; staged reference plan",
         "Every selected variant is run on the real engine for every name list, and judged against the reference plan built from exactly the named existing rules (sorted vs as-given order, unknown names skipped, must-fail-without-running cases).",
         "Name lists without repeats; ties straddling a selected N-M window boundary are not judged (left open by the statement). Bounds: 4 rules, lists <=4.",
         "DESIGN.md §2 C12"),
 "C14": ("bounded-exhaustive enumeration of setter position x failing subsets x policy for the 4 stop-tag variants; mix variant under all schedules with <=2 (thorough 3) preemptions; reference plan with tag semantics + differential run of the tag-free twin",
         "Every position of the tag-setting rule (or none), every failing subset <=2, both policies, 1-4 rules, three salience patterns; when the tag is never set the tag-free twin is run on the same input and must agree.",
         "Bounds: <=4 rules; pool wrappers of the stop-tag variants are exercised by the pool checks.",
         "DESIGN.md §2 C14"),
 "C01": ("bounded-exhaustive enumeration of expression TEXTS (all operator strings k<=2/3 x all bracketings x ! placements; every operator x ordered operand pair from a 79-entry kind/boundary alphabet; metadata constants) executed on the real engine against an independent precedence-climbing reference evaluator",
         "Every expression text of the bounded grammar is compiled and evaluated by the real engine and compared (dynamic Go type, value bit-for-bit, error nil-ness, no entry on failure, no panic) with a reference parser/evaluator written from the property statement; ~85k programs quick, ~1.06M thorough, all enumerated.",
         "Trusted: harness/ref/expr.go (self-tested on 79 golden cases each run). Not judged: short-circuit evaluation, @id for names with blanks / beyond int64. Bounds: <=3 binary operators, value alphabet of 79 atoms.",
         "DESIGN.md §2 C01"),
 "C03": ("bounded-exhaustive enumeration of access path x target kind x source x boundary value x {read,=,+=} and of call shapes, each executed on the real engine with fresh host objects and compared location-by-location with Go's own conversion rules",
         "The full product of 48 access paths, 14 target kinds, literal/local/injected sources and boundary values (19k judged + 24k recorded-only programs quick; 53k + 80k thorough) runs on the real engine; the oracle deep-compares ~150 host locations before/after and the callee logs.",
         "Judged only what the statement covers (within-class width conversion everywhere, cross-class for struct fields and pointer scalars, representable values); the rest is executed and only checked for escaping panics. Trusted: harness/ref/data.go (self-tested against math/big).",
         "DESIGN.md §2 C03"),
 "C06": ("stateless DFS over all interleavings (preemption bound 2/3 sequential-model methods, 1/2 goroutine-spawning methods, HB-fingerprint pruning) of 2-3 client threads issuing requests to a real GenginePool(1,2), incl. the busy-wait loop and asynchronous put goroutines; deterministic probe phase on every instance",
         "Every schedule within the bound of overlapping and instance-reusing requests through 8 representative execute methods, plus all 24 methods x execution models in smaller scenarios; observers inside the rules check that each request sees only its own ids/keys; handed-back maps are compared again at the end; probes that inject nothing must find nothing on each instance.",
         "A pristine compiled pool is deep-cloned per execution (HX_FRESHPOOL=1 constructs instead, as self-test). Sequentially consistent memory (racy accesses are C19's subject). Bounds: pool (1,2) [(2,3) thorough], <=4 requests.",
         "DESIGN.md §2 C06"),
 "C09": ("bounded-exhaustive fault grammar (83 statement faults + 9 return faults x nesting x position) x every engine model x two calls, default schedule under the controlled scheduler with modelled deadlock / step horizon; representatives under all schedules with <=1/2 preemptions; pool methods x execution models",
         "Each faulty rule set is run in every execution model on the real code under the scheduler, which turns a panic on a gengine goroutine, a deadlock or an endless loop into a deterministic verdict; the oracle also demands the reference plan for the healthy rules and an identical second call.",
         "Injected functions terminate; one level of unbounded loop. Default schedule for the sweep (the subject is sequential fault handling), preemption-bounded exploration for representatives.",
         "DESIGN.md §2 C09"),
 "C10": ("bounded-exhaustive text enumeration (all byte strings <=3 over 11 bytes, all token strings <=3/4 over 14 tokens, single-token edit neighbourhood of seed texts over a 36-token alphabet, duplicate-name texts) x 5 compile entry points x prior states, differential and state-snapshot oracle on the real builder/pool",
         "15k texts quick (139k submissions), ~120k thorough: every entry point must return normally, agree on accept/reject, leave the concrete previous state (Kc snapshot incl. object identity; pool queries + executions) untouched on reject and equal the reference replace/merge on accept.",
         "Same-language is judged as agreement between entry points (no grammar re-implementation). Pairs of edits are time-capped in thorough (reported).",
         "DESIGN.md §2 C10"),
 "C11": ("bounded-exhaustive enumeration of all 1728 triples over 12 return behaviours x all engine models x two-call histories, concurrent models under all schedules with <=1 preemption, pool methods with two sequential requests; reference = set of rules that returned in THIS call",
         "Each case runs on the real engine under the scheduler; the result map must equal exactly the reference map (values, pointer identity), errors iff failures, and the first call's map must not change in the second call.",
         "Strict saliences so the executed set is schedule independent. Quick samples every third single-call case (thorough: all).",
         "DESIGN.md §2 C11"),
 "C15": ("stateless DFS over interleavings (<=2/3 preemptions for 2 rules, <=1/2 for 3 rules) of all rule sets over {write-local, read-unassigned, read-before-write} x all engine models x two calls, plus overlapping pool requests with request-unique values",
         "A leaked local would let an R/RW rule obtain a value or a W rule read back a foreign value in some schedule; all schedules within the bound are executed on the real code.",
         "Each rule updates its own field of the shared injected object. Sequentially consistent memory.",
         "DESIGN.md §2 C15"),
 "C17": ("stateless DFS over all interleavings (preemption bound 2/3, HB-fingerprint pruning, fair yield in the busy-wait loop) of M+1 clients / M clients x 2 requests against a real GenginePool incl. asynchronous put goroutines and faulting requests; deterministic conservation phase (max requests held inside a rule)",
         "Every schedule within the bound is executed; in-flight rule bodies are counted from the global log, every request must return with only its own failure, and after quiescence max requests must get inside a rule simultaneously (a lost instance shows as a modelled hang).",
         "Waiting is modelled: the retry loop yields fairly, a hang is a scheduler verdict (deadlock/livelock/step horizon), never a timeout. Pool deep-cloned from a compiled template per execution.",
         "DESIGN.md §2 C17"),
 "C18": ("stateless DFS over all interleavings (<=2/3 preemptions for 1-2 children, <=1/2 for 3 children) of the goroutines of every conc block with 1-3 children over 11 statement kinds, incl. re-entered blocks and two concurrent rules",
         "Each schedule runs the real ConcStatement; oracle: each child once, all ends before the next statement, next statement sees every assignment, failure => error after all children, nothing runs after the call returned.",
         "Sequentially consistent memory (the local store's locking is checked by C19).",
         "DESIGN.md §2 C18"),
 "C20": ("bounded-exhaustive enumeration of fault class x enclosing statement x layout (rule position, blank/comment lines, tokens spread over lines, LF/CRLF) with generator-tracked line bookkeeping; each text compiled and the faulty rule executed on the real engine",
         "17k texts quick / 59k thorough: every cited `line N` must be the start line of a failing construct on the path, listed fault classes must cite one, `line 0` is never accepted.",
         "Columns and wording not judged. Self-test cross-checks the generator's line bookkeeping by an independent newline count.",
         "DESIGN.md §2 C20"),
}
NA_REASON = "check not built yet in this round (design in DESIGN.md §2); will be claimed once its check passes on the pinned tree"
def main():
    checks = []
    for pid in ALL:
        if pid not in CLAIMED: continue
        tech, text, note, ref = CLAIMED[pid]
        checks.append({
            "property_id": pid,
            "quick_cmd": "./check %s quick" % pid,
            "thorough_cmd": "./check %s thorough" % pid,
            "evidence_file": "/verif/evidence/%s.json" % pid,
            "replay_cmd_template": "./check %s --replay {path}" % pid,
            "engine": "vsched-explorer",
            "level_claimed": {"category": "model_checking", "text": text, "design_ref": ref},
            "level_note": note,
            "technique": tech,
        })
    m = {
        "version": 1,
        "setup_cmd": "./setup.sh",
        "hooks": {
            "guard": "verif",
            "enable": "no hooks live in /repo: ./build.sh runs /verif/instr over /repo's current working tree and builds with `go build -overlay` (sync -> scheduler shim, go -> vsched.Go, map range -> ordered, shared-memory access hooks); the guard name is reserved but unused in source",
            "baseline_off_cmd": "/verif/run_baseline.sh",
            "source_commits": [],
            "add_only": True,
        },
        "engines": [
            {"name": "vsched-explorer", "path": "/verif/rt/vsched + /verif/harness/hx", "serves_properties": sorted(CLAIMED),
             "kind_free_text": "hand-written controlled scheduler + stateless deviation-bounded DFS with happens-before fingerprint pruning and a vector-clock race monitor, running the real gengine code rewritten at check time by /verif/instr (build overlay)"},
        ],
        "checks": checks,
        "not_applicable": [{"property_id": p, "reason": NA_REASON} for p in ALL if p not in CLAIMED],
        "notes": "All checks explore the real implementation; exit 2 = internal error (never a verdict). known_findings.txt lists recorded defects and fixed: entries.",
    }
    json.dump(m, open("/verif/MANIFEST.json", "w"), indent=1)
    print("claimed", len(checks), "n/a", len(m["not_applicable"]))
main()
