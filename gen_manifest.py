#!/usr/bin/env python3
"""Regenerates MANIFEST.json from the table below (kept in one place so it always validates)."""
import json, sys
ALL = ["C%02d" % i for i in range(1, 21)]
# id -> (technique, level text, level note, design ref)
CLAIMED = {
 "C13": ("stateless DFS over goroutine interleavings of the real ExecuteDAGModel under a controlled scheduler (preemption-bounded, HB-fingerprint pruning); barrier/exactly-once oracle on the global event log",
         "Every schedule (quick: <=2 preemptions; thorough: unbounded, closed by trace pruning) of every small DAG layering x failing subset x fresh/used engine is executed on the real code and judged by a barrier / exactly-once / stop-after-failure oracle; a missing barrier shows up as an execution with the opposite event order.",
         "Trusted: the instrumenter's sync->shim and go->vsched.Go rewrites cover all of gengine's synchronisation (sync.Mutex/RWMutex/WaitGroup + go statements only); sequentially consistent memory; bounds: <=4 rules, <=3 layers, width<=3(4 thorough).",
         "DESIGN.md §2 C13"),
 "C04": ("bounded-exhaustive enumeration of rule sets x failing subsets x policy x arrival histories, each executed on the real engine under the scheduler (single deterministic schedule) against a staged reference plan",
         "All rule sets up to 4 (thorough 5) rules over a salience alphabet with ties/negatives/absent, every failing subset, both policies, three sorted entry points, every incremental insertion order and salience change; each is run on the real engine and compared with the reference plan (order, exactly-once, stop/continue, error iff failure, effect counters).",
         "Sequential model: no interleaving involved. Trusted: reference plan in /verif/harness/ref/model.go; observer rules (ev/boom) as rule bodies. Bounds: <=5 rules, saliences from {-1,0,2,absent}.",
         "DESIGN.md §2 C04"),
 "C05": ("stateless DFS over all goroutine interleavings (preemption bound 2 quick / 3 thorough, HB-fingerprint pruning) of the real mix / inverse-mix / N-M model functions; staged barrier oracle on the global event log",
         "Every schedule within the bound of ~1.8k (thorough ~9k) configurations (model x size x salience pattern x failing subset x N,M x policy) is run on the real code; the oracle demands the stage barrier, exactly-once, sorted-stage order, stop/continue policy, window membership and error-iff-failure, accepting any order among equal saliences.",
         "Trusted: instrumenter rewrites cover all synchronisation; sequentially consistent memory; bounds: <=5 rules, N,M<=2, <=2 failing rules, preemption bound 2/3.",
         "DESIGN.md §2 C05"),
 "C12": ("bounded-exhaustive enumeration of all name lists (length 0-4 over 4 rules + unknown, all permutations) x 11 selected variants x policy x N,M; concurrent variants explored over all schedules with <=1 (thorough 2) preemptions; staged reference plan",
         "Every selected variant is run on the real engine for every name list, and judged against the reference plan built from exactly the named existing rules (sorted vs as-given order, unknown names skipped, must-fail-without-running cases).",
         "Name lists without repeats; ties straddling a selected N-M window boundary are not judged (left open by the statement). Bounds: 4 rules, lists <=4.",
         "DESIGN.md §2 C12"),
 "C14": ("bounded-exhaustive enumeration of setter position x failing subsets x policy for the 4 stop-tag variants; mix variant under all schedules with <=2 (thorough 3) preemptions; reference plan with tag semantics + differential run of the tag-free twin",
         "Every position of the tag-setting rule (or none), every failing subset <=2, both policies, 1-4 rules, three salience patterns; when the tag is never set the tag-free twin is run on the same input and must agree.",
         "Bounds: <=4 rules; pool wrappers of the stop-tag variants are exercised by the pool checks.",
         "DESIGN.md §2 C14"),
}
NA_REASON = "check not built yet in this round (design in DESIGN.md §2); will be claimed once its check passes on the pinned tree"
def main():
    checks = []
    for pid in ALL:
        if pid not in CLAIMED: continue
        tech, text, note, ref = CLAIMED[pid]
        checks.append({
            "property_id": pid,
            "quick_cmd": "./check %s quick" % pid,
            "thorough_cmd": "./check %s thorough" % pid,
            "evidence_file": "/verif/evidence/%s.json" % pid,
            "replay_cmd_template": "./check %s --replay {path}" % pid,
            "engine": "vsched-explorer",
            "level_claimed": {"category": "model_checking", "text": text, "design_ref": ref},
            "level_note": note,
            "technique": tech,
        })
    m = {
        "version": 1,
        "setup_cmd": "./setup.sh",
        "hooks": {
            "guard": "verif",
            "enable": "no hooks live in /repo: ./build.sh runs /verif/instr over /repo's current working tree and builds with `go build -overlay` (sync -> scheduler shim, go -> vsched.Go, map range -> ordered, shared-memory access hooks); the guard name is reserved but unused in source",
            "baseline_off_cmd": "/verif/run_baseline.sh",
            "source_commits": [],
            "add_only": True,
        },
        "engines": [
            {"name": "vsched-explorer", "path": "/verif/rt/vsched + /verif/harness/hx", "serves_properties": sorted(CLAIMED),
             "kind_free_text": "hand-written controlled scheduler + stateless deviation-bounded DFS with happens-before fingerprint pruning and a vector-clock race monitor, running the real gengine code rewritten at check time by /verif/instr (build overlay)"},
        ],
        "checks": checks,
        "not_applicable": [{"property_id": p, "reason": NA_REASON} for p in ALL if p not in CLAIMED],
        "notes": "All checks explore the real implementation; exit 2 = internal error (never a verdict). known_findings.txt lists recorded defects and fixed: entries.",
    }
    json.dump(m, open("/verif/MANIFEST.json", "w"), indent=1)
    print("claimed", len(checks), "n/a", len(m["not_applicable"]))
main()
