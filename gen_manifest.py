#!/usr/bin/env python3
"""Regenerates MANIFEST.json from the table below (kept in one place so it always validates)."""
import json, sys
ALL = ["C%02d" % i for i in range(1, 21)]
# id -> (technique, level text, level note, design ref)
CLAIMED = {
 "C13": ("stateless DFS over goroutine interleavings of the real ExecuteDAGModel under a controlled scheduler (preemption-bounded, HB-fingerprint pruning); barrier/exactly-once oracle on the global event log",
         "Every schedule (quick: <=2 preemptions; thorough: unbounded, closed by trace pruning) of every small DAG layering x failing subset x fresh/used engine is executed on the real code and judged by a barrier / exactly-once / stop-after-failure oracle; a missing barrier shows up as an execution with the opposite event order.",
         "Trusted: the instrumenter's sync->shim and go->vsched.Go rewrites cover all of gengine's synchronisation (sync.Mutex/RWMutex/WaitGroup + go statements only); sequentially consistent memory; bounds: <=4 rules, <=3 layers, width<=3(4 thorough).",
         "DESIGN.md §2 C13"),
}
NA_REASON = "check not built yet in this round (design in DESIGN.md §2); will be claimed once its check passes on the pinned tree"
def main():
    checks = []
    for pid in ALL:
        if pid not in CLAIMED: continue
        tech, text, note, ref = CLAIMED[pid]
        checks.append({
            "property_id": pid,
            "quick_cmd": "./check %s quick" % pid,
            "thorough_cmd": "./check %s thorough" % pid,
            "evidence_file": "/verif/evidence/%s.json" % pid,
            "replay_cmd_template": "./check %s --replay {path}" % pid,
            "engine": "vsched-explorer",
            "level_claimed": {"category": "model_checking", "text": text, "design_ref": ref},
            "level_note": note,
            "technique": tech,
        })
    m = {
        "version": 1,
        "setup_cmd": "./setup.sh",
        "hooks": {
            "guard": "verif",
            "enable": "no hooks live in /repo: ./build.sh runs /verif/instr over /repo's current working tree and builds with `go build -overlay` (sync -> scheduler shim, go -> vsched.Go, map range -> ordered, shared-memory access hooks); the guard name is reserved but unused in source",
            "baseline_off_cmd": "/verif/run_baseline.sh",
            "source_commits": [],
            "add_only": True,
        },
        "engines": [
            {"name": "vsched-explorer", "path": "/verif/rt/vsched + /verif/harness/hx", "serves_properties": sorted(CLAIMED),
             "kind_free_text": "hand-written controlled scheduler + stateless deviation-bounded DFS with happens-before fingerprint pruning and a vector-clock race monitor, running the real gengine code rewritten at check time by /verif/instr (build overlay)"},
        ],
        "checks": checks,
        "not_applicable": [{"property_id": p, "reason": NA_REASON} for p in ALL if p not in CLAIMED],
        "notes": "All checks explore the real implementation; exit 2 = internal error (never a verdict). known_findings.txt lists recorded defects and fixed: entries.",
    }
    json.dump(m, open("/verif/MANIFEST.json", "w"), indent=1)
    print("claimed", len(checks), "n/a", len(m["not_applicable"]))
main()
