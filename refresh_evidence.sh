#!/bin/bash
# Re-runs every quick check on the current (clean) /repo tree so that the committed evidence files
# describe exactly what `quick_cmd` does from a fresh restore; validates them against the schema.
cd /verif
git -C /repo diff --quiet || { echo "/repo working tree is not clean"; exit 2; }
rc=0
for i in $(seq -w 1 20); do
  out=$(VERIF_SEED=1 VERIF_TIER=quick ./check C$i quick 2>&1); r=$?
  echo "$out" | grep -E "^(VIOLATION|KNOWN|C[0-9]+ quick|  cap|INTERNAL)" | cut -c1-200
  [ $r -ne 0 ] && rc=1
done
python3-vt - <<'PY'
import json,jsonschema,glob
sch=json.load(open('/root/.vp/EVIDENCE.schema.json'))
for f in sorted(glob.glob('/verif/evidence/C*.json')):
    e=json.load(open(f)); jsonschema.validate(e,sch)
    assert e['tier']=='quick' and e['violations']==0, f
jsonschema.validate(json.load(open('/verif/MANIFEST.json')), json.load(open('/root/.vp/MANIFEST.schema.json')))
print('evidence + manifest valid')
PY
exit $rc
