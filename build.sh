#!/bin/bash
# Builds (or reuses) the worker binary for the current /repo tree + /verif sources; prints its path.
# usage: build.sh [race]
set -u
cd "$(dirname "$(readlink -f "$0")")" || exit 2
VERIF_DIR=$(pwd); export VERIF_DIR
export GOFLAGS=-mod=mod GOPROXY=off GOSUMDB=off GOTOOLCHAIN=local
MODE="${1:-plain}"
mkdir -p .work/bin
H=$( { (cd /repo && find . -name '*.go' -not -path './test/*' -not -path './.git/*' -print0 | sort -z | xargs -0 sha1sum; cat go.mod go.sum); find rt instr harness -name '*.go' -print0 | sort -z | xargs -0 sha1sum; cat go.mod; } | sha1sum | cut -c1-16)
BIN=$VERIF_DIR/.work/bin/vcheck-$MODE-$H
if [ ! -x "$BIN" ]; then
  cp /repo/go.sum $VERIF_DIR/go.sum 2>/dev/null
  TMP=$(mktemp -d "${TMPDIR:-/tmp}/verif-instr-XXXXXX") || exit 2
  trap 'rm -rf "$TMP"' EXIT
  go build -o "$TMP/instr" ./instr >&2 || exit 2
  "$TMP/instr" -repo /repo -rt "$VERIF_DIR/rt" -out "$TMP/o" >&2 || exit 2
  FLAGS=()
  [ "$MODE" = race ] && FLAGS+=(-race)
  go build "${FLAGS[@]}" -overlay "$TMP/o/overlay.json" -o "$TMP/vcheck" ./harness/vcheck >&2 || exit 2
  mv "$TMP/vcheck" "$BIN"
  # keep only the six most recent binaries
  ls -t $VERIF_DIR/.work/bin/vcheck-* 2>/dev/null | tail -n +7 | xargs -r rm -f
fi
echo "$BIN"
