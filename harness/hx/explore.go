// Package hx is the shared harness library: stateless DFS explorer over the controlled scheduler,
// result merging, evidence / replay / known-findings plumbing.
package hx

import (
	"encoding/json"
	"fmt"
	"hash/fnv"
	"os"
	"runtime"
	"sort"
	"time"

	"github.com/bilibili/gengine/verifrt/vsched"
)

// Finding is one complaint of an oracle about one execution / case.
type Finding struct {
	Sig string // stable signature (used for known-findings matching)
	Msg string
}

// Scenario is a closed system explored under the scheduler.
type Scenario struct {
	Name    string
	Cfg     interface{} // JSON-serialisable parameters from which the scenario can be rebuilt
	Opts    vsched.Options
	New     func() interface{}
	Body    func(st interface{})
	Check   func(st interface{}, ex *vsched.Exec) []Finding
	Outcome func(st interface{}) string // optional: canonical observed outcome (counted)
}

// ExploreCfg bounds one exploration.
type ExploreCfg struct {
	Bound    int  // max deviations (preemptions + non-default environment answers); <0 = unbounded
	MaxExecs int  // cap on executions (0 = none)
	Prune    bool // happens-before fingerprint pruning
	Shard    int
	NShards  int
	Deadline time.Time
	Races    bool // collect monitor races as findings through RaceFinding
	// Delay: delay bounding instead of preemption bounding - EVERY departure from the default
	// scheduler (continue the running thread; when it blocks or ends, the enabled thread with the
	// lowest creation index) costs one deviation, also at points where the running thread cannot
	// continue. The bounded space is polynomial in the number of points instead of factorial in the
	// number of short-lived threads.
	Delay bool
	// DefaultOnly: run just the default schedule (plus the determinism self-test) - for sweeps whose
	// subject is a sequential behaviour that happens to run through goroutine-spawning code
	DefaultOnly bool
	// AutoSites: iterate exploration, turning every racy access site into a scheduling point, until
	// no new racy site appears (requires Opts.Monitor).
	AutoSites bool
	// NoAutoSites switches off the default (AutoSites for every exploration with a bound != 0)
	NoAutoSites bool
}

// Violation is a finding with everything needed to replay it.
type Violation struct {
	Property string          `json:"property"`
	Scenario string          `json:"scenario"`
	Cfg      json.RawMessage `json:"cfg"`
	Choices  []int32         `json:"choices"`
	Sites    []int32         `json:"sites,omitempty"`
	Sig      string          `json:"sig"`
	Msg      string          `json:"msg"`
	Trace    []string        `json:"trace,omitempty"`
	Known    bool            `json:"known,omitempty"`
}

// Result accumulates what a worker covered.
type Result struct {
	Configs     int            `json:"configs"`
	Execs       int            `json:"execs"`
	Steps       int            `json:"steps"`
	States      int            `json:"states"` // distinct trace fingerprints at choice points (per scenario, summed)
	Outcomes    int            `json:"outcomes"`
	MaxPoints   int            `json:"max_points"`
	MaxThreads  int            `json:"max_threads"`
	Pruned      int            `json:"pruned"`
	Capped      []string       `json:"capped,omitempty"`
	Violations  []Violation    `json:"violations,omitempty"`
	NViolations int            `json:"n_violations"`
	SigCounts   map[string]int `json:"sig_counts,omitempty"`
	Samples     []interface{}  `json:"samples,omitempty"`
	BoundDone   int            `json:"bound_done"`
	Extra       map[string]int `json:"extra,omitempty"`
	RacySites   []string       `json:"racy_sites,omitempty"`
}

func (r *Result) AddExtra(k string, n int) {
	if r.Extra == nil {
		r.Extra = map[string]int{}
	}
	r.Extra[k] += n
}

// Merge folds another worker's result into r.
func (r *Result) Merge(o *Result) {
	r.Configs += o.Configs
	r.Execs += o.Execs
	r.Steps += o.Steps
	r.States += o.States
	r.Outcomes += o.Outcomes
	r.Pruned += o.Pruned
	if o.MaxPoints > r.MaxPoints {
		r.MaxPoints = o.MaxPoints
	}
	if o.MaxThreads > r.MaxThreads {
		r.MaxThreads = o.MaxThreads
	}
	r.Capped = append(r.Capped, o.Capped...)
	r.NViolations += o.NViolations
	for _, v := range o.Violations {
		r.addViolation(v)
	}
	for k, n := range o.SigCounts {
		if r.SigCounts == nil {
			r.SigCounts = map[string]int{}
		}
		r.SigCounts[k] += n
	}
	for _, s := range o.Samples {
		if len(r.Samples) < 6 {
			r.Samples = append(r.Samples, s)
		}
	}
	for k, n := range o.Extra {
		r.AddExtra(k, n)
	}
	seen := map[string]bool{}
	for _, s := range r.RacySites {
		seen[s] = true
	}
	for _, s := range o.RacySites {
		if !seen[s] {
			r.RacySites = append(r.RacySites, s)
			seen[s] = true
		}
	}
	sort.Strings(r.RacySites)
}

func (r *Result) addViolation(v Violation) {
	// keep one replayable violation per signature (the first = fewest deviations), at most 40
	for _, x := range r.Violations {
		if x.Sig == v.Sig {
			return
		}
	}
	if len(r.Violations) < 40 {
		r.Violations = append(r.Violations, v)
	}
}

// Report records findings of one case (sequential enumerations use this directly).
func (r *Result) Report(prop, scen string, cfg interface{}, choices []int32, fs []Finding) {
	if len(fs) == 0 {
		return
	}
	raw, _ := json.Marshal(cfg)
	for _, f := range fs {
		r.NViolations++
		if r.SigCounts == nil {
			r.SigCounts = map[string]int{}
		}
		r.SigCounts[f.Sig]++
		r.addViolation(Violation{Property: prop, Scenario: scen, Cfg: raw, Choices: choices, Sig: f.Sig, Msg: f.Msg})
	}
}

func (r *Result) Sample(s interface{}) {
	if len(r.Samples) < 3 {
		r.Samples = append(r.Samples, s)
	}
}

type item struct {
	prefix []int32
}

// SiteKey renders an access site in a line-number independent way.
func SiteKey(s int32) string {
	if s == vsched.SiteClientRead {
		return "harness:client:reads the result map its call returned:R"
	}
	if int(s) >= len(vsched.SiteTable) || s < 0 {
		return fmt.Sprintf("site#%d", s)
	}
	si := vsched.SiteTable[s]
	rw := "R"
	if si.Write {
		rw = "W"
	}
	return fmt.Sprintf("%s:%s:%s:%s", si.File, si.Func, si.Expr, rw)
}

// SiteLoc renders file:line of a site (for messages).
func SiteLoc(s int32) string {
	if s == vsched.SiteClientRead {
		return "the caller of the pool method"
	}
	if int(s) >= len(vsched.SiteTable) || s < 0 {
		return fmt.Sprintf("site#%d", s)
	}
	si := vsched.SiteTable[s]
	return fmt.Sprintf("%s:%d", si.File, si.Line)
}

// RaceFinding turns a monitor race into a finding with a stable signature.
func RaceFinding(rc vsched.Race) Finding {
	a, b := SiteKey(rc.SiteA), SiteKey(rc.SiteB)
	if a > b {
		a, b = b, a
	}
	return Finding{
		Sig: "race " + a + " || " + b,
		Msg: fmt.Sprintf("happens-before race between %s (%s) and %s (%s)", SiteKey(rc.SiteA), SiteLoc(rc.SiteA), SiteKey(rc.SiteB), SiteLoc(rc.SiteB)),
	}
}

// Explore enumerates the executions of sc within cfg and folds coverage and violations into res.
func Explore(prop string, sc *Scenario, cfg ExploreCfg, res *Result) {
	if cfg.Shard == 0 {
		res.Configs++
	}
	if cfg.NShards == 0 {
		cfg.NShards = 1
	}
	if os.Getenv("HX_NOPRUNE") != "" {
		cfg.Prune = false // self-test: outcome counts must not depend on pruning
	}
	// Scheduling points at synchronisation operations cover every behaviour only of executions
	// without data races. Every real schedule exploration therefore runs the race monitor as well and,
	// if it sees conflicting unordered accesses, explores again with those access sites as scheduling
	// points (the races as such are reported by C19 only).
	if !cfg.DefaultOnly && cfg.Bound != 0 && !cfg.NoAutoSites && os.Getenv("HX_NOAUTOSITES") == "" {
		cfg.AutoSites = true
	}
	sites := map[int32]bool{}
	for k := range sc.Opts.Sites {
		sites[k] = true
	}
	for round := 0; ; round++ {
		newSites := exploreOnce(prop, sc, cfg, res, sites)
		if !cfg.AutoSites || len(newSites) == 0 || round >= 6 {
			if cfg.AutoSites && len(newSites) > 0 {
				res.Capped = append(res.Capped, sc.Name+": racy-site fix-point not reached after 7 rounds")
			}
			break
		}
		for _, s := range newSites {
			sites[s] = true
		}
	}
	if cfg.AutoSites {
		for s := range sites {
			res.RacySites = append(res.RacySites, SiteKey(s))
		}
		sort.Strings(res.RacySites)
		res.RacySites = uniq(res.RacySites)
	}
}

func uniq(s []string) []string {
	var out []string
	for i, x := range s {
		if i == 0 || x != s[i-1] {
			out = append(out, x)
		}
	}
	return out
}

type seenKey struct {
	fp      uint64
	running uint64
}

func exploreOnce(prop string, sc *Scenario, cfg ExploreCfg, res *Result, sites map[int32]bool) (newSites []int32) {
	opts := sc.Opts
	if cfg.AutoSites {
		opts.Monitor = true
		opts.AccessPoints = true
	}
	if cfg.Races {
		opts.Monitor = true
	}
	if opts.AccessPoints {
		opts.Sites = map[int32]bool{}
		for k := range sites {
			opts.Sites[k] = true
		}
	}
	raw, _ := json.Marshal(sc.Cfg)
	seen := map[seenKey]int{}
	states := map[uint64]bool{}
	outcomes := map[string]bool{}
	newSiteSet := map[int32]bool{}
	stack := []item{{nil}}
	execs := 0
	l1 := 0
	verified := map[string]bool{}
	complete := true
	var siteList []int32
	for k := range opts.Sites {
		siteList = append(siteList, k)
	}
	sort.Slice(siteList, func(i, j int) bool { return siteList[i] < siteList[j] })

	runOne := func(prefix []int32) (interface{}, *vsched.Exec) {
		st := sc.New()
		ex := vsched.Run(opts, prefix, func() { sc.Body(st) })
		return st, ex
	}

	// determinism self-test: the default schedule twice
	{
		o := opts
		o.Trace = true
		st1 := sc.New()
		e1 := vsched.Run(o, nil, func() { sc.Body(st1) })
		st2 := sc.New()
		e2 := vsched.Run(o, nil, func() { sc.Body(st2) })
		if fmt.Sprint(e1.TraceLog) != fmt.Sprint(e2.TraceLog) || e1.Verdict != e2.Verdict {
			// The same schedule gave two different executions: the code under test carries state from
			// one execution to the next (or consults something the scheduler does not own). If an
			// oracle objects to either execution that is a violation observed on the real code and is
			// reported as such; otherwise it is an internal error, never a verdict.
			fs := append(sc.Check(st1, e1), sc.Check(st2, e2)...)
			if len(fs) == 0 {
				// nothing to report about these two executions, and nothing further can be explored
				// soundly (prefix replay needs determinism): the scenario is skipped and the evidence says so
				res.Capped = append(res.Capped, fmt.Sprintf("%s: skipped - the default schedule run twice gave two different executions (the code under test keeps state between executions); no oracle objected to either", sc.Name))
				fmt.Fprintf(os.Stderr, "NONDETERMINISM scenario %s cfg=%s\n", sc.Name, raw)
				return nil
			}
			seenSig := map[string]bool{}
			for _, f := range fs {
				if seenSig[f.Sig] {
					continue
				}
				seenSig[f.Sig] = true
				res.NViolations++
				if res.SigCounts == nil {
					res.SigCounts = map[string]int{}
				}
				res.SigCounts[f.Sig]++
				res.addViolation(Violation{Property: prop, Scenario: sc.Name, Cfg: raw, Sig: f.Sig,
					Msg: f.Msg + "\n  (the default schedule run twice gave two different executions: state survives from one execution to the next)"})
			}
			return nil
		}
		if sc.Outcome != nil && e1.Verdict == "" && sc.Outcome(st1) != sc.Outcome(st2) {
			vsched.InternalError("scenario %s: same schedule, different outcome:\n%s\n%s", sc.Name, sc.Outcome(st1), sc.Outcome(st2))
		}
	}

	for len(stack) > 0 {
		it := stack[len(stack)-1]
		stack = stack[:len(stack)-1]
		if cfg.MaxExecs > 0 && execs >= cfg.MaxExecs {
			complete = false
			res.Capped = append(res.Capped, fmt.Sprintf("%s: execution cap %d", sc.Name, cfg.MaxExecs))
			break
		}
		if !cfg.Deadline.IsZero() && execs%64 == 0 && time.Now().After(cfg.Deadline) {
			complete = false
			res.Capped = append(res.Capped, fmt.Sprintf("%s: time budget", sc.Name))
			break
		}
		st, ex := runOne(it.prefix)
		execs++
		if execs%128 == 0 {
			runtime.GC()
		}
		if d := ex.Divergence(); d != "" {
			// a recorded prefix no longer fits: the code under test is history dependent; what was
			// explored so far stands, the rest of this scenario is given up (reported as a cap)
			res.Capped = append(res.Capped, fmt.Sprintf("%s: exploration abandoned - %s (executions are history dependent)", sc.Name, d))
			fmt.Fprintf(os.Stderr, "NONDETERMINISM scenario %s: %s\n", sc.Name, d)
			complete = false
			break
		}
		res.Execs++
		res.Steps += ex.Steps()
		if len(ex.Points) > res.MaxPoints {
			res.MaxPoints = len(ex.Points)
		}
		if ex.NThreads() > res.MaxThreads {
			res.MaxThreads = ex.NThreads()
		}
		mine := cfg.Shard == 0 || len(it.prefix) > 0
		if mine {
			fs := sc.Check(st, ex)
			if opts.Monitor {
				for _, rc := range ex.RaceList() {
					if cfg.Races {
						fs = append(fs, RaceFinding(rc))
					}
					for _, s := range []int32{rc.SiteA, rc.SiteB} {
						if cfg.AutoSites && !sites[s] && !newSiteSet[s] {
							newSiteSet[s] = true
						}
					}
				}
			}
			if len(fs) > 0 {
				// replay 5x: a violation must be reproducible to be believed
				for i := 0; i < 5 && !verified[sigs(fs)]; i++ {
					st2, ex2 := runOne(ex.Choices)
					fs2 := sc.Check(st2, ex2)
					if opts.Monitor && cfg.Races {
						for _, rc := range ex2.RaceList() {
							fs2 = append(fs2, RaceFinding(rc))
						}
					}
					if sigs(fs2) != sigs(fs) {
						// observed on the real code, but the same schedule does not reproduce it: the code
						// under test is history dependent (e.g. a process-wide cache); report it, marked
						for k := range fs {
							fs[k].Msg += fmt.Sprintf("\n  (replaying the same schedule gave %q instead: the code under test is history dependent)", sigs(fs2))
						}
						break
					}
				}
				verified[sigs(fs)] = true
				for _, f := range fs {
					res.NViolations++
					if res.SigCounts == nil {
						res.SigCounts = map[string]int{}
					}
					res.SigCounts[f.Sig]++
					res.addViolation(Violation{Property: prop, Scenario: sc.Name, Cfg: raw, Choices: append([]int32{}, ex.Choices...), Sites: siteList, Sig: f.Sig, Msg: f.Msg})
				}
			}
			if sc.Outcome != nil && ex.Verdict == "" {
				outcomes[sc.Outcome(st)] = true
			}
			if len(res.Samples) < 2 && execs == 1 {
				res.Samples = append(res.Samples, map[string]interface{}{"scenario": sc.Name, "cfg": sc.Cfg, "default_schedule_points": len(ex.Points), "threads": ex.NThreads()})
			}
		}
		states[ex.Fingerprint()] = true
		// expand alternatives after the prefix
		dev := 0
		for i := 0; i < len(it.prefix) && i < len(ex.Points); i++ {
			if ex.Points[i].Chosen != 0 && (ex.Points[i].Costly || cfg.Delay) {
				dev++
			}
		}
		for i := len(it.prefix); i < len(ex.Points); i++ {
			p := ex.Points[i]
			if cfg.Delay {
				p.Costly = true
			}
			states[p.EnabledFP^p.Running] = true
			if cfg.Prune {
				k := seenKey{p.EnabledFP, p.Running}
				if d, ok := seen[k]; ok && d <= dev {
					res.Pruned++
					break
				}
				seen[k] = dev
			}
			cost := dev
			if p.Costly {
				cost++
			}
			if (cfg.Bound < 0 || cost <= cfg.Bound) && !cfg.DefaultOnly {
				for alt := p.N - 1; alt >= 1; alt-- {
					if len(it.prefix) == 0 && cfg.NShards > 1 {
						// level-1 subtrees are dealt round-robin to the shards
						l1++
						if l1%cfg.NShards != cfg.Shard {
							continue
						}
					}
					np := make([]int32, i+1)
					copy(np, ex.Choices[:i])
					np[i] = int32(alt)
					stack = append(stack, item{np})
				}
			}
			if p.Chosen != 0 && p.Costly {
				dev++
			}
		}
	}
	if os.Getenv("HX_DEBUG") != "" && execs > 500 {
		fmt.Fprintf(os.Stderr, "DEBUG %s execs=%d cfg=%s\n", sc.Name, execs, raw)
	}
	res.States += len(states)
	res.Outcomes += len(outcomes)
	if complete && (cfg.Bound < 0 || cfg.Bound > res.BoundDone) {
		res.BoundDone = cfg.Bound
	}
	for s := range newSiteSet {
		newSites = append(newSites, s)
	}
	sort.Slice(newSites, func(i, j int) bool { return newSites[i] < newSites[j] })
	return newSites
}

func sigs(fs []Finding) string {
	var s []string
	for _, f := range fs {
		s = append(s, f.Sig)
	}
	sort.Strings(s)
	return fmt.Sprint(uniq(s))
}

// Replay runs one recorded choice sequence and returns the findings and the trace.
func Replay(sc *Scenario, choices []int32, sites []int32) ([]Finding, *vsched.Exec) {
	opts := sc.Opts
	opts.Trace = true
	if len(sites) > 0 {
		opts.AccessPoints = true
		opts.Monitor = true
		opts.Sites = map[int32]bool{}
		for _, s := range sites {
			opts.Sites[s] = true
		}
	}
	st := sc.New()
	ex := vsched.Run(opts, choices, func() { sc.Body(st) })
	fs := sc.Check(st, ex)
	if opts.Monitor {
		for _, rc := range ex.RaceList() {
			fs = append(fs, RaceFinding(rc))
		}
	}
	return fs, ex
}

func hash64(s string) uint64 {
	h := fnv.New64a()
	h.Write([]byte(s))
	return h.Sum64()
}

var _ = os.Exit

// EnvRuns executes body once for every vector of environment answers (vsched.Choose / map-order
// choice points) it can encounter - an exhaustive DFS over the environment of sequential code.
// after is called with the choice vector after each run.
func EnvRuns(opts vsched.Options, body func(), after func(choices []int32)) int {
	stack := [][]int32{nil}
	n := 0
	for len(stack) > 0 {
		prefix := stack[len(stack)-1]
		stack = stack[:len(stack)-1]
		ex := vsched.Run(opts, prefix, body)
		if d := ex.Divergence(); d != "" {
			vsched.InternalError("EnvRuns: %s", d)
		}
		if ex.Verdict != "" {
			vsched.InternalError("EnvRuns: sequential body ended with verdict %s %s", ex.Verdict, ex.Crash)
		}
		n++
		if n%2000 == 0 && os.Getenv("HX_DEBUG") != "" {
			fmt.Fprintf(os.Stderr, "DEBUG EnvRuns n=%d stack=%d points=%d choices=%v\n", n, len(stack), len(ex.Points), ex.Choices)
		}
		after(ex.Choices)
		for i := len(prefix); i < len(ex.Points); i++ {
			for alt := ex.Points[i].N - 1; alt >= 1; alt-- {
				np := make([]int32, i+1)
				copy(np, ex.Choices[:i])
				np[i] = int32(alt)
				stack = append(stack, np)
			}
		}
	}
	return n
}
