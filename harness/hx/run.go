package hx

import (
	"bufio"
	"bytes"
	"context"
	"crypto/sha1"
	"encoding/json"
	"flag"
	"fmt"
	"os"
	"os/exec"
	"path/filepath"
	"runtime/pprof"
	"sort"
	"strconv"
	"strings"
	"sync"
	"time"
)

// Ctx is what a property's worker function receives.
type Ctx struct {
	Prop     string
	Tier     string // quick | thorough
	Shard    int
	NShards  int
	Deadline time.Time
	Res      *Result
	Seed     int64
}

func (c *Ctx) Thorough() bool { return c.Tier == "thorough" }

// Mine tells a worker whether configuration number i is its own.
func (c *Ctx) Mine(i int) bool { return i%c.NShards == c.Shard }

// Expired reports whether the internal time budget is used up (the caller then stops and records a cap).
func (c *Ctx) Expired() bool { return !c.Deadline.IsZero() && time.Now().After(c.Deadline) }

// Prop describes one property check.
type Prop struct {
	ID          string
	Workers     func(tier string) int
	BudgetQuick time.Duration // wall-clock budget for the exploration (a cap, never an oracle)
	BudgetThor  time.Duration
	Run         func(c *Ctx)
	// Rebuild reconstructs the scenario of a stored violation (for --replay); nil for checks whose
	// counter-examples are plain sequential cases handled by ReplayCase.
	Rebuild    func(v *Violation) *Scenario
	ReplayCase func(v *Violation) []Finding
	Rule       string // how cases are enumerated / what makes one distinct (evidence)
	Assume     []string
	Kind       string // "schedules" | "cases": what states/transitions count
}

var registry = map[string]*Prop{}

func Register(p *Prop) { registry[p.ID] = p }

var verifDir = func() string {
	if d := os.Getenv("VERIF_DIR"); d != "" {
		return d
	}
	return "/verif"
}()

type known struct {
	prop, sig, text string
}

func loadKnown() (ks []known) {
	f, err := os.Open(filepath.Join(verifDir, "known_findings.txt"))
	if err != nil {
		return nil
	}
	defer f.Close()
	sc := bufio.NewScanner(f)
	for sc.Scan() {
		line := strings.TrimSpace(sc.Text())
		if !strings.HasPrefix(line, "known:") {
			continue
		}
		// known: property=C19 sig=<signature> :: free text
		rest := strings.TrimSpace(strings.TrimPrefix(line, "known:"))
		text := ""
		if i := strings.Index(rest, " :: "); i >= 0 {
			text = rest[i+4:]
			rest = rest[:i]
		}
		var k known
		k.text = text
		if strings.HasPrefix(rest, "property=") {
			sp := strings.SplitN(rest, " ", 2)
			k.prop = strings.TrimPrefix(sp[0], "property=")
			if len(sp) > 1 {
				k.sig = strings.TrimSpace(strings.TrimPrefix(strings.TrimSpace(sp[1]), "sig="))
			}
		}
		if k.prop != "" && k.sig != "" {
			ks = append(ks, k)
		}
	}
	return ks
}

// Main is the entry point of the vcheck binary.
func Main() {
	worker := flag.Int("worker", -1, "worker shard index (internal)")
	nshards := flag.Int("n", 1, "number of shards (internal)")
	tier := flag.String("tier", "quick", "quick | thorough")
	replay := flag.String("replay", "", "replay a stored violation file")
	deadline := flag.Int64("deadline", 0, "unix deadline (internal)")
	budget := flag.Duration("budget", 0, "override the exploration time budget")
	flag.Parse()
	if flag.NArg() < 1 {
		fmt.Fprintln(os.Stderr, "usage: vcheck [-tier quick|thorough] [-replay file] <property-id>")
		os.Exit(2)
	}
	id := flag.Arg(0)
	p := registry[id]
	if p == nil {
		fmt.Fprintf(os.Stderr, "INTERNAL-ERROR: no check registered for %s\n", id)
		os.Exit(2)
	}
	if t := os.Getenv("VERIF_TIER"); t != "" && !flagSet("tier") {
		*tier = t
	}
	seed, _ := strconv.ParseInt(os.Getenv("VERIF_SEED"), 10, 64)

	if *replay != "" {
		os.Exit(doReplay(p, *replay))
	}
	if *worker >= 0 {
		if pf := os.Getenv("HX_PROF"); pf != "" {
			f, _ := os.Create(fmt.Sprintf("%s.%d", pf, *worker))
			pprof.StartCPUProfile(f)
			defer pprof.StopCPUProfile()
		}
		c := &Ctx{Prop: id, Tier: *tier, Shard: *worker, NShards: *nshards, Res: &Result{}, Seed: seed}
		if *deadline > 0 {
			c.Deadline = time.Unix(*deadline, 0)
		}
		p.Run(c)
		out, _ := json.Marshal(c.Res)
		os.Stdout.Write(out)
		return
	}

	start := time.Now()
	n := 1
	if p.Workers != nil {
		n = p.Workers(*tier)
	}
	b := p.BudgetQuick
	if *tier == "thorough" {
		b = p.BudgetThor
	}
	if *budget > 0 {
		b = *budget
	}
	if b == 0 {
		b = 150 * time.Second
	}
	dl := start.Add(b).Unix()
	self, _ := os.Executable()
	results := make([]*Result, n)
	var wg sync.WaitGroup
	var mu sync.Mutex
	failed := ""
	ctx, cancel := context.WithCancel(context.Background())
	defer cancel()
	for i := 0; i < n; i++ {
		wg.Add(1)
		go func(i int) {
			defer wg.Done()
			// if one worker fails the others are stopped at once (they may be waiting for it)
			cmd := exec.CommandContext(ctx, self, "-worker", strconv.Itoa(i), "-n", strconv.Itoa(n), "-tier", *tier, "-deadline", strconv.FormatInt(dl, 10), id)
			cmd.Env = append(os.Environ(), "GOMAXPROCS=2")
			var out, errb bytes.Buffer
			cmd.Stdout = &out
			cmd.Stderr = &errb
			err := cmd.Run()
			r := &Result{}
			if err != nil || json.Unmarshal(lastJSON(out.Bytes()), r) != nil {
				mu.Lock()
				if ctx.Err() == nil {
					failed += fmt.Sprintf("worker %d: %v\nstderr:\n%s\nstdout tail:\n%s\n", i, err, tail(errb.String(), 4000), tail(out.String(), 1000))
				}
				mu.Unlock()
				cancel()
				return
			}
			results[i] = r
		}(i)
	}
	wg.Wait()
	if failed != "" {
		fmt.Fprintf(os.Stderr, "INTERNAL-ERROR: %s", failed)
		os.Exit(2)
	}
	total := &Result{}
	for _, r := range results {
		total.Merge(r)
		if r.BoundDone != 0 && (total.BoundDone == 0 || r.BoundDone < total.BoundDone) {
			total.BoundDone = r.BoundDone
		}
	}
	os.Exit(finish(p, *tier, seed, total, time.Since(start)))
}

func flagSet(name string) bool {
	set := false
	flag.Visit(func(f *flag.Flag) {
		if f.Name == name {
			set = true
		}
	})
	return set
}

func lastJSON(b []byte) []byte {
	// the worker prints exactly one JSON object last; code under test may have printed before it
	i := bytes.LastIndex(b, []byte("\n{\"configs\""))
	if i >= 0 {
		return b[i+1:]
	}
	i = bytes.Index(b, []byte("{\"configs\""))
	if i >= 0 {
		return b[i:]
	}
	return b
}

func tail(s string, n int) string {
	if len(s) > n {
		return "..." + s[len(s)-n:]
	}
	return s
}

func finish(p *Prop, tier string, seed int64, total *Result, wall time.Duration) int {
	ks := loadKnown()
	unknown := 0
	var lines []string
	knownHit := map[string]bool{}
	os.MkdirAll(filepath.Join(verifDir, "replays"), 0o755)
	sort.Slice(total.Violations, func(i, j int) bool { return total.Violations[i].Sig < total.Violations[j].Sig })
	for i := range total.Violations {
		v := &total.Violations[i]
		for _, k := range ks {
			if k.prop == p.ID && k.sig == v.Sig {
				v.Known = true
				if !knownHit[v.Sig] {
					knownHit[v.Sig] = true
					lines = append(lines, fmt.Sprintf("KNOWN-FINDING: property=%s %s", p.ID, v.Sig))
				}
			}
		}
		if v.Known {
			continue
		}
		unknown++
		raw, _ := json.MarshalIndent(v, "", " ")
		h := sha1.Sum([]byte(v.Sig + string(v.Cfg)))
		path := filepath.Join(verifDir, "replays", fmt.Sprintf("%s-%x.json", p.ID, h[:5]))
		os.WriteFile(path, raw, 0o644)
		lines = append(lines, fmt.Sprintf("VIOLATION property=%s replay=%s", p.ID, path))
		lines = append(lines, "  "+firstLines(v.Msg, 6))
	}
	// violations counted but not kept (beyond the per-signature cap) can only repeat kept signatures
	for sig := range total.SigCounts {
		found := false
		for _, v := range total.Violations {
			if v.Sig == sig {
				found = true
			}
		}
		if !found {
			isKnown := false
			for _, k := range ks {
				if k.prop == p.ID && k.sig == sig {
					isKnown = true
				}
			}
			if !isKnown {
				unknown++
				lines = append(lines, fmt.Sprintf("VIOLATION property=%s replay=%s", p.ID, "(not stored: more than 40 distinct signatures) sig="+sig))
			}
		}
	}
	exhaustive := len(total.Capped) == 0
	states, transitions := total.States, total.Steps
	if p.Kind == "cases" {
		// sequential enumerations: states = distinct cases, transitions = executions on the real engine
		states, transitions = total.Extra["cases"], total.Execs
	}
	if states < 1 {
		states = total.Extra["cases"]
	}
	cov := map[string]interface{}{
		"states":                        states,
		"transitions":                   transitions,
		"traces_validated_against_impl": total.Execs,
		"samples":                       total.Samples,
		"exhaustive":                    exhaustive,
		"evaluations":                   total.Execs,
		"distinct_nontrivial":           total.Outcomes + total.Extra["cases"],
		"rule":                          p.Rule,
		"configurations":                total.Configs,
		"distinct_outcomes":             total.Outcomes,
		"max_choice_points":             total.MaxPoints,
		"max_threads":                   total.MaxThreads,
		"pruned_prefixes":               total.Pruned,
		"bound_completed":               total.BoundDone,
		"caps_hit":                      total.Capped,
		"known_findings_seen":           len(knownHit),
		"extra":                         total.Extra,
		"explanation":                   "every counted execution is a run of the real (instrumented) gengine code; there is no separate model",
	}
	if len(total.RacySites) > 0 {
		cov["racy_sites_as_scheduling_points"] = total.RacySites
	}
	if len(total.Samples) == 0 {
		cov["samples"] = []interface{}{"(no sample recorded)"}
	}
	ev := map[string]interface{}{
		"property_id": p.ID,
		"tier":        tier,
		"seed":        seed,
		"level":       "model_checking",
		"coverage":    cov,
		"assumptions": p.Assume,
		"wall_s":      float64(int(wall.Seconds()*100)) / 100,
		"violations":  unknown,
	}
	raw, _ := json.MarshalIndent(ev, "", " ")
	os.MkdirAll(filepath.Join(verifDir, "evidence"), 0o755)
	if err := os.WriteFile(filepath.Join(verifDir, "evidence", p.ID+".json"), raw, 0o644); err != nil {
		fmt.Fprintf(os.Stderr, "INTERNAL-ERROR: cannot write evidence: %v\n", err)
		return 2
	}
	for _, l := range lines {
		fmt.Println(l)
	}
	fmt.Printf("%s %s: configs=%d execs=%d steps=%d states=%d outcomes=%d pruned=%d exhaustive=%v violations=%d known=%d wall=%.1fs\n",
		p.ID, tier, total.Configs, total.Execs, total.Steps, states, total.Outcomes, total.Pruned, exhaustive, unknown, len(knownHit), wall.Seconds())
	for _, c := range uniqStrings(total.Capped) {
		fmt.Println("  cap:", c)
	}
	if unknown > 0 {
		return 1
	}
	return 0
}

func uniqStrings(s []string) []string {
	s = append([]string{}, s...)
	sort.Strings(s)
	return uniq(s)
}

func firstLines(s string, n int) string {
	ls := strings.Split(s, "\n")
	if len(ls) > n {
		ls = ls[:n]
	}
	return strings.Join(ls, "\n  ")
}

func doReplay(p *Prop, path string) int {
	raw, err := os.ReadFile(path)
	if err != nil {
		fmt.Fprintln(os.Stderr, err)
		return 2
	}
	var v Violation
	if err := json.Unmarshal(raw, &v); err != nil {
		fmt.Fprintln(os.Stderr, err)
		return 2
	}
	var fs []Finding
	if p.Rebuild != nil && (p.ReplayCase == nil || v.Scenario != "case") {
		sc := p.Rebuild(&v)
		if sc == nil {
			fmt.Fprintln(os.Stderr, "cannot rebuild scenario", v.Scenario)
			return 2
		}
		var ex interface{ Divergence() string }
		f, e := Replay(sc, v.Choices, v.Sites)
		fs, ex = f, e
		if d := ex.Divergence(); d != "" {
			fmt.Println("replay diverged (the tree changed the schedule space):", d)
		}
		fmt.Printf("verdict=%q steps=%d\n", e.Verdict, e.Steps())
		if e.Crash != "" {
			fmt.Println(e.Crash)
		}
		for _, l := range e.TraceLog {
			fmt.Println("  ", l)
		}
	} else if p.ReplayCase != nil {
		fs = p.ReplayCase(&v)
	} else {
		fmt.Fprintln(os.Stderr, "no replay support for", p.ID)
		return 2
	}
	hit := false
	for _, f := range fs {
		fmt.Printf("finding: %s\n  %s\n", f.Sig, f.Msg)
		if f.Sig == v.Sig {
			hit = true
		}
	}
	if hit {
		fmt.Printf("VIOLATION property=%s replay=%s\n", p.ID, path)
		return 1
	}
	fmt.Println("replay: the recorded violation does not occur on this tree")
	return 0
}
