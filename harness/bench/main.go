package main

import (
	"fmt"
	"time"

	"github.com/bilibili/gengine/engine"
)

const rules = `
rule "r0" salience 10 begin
  tin(req.Id)
  resp.Id = req.Id
  return req.Id
end
rule "r1" salience 5 begin
  return req.Id + 100
end
rule "r2" salience 1 begin
  return req.Id + 200
end
`

func main() {
	apis := map[string]interface{}{"tin": func(int64) {}}
	t := time.Now()
	n := 200
	for i := 0; i < n; i++ {
		_, err := engine.NewGenginePool(1, 2, 1, rules, apis)
		if err != nil {
			panic(err)
		}
	}
	fmt.Println("NewGenginePool:", time.Since(t)/time.Duration(n))
}
