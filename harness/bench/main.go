package main

import (
	"fmt"
	"time"

	"github.com/bilibili/gengine/builder"
	"github.com/bilibili/gengine/context"
)

func main() {
	rb := builder.NewRuleBuilder(context.NewDataContext())
	if err := rb.BuildRuleFromString(`rule "a" "d" salience 2 begin return "a:2:x" end rule "b" "d" salience 1 begin return "b:1:x" end`); err != nil {
		panic(err)
	}
	t := time.Now()
	n := 500
	for i := 0; i < n; i++ {
		if err := rb.BuildRuleWithIncremental(`rule "c" "d" salience 3 begin return "c:3:y" end`); err != nil {
			panic(err)
		}
	}
	fmt.Println("incremental one tiny rule:", time.Since(t)/time.Duration(n))
	t = time.Now()
	for i := 0; i < n; i++ {
		rb.RemoveRules([]string{"c"})
	}
	fmt.Println("remove:", time.Since(t)/time.Duration(n))
}
