package main

import (
	"encoding/json"
	"fmt"
	"strings"

	"github.com/bilibili/gengine/builder"
	"github.com/bilibili/gengine/context"
	"github.com/bilibili/gengine/engine"
	"github.com/bilibili/gengine/verifrt/vsched"

	"verif/harness/gx"
	"verif/harness/hx"
	"verif/harness/ref"
)

// Generic "one model call on one rule set" scenario shared by C04, C05, C12, C14.

type ruleCfg struct {
	Name    string `json:"n"`
	Sal     int64  `json:"s"`
	NoSal   bool   `json:"nosal,omitempty"`
	Fail    bool   `json:"fail,omitempty"`
	SetsTag bool   `json:"tag,omitempty"`
	// Fault: a faulty construct executed after the rule's end event; the rule must fail with an error
	Fault string `json:"fault,omitempty"`
	// Tricky: statements that must simply complete (e.g. a loop whose body changes what it ranges over)
	Tricky string `json:"tricky,omitempty"`
}

type modelCfg struct {
	Prop  string    `json:"prop"`
	Rules []ruleCfg `json:"rules"`
	Model string    `json:"model"`
	B     bool      `json:"b"`
	N     int       `json:"N,omitempty"`
	M     int       `json:"M,omitempty"`
	Names []string  `json:"names,omitempty"`
	// Twice: call a second time on the same engine and judge that call too ("later calls unaffected")
	Twice bool `json:"twice,omitempty"`
	// Arrive: build the set by a full build of rule Arrive[0] followed by one incremental build per
	// further index (nil = one full build of the whole text)
	Arrive []int `json:"arrive,omitempty"`
	// Groups: full build of the rules Groups[0], then ONE incremental build per further group carrying
	// all rules of that group in one text; Env = the map-iteration choices taken inside those builds
	Groups [][]int `json:"groups,omitempty"`
	Env    []int32 `json:"env,omitempty"`
	// Pre: saliences the rules of Groups[0] are first built with (a later group re-submits them with
	// their final salience), nil = final saliences
	Pre []int64 `json:"pre,omitempty"`
	// Resal: after building, incrementally re-submit rule Resal[0] with the salience it has in Rules
	// (the set was first built with salience Resal[1] for it)
	Resal []int64 `json:"resal,omitempty"`
	// ViaPool: Model names a GenginePool execute method; the call goes through a pool (1,2)
	ViaPool bool `json:"via_pool,omitempty"`
	// Repeats: the name list repeats a name. The statement does not say how often a repeated name runs,
	// so only this is judged: no unselected rule runs, every named existing rule runs at least once,
	// and a list without any existing name fails without running anything.
	Repeats bool `json:"repeats,omitempty"`
	// Diff: also run this (tag-free) twin model on the same input with a fresh engine and require the
	// same error nil-ness, result-map keys and - for sequential models - the same event log
	Diff string `json:"diff,omitempty"`
	// Large: a rule set beyond the size thresholds of library code (e.g. sort.Slice is an insertion
	// sort, stable by accident, up to 12 elements); run under the default schedule only
	Large bool `json:"large,omitempty"`
	// SameDc: the second call (Twice) is made on the builder and data context of the first one, the
	// new observers and counters being added to it (otherwise every call gets a data context of its own)
	SameDc bool `json:"same_dc,omitempty"`
	// Sched: explore this configuration under every schedule with that many preemptions even in a
	// check whose other configurations are sequential (a rule body that starts goroutines itself)
	Sched int `json:"sched,omitempty"`
}

type modelState struct {
	log  *gx.Log
	err  error
	pan  interface{}
	res  map[string]interface{}
	log2 *gx.Log
	err2 error
	pan2 interface{}
	hits map[string]*int64
	res2 map[string]interface{}
}

var compiled = map[string]*builder.RuleBuilder{}

func compileCached(text string) *builder.RuleBuilder {
	if rb, ok := compiled[text]; ok {
		return rb
	}
	if len(compiled) > 4000 {
		compiled = map[string]*builder.RuleBuilder{}
	}
	rb := gx.MustCompile(text)
	compiled[text] = rb
	return rb
}

func (c modelCfg) specs() []gx.RuleSpec {
	var rs []gx.RuleSpec
	for i, r := range c.Rules {
		sp := gx.RuleSpec{Name: r.Name, ID: int64(i + 1), Salience: r.Sal, NoSal: r.NoSal, Fail: r.Fail, Ret: true}
		// every rule bumps its private counter in injected data: an effect besides the log
		if i < 6 {
			sp.Extra = fmt.Sprintf("cnt.C%d += 1", i+1)
		}
		if r.SetsTag {
			sp.Extra += "\n  stag.StopTag = true"
		}
		if r.Tricky != "" {
			sp.Extra += "\n  " + r.Tricky
		}
		sp.After = r.Fault
		rs = append(rs, sp)
	}
	return rs
}

func (c modelCfg) refs() []ref.RuleRef {
	var rs []ref.RuleRef
	for i, r := range c.Rules {
		rs = append(rs, ref.RuleRef{ID: int64(i + 1), Name: r.Name, Sal: r.Sal, Fail: r.Fail || r.Fault != "", SetsTag: r.SetsTag})
	}
	return rs
}

// Counters is the injected struct the rules bump.
type Counters struct{ C1, C2, C3, C4, C5, C6 int64 }

func (c *Counters) get(i int) int64 {
	return []int64{c.C1, c.C2, c.C3, c.C4, c.C5, c.C6}[i]
}

func (c modelCfg) build() *builder.RuleBuilder {
	specs := c.specs()
	if len(c.Arrive) == 0 && len(c.Resal) == 0 {
		return compileCached(gx.RulesText(specs))
	}
	key := fmt.Sprintf("%v|%v|%s", c.Arrive, c.Resal, gx.RulesText(specs))
	if rb, ok := compiled[key]; ok {
		return rb
	}
	var rb *builder.RuleBuilder
	if len(c.Arrive) > 0 {
		rb = gx.MustCompile(specs[c.Arrive[0]].Text())
		for _, i := range c.Arrive[1:] {
			if err := rb.BuildRuleWithIncremental(specs[i].Text()); err != nil {
				vsched.InternalError("incremental build failed: %v", err)
			}
		}
	} else {
		first := append([]gx.RuleSpec{}, specs...)
		first[c.Resal[0]].Salience = c.Resal[1]
		first[c.Resal[0]].NoSal = false
		rb = gx.MustCompile(gx.RulesText(first))
		if err := rb.BuildRuleWithIncremental(specs[c.Resal[0]].Text()); err != nil {
			vsched.InternalError("incremental build failed: %v", err)
		}
	}
	compiled[key] = rb
	return rb
}

// buildGroups performs the grouped build (used under hx.EnvRuns so that every map-iteration order
// inside the builds is enumerated).
func (c modelCfg) buildGroups() (rb *builder.RuleBuilder, failure string) {
	defer func() {
		if r := recover(); r != nil {
			failure = fmt.Sprintf("the build panicked: %v", r)
		}
	}()
	return c.buildGroups0(), ""
}

func (c modelCfg) buildGroups0() *builder.RuleBuilder {
	specs := c.specs()
	text := func(g []int, pre bool) string {
		var sb strings.Builder
		for _, i := range g {
			sp := specs[i]
			if pre && c.Pre != nil {
				sp.Salience, sp.NoSal = c.Pre[i], false
			}
			sb.WriteString(sp.Text())
		}
		return sb.String()
	}
	rb := builder.NewRuleBuilder(context.NewDataContext())
	if err := rb.BuildRuleFromString(text(c.Groups[0], true)); err != nil {
		vsched.InternalError("grouped build failed: %v", err)
	}
	for _, g := range c.Groups[1:] {
		if err := rb.BuildRuleWithIncremental(text(g, false)); err != nil {
			vsched.InternalError("grouped incremental build failed: %v", err)
		}
	}
	return rb
}

func modelScenario(cfg modelCfg) *hx.Scenario {
	return modelScenarioWith(cfg, nil)
}

func modelScenarioWith(cfg modelCfg, prebuilt *builder.RuleBuilder) *hx.Scenario {
	src := prebuilt
	if src == nil {
		src = cfg.build()
	}
	m := gx.ModelByName(cfg.Model)
	if m == nil {
		vsched.InternalError("unknown model %s", cfg.Model)
	}
	plans, ok := ref.Plans(cfg.Model, cfg.refs(), ref.Params{B: cfg.B, N: cfg.N, M: cfg.M, Names: cfg.Names})
	if !ok {
		vsched.InternalError("no reference plan for model %s", cfg.Model)
	}
	type st struct {
		modelState
		cnt  *Counters
		cnt2 *Counters
	}
	var poolTemplate *engine.GenginePool
	var pm *gx.PoolMethod
	if cfg.ViaPool {
		pm = gx.PoolMethodByName(cfg.Model)
		if pm == nil {
			vsched.InternalError("no pool method %s", cfg.Model)
		}
		var err error
		poolTemplate, err = engine.NewGenginePool(1, 2, engine.SortModel, gx.RulesText(cfg.specs()), map[string]interface{}{})
		if err != nil {
			vsched.InternalError("pool: %v", err)
		}
	}
	var livePool *engine.GenginePool
	var lastRB *builder.RuleBuilder
	call := func(g *engine.Gengine, l *gx.Log, cnt *Counters) (error, interface{}) {
		stag := &engine.Stag{}
		inj := map[string]interface{}{"cnt": cnt, "stag": stag}
		if cfg.Prop == "C09" {
			for k, v := range faultData() {
				inj[k] = v
			}
		}
		if cfg.ViaPool {
			// the same call through the pool's wrapper of the model: observers travel as request data
			if livePool == nil {
				livePool = gx.DeepClone(poolTemplate).(*engine.GenginePool)
			}
			inj["ev"], inj["ev3"], inj["boom"] = l.Ev, l.Ev3, l.Boom
			err, _, pan := gx.PoolCallGuarded(pm, livePool, inj, gx.PoolCallParams{B: cfg.B, N: cfg.N, M: cfg.M, Names: cfg.Names, Stag: stag})
			vsched.WaitOthersDone()
			return err, pan
		}
		var rb *builder.RuleBuilder
		if cfg.SameDc && lastRB != nil {
			rb = lastRB
			return gx.CallGuarded(func() error {
				rb.Dc.Add("ev", l.Ev)
				rb.Dc.Add("ev3", l.Ev3)
				rb.Dc.Add("boom", l.Boom)
				for k, v := range inj {
					rb.Dc.Add(k, v)
				}
				return m.Call(g, rb, gx.Params{B: cfg.B, N: cfg.N, M: cfg.M, Names: cfg.Names, Stag: stag})
			})
		}
		rb = gx.Fresh(src, l, inj)
		lastRB = rb
		return gx.CallGuarded(func() error {
			return m.Call(g, rb, gx.Params{B: cfg.B, N: cfg.N, M: cfg.M, Names: cfg.Names, Stag: stag})
		})
	}
	horizon := 0
	if cfg.Prop == "C09" {
		// an endless loop legitimately takes 10000 iterations x ~15 scheduling points, twice
		horizon = 3000000
	}
	return &hx.Scenario{
		Name: "model",
		Cfg:  cfg,
		Opts: vsched.Options{Horizon: horizon},
		New: func() interface{} {
			return &st{modelState: modelState{log: &gx.Log{}, log2: &gx.Log{}}, cnt: &Counters{}, cnt2: &Counters{}}
		},
		Body: func(s interface{}) {
			x := s.(*st)
			livePool = nil
			lastRB = nil
			g := engine.NewGengine()
			x.err, x.pan = call(g, x.log, x.cnt)
			x.log.Ev("ret", 0) // everything the call started must be over by now
			x.res, _ = g.GetRulesResultMap()
			x.res = gx.CopyResult(x.res)
			if cfg.Twice {
				x.err2, x.pan2 = call(g, x.log2, x.cnt2)
				x.log2.Ev("ret", 0)
			}
			if cfg.Diff != "" {
				tw := gx.ModelByName(cfg.Diff)
				g2 := engine.NewGengine()
				rb := gx.Fresh(src, x.log2, map[string]interface{}{"cnt": x.cnt2, "stag": &engine.Stag{}})
				x.err2, x.pan2 = gx.CallGuarded(func() error {
					return tw.Call(g2, rb, gx.Params{B: cfg.B, N: cfg.N, M: cfg.M, Names: cfg.Names})
				})
				x.log2.Ev("ret", 0)
				r2, _ := g2.GetRulesResultMap()
				x.res2 = gx.CopyResult(r2)
			}
		},
		Check: func(s interface{}, ex *vsched.Exec) (fs []hx.Finding) {
			x := s.(*st)
			pfx := strings.ToLower(cfg.Prop) + ":" + cfg.Model + ":"
			desc := func() string {
				raw, _ := json.Marshal(cfg)
				return fmt.Sprintf("\n  cfg=%s\n  log=[%s] err=%v", raw, x.log, x.err)
			}
			if ex.Verdict != "" {
				return []hx.Finding{{Sig: pfx + ex.Verdict, Msg: "execution did not complete: " + ex.Verdict + " " + firstLine(ex.Crash) + desc()}}
			}
			if x.pan != nil {
				return []hx.Finding{{Sig: pfx + "panic", Msg: fmt.Sprintf("the call panicked: %v", x.pan) + desc()}}
			}
			// a rule that is still running after the execute call returned
			for _, l := range []*gx.Log{x.log, x.log2} {
				if i := l.Index("ret", 0, 0); i >= 0 && i != len(l.Evs)-1 {
					return []hx.Finding{{Sig: pfx + "rule-still-running-after-return", Msg: fmt.Sprintf("the call returned while a rule it had started was still running (events after the return: %v)", l.Evs[i+1:]) + desc()}}
				}
			}
			if cfg.Repeats {
				named := map[string]bool{}
				for _, n := range cfg.Names {
					named[n] = true
				}
				any := false
				for i, r := range cfg.Rules {
					cnt := x.log.Count("s", int64(i+1))
					if named[r.Name] {
						any = true
						if cnt == 0 && !strings.Contains(cfg.Model, "NSort") && !strings.Contains(cfg.Model, "NConc") {
							fs = append(fs, hx.Finding{Sig: pfx + "named-rule-did-not-run", Msg: fmt.Sprintf("rule %s is named (repeatedly or once) but did not run", r.Name) + desc()})
						}
					} else if cnt > 0 {
						fs = append(fs, hx.Finding{Sig: pfx + "unselected-rule-ran", Msg: fmt.Sprintf("rule %s was not named but ran %d time(s)", r.Name, cnt) + desc()})
					}
				}
				if !any && (len(toRefLog(x.log)) > 0 || x.err == nil) {
					fs = append(fs, hx.Finding{Sig: pfx + "nothing-selectable", Msg: "no named rule exists: the call must fail without running anything" + desc()})
				}
				return fs
			}
			if c := ref.Judge(plans, toRefLog(x.log), x.err != nil); c != "" {
				fs = append(fs, hx.Finding{Sig: pfx + sigOf(c), Msg: c + desc()})
			}
			// effects: a rule's counter equals its number of start events
			for i := range cfg.Rules {
				if i >= 6 {
					break // only the first six rules carry a counter
				}
				if int(x.cnt.get(i)) != x.log.Count("s", int64(i+1)) {
					fs = append(fs, hx.Finding{Sig: pfx + "effect-count", Msg: fmt.Sprintf("rule %d: counter %d but %d start events", i+1, x.cnt.get(i), x.log.Count("s", int64(i+1))) + desc()})
				}
			}
			if cfg.Diff != "" {
				if x.pan2 != nil {
					fs = append(fs, hx.Finding{Sig: pfx + "twin-panic", Msg: fmt.Sprintf("tag-free twin %s panicked: %v", cfg.Diff, x.pan2) + desc()})
				} else {
					if (x.err != nil) != (x.err2 != nil) || fmt.Sprint(gx.ResultKeys(x.res)) != fmt.Sprint(gx.ResultKeys(x.res2)) {
						fs = append(fs, hx.Finding{Sig: pfx + "differs-from-tag-free-twin", Msg: fmt.Sprintf("tag never set, yet %s differs from %s: err %v vs %v, result keys %v vs %v", cfg.Model, cfg.Diff, x.err, x.err2, gx.ResultKeys(x.res), gx.ResultKeys(x.res2)) + desc()})
					}
					if ex.NThreads() == 1 && x.log.String() != x.log2.String() {
						fs = append(fs, hx.Finding{Sig: pfx + "log-differs-from-tag-free-twin", Msg: fmt.Sprintf("tag never set, yet the event log differs from %s: [%s]", cfg.Diff, x.log2) + desc()})
					}
				}
			}
			if cfg.Twice {
				if x.pan2 != nil {
					fs = append(fs, hx.Finding{Sig: pfx + "second-call-panic", Msg: fmt.Sprintf("second call panicked: %v", x.pan2) + desc()})
				} else if c := ref.Judge(plans, toRefLog(x.log2), x.err2 != nil); c != "" {
					fs = append(fs, hx.Finding{Sig: pfx + "second-call:" + sigOf(c), Msg: "second call on the same engine: " + c + desc() + fmt.Sprintf("\n  log2=[%s] err2=%v", x.log2, x.err2)})
				}
			}
			return fs
		},
		Outcome: func(s interface{}) string { x := s.(*st); return x.log.String() + fmt.Sprint(x.err != nil) },
	}
}

func toRefLog(l *gx.Log) []ref.Ev {
	out := make([]ref.Ev, 0, len(l.Evs))
	for _, e := range l.Evs {
		if e.K == "ret" {
			continue
		}
		out = append(out, ref.Ev{K: e.K, ID: e.ID})
	}
	return out
}

// sigOf strips the numbers out of a complaint so that it can serve as a signature.
func sigOf(c string) string {
	var sb strings.Builder
	for _, r := range c {
		if r >= '0' && r <= '9' {
			continue
		}
		sb.WriteRune(r)
	}
	s := sb.String()
	if i := strings.Index(s, ":"); i > 0 && i < 40 {
		s = s[i+1:]
	}
	s = strings.Join(strings.Fields(s), " ")
	if len(s) > 70 {
		s = s[:70]
	}
	return s
}

func rebuildModel(v *hx.Violation) *hx.Scenario {
	var cfg modelCfg
	if err := json.Unmarshal(v.Cfg, &cfg); err != nil {
		return nil
	}
	return modelScenario(cfg)
}

// subsets of {0..n-1} with at most k elements, as boolean masks, smallest first.
func subsetsUpTo(n, k int) [][]bool {
	var out [][]bool
	for size := 0; size <= k; size++ {
		for mask := 0; mask < 1<<n; mask++ {
			if popcount(mask) != size {
				continue
			}
			b := make([]bool, n)
			for i := 0; i < n; i++ {
				b[i] = mask&(1<<i) != 0
			}
			out = append(out, b)
		}
	}
	return out
}

func popcount(x int) int {
	n := 0
	for x != 0 {
		n += x & 1
		x >>= 1
	}
	return n
}

var ruleNames = []string{"r0", "r1", "r2", "r3", "r4", "r5"}
