package main

import (
	"encoding/json"
	"fmt"
	"github.com/bilibili/gengine/engine"
	"math"
	"math/big"
	"os"
	"sort"
	"strings"
	"time"

	"github.com/bilibili/gengine/builder"
	"github.com/bilibili/gengine/context"
	"github.com/bilibili/gengine/verifrt/vsched"

	"verif/harness/gx"
	"verif/harness/hx"
	"verif/harness/ref"
)

// C03 - injected data is read, written and called faithfully.
//
// Bounded-exhaustive enumeration of one-statement programs over a fixed set of host objects
// (ref.World): access path x target kind x source x boundary value x {read, =, +=}; calls of a
// generated callee family (functions, methods, three-level) with 1..3 parameters x argument sources;
// name-shadowing programs. Every program runs on the real engine with fresh host objects and is
// judged against ref/data.go. What the statement leaves open is executed but not judged (only "no
// panic escapes" and "nothing else changed" are recorded for it).

// c03Case is one program together with everything needed to rebuild its host objects and oracle.
type c03Case struct {
	Grp  string `json:"grp"` // data | call | shadow
	Name string `json:"name"`
	Prog string `json:"prog"` // rule body

	// data cases
	PathID     string   `json:"path,omitempty"`
	PClass     string   `json:"pclass,omitempty"`   // path class used in signatures
	Expr       string   `json:"expr,omitempty"`     // access expression in the rule
	Loc        string   `json:"loc,omitempty"`      // host location (ref.World.Snapshot key)
	LenLoc     string   `json:"len_loc,omitempty"`  // container length location if the key is missing
	Missing    bool     `json:"missing,omitempty"`  // map key absent before the call
	Settable   bool     `json:"settable,omitempty"` // Go lets the host observe a store through what is injected
	CrossOK    bool     `json:"cross_ok,omitempty"` // statement promises cross-class conversion here
	ReadJudged bool     `json:"read_judged,omitempty"`
	KeyOK      bool     `json:"key_ok,omitempty"`   // the key is a literal, a local, or an injected variable of exactly the key type
	KeyConv    bool     `json:"key_conv,omitempty"` // the key/index variable's kind differs from the key type: the case is about the key
	Target     string   `json:"target,omitempty"`
	Op         string   `json:"op,omitempty"`  // read | = | +=
	Src        string   `json:"src,omitempty"` // lit | local | inj
	SrcVal     *ref.Val `json:"src_val,omitempty"`
	KeyInj     *ref.Val `json:"key_inj,omitempty"` // injected as KV

	// call cases
	Form   string   `json:"form,omitempty"` // func | method | vmethod | three | threeval | threeD
	Params []string `json:"params,omitempty"`
	NRes   int      `json:"nres,omitempty"`
	Args   []c03Arg `json:"args,omitempty"`

	// shadow cases
	Shadow string `json:"shadow,omitempty"`

	why string // why the case is not judged (evidence counters)
}

// c03Arg is one call argument: Val is the value that arrives at the call (before conversion to the
// parameter type), Text the argument expression, Pre an optional preceding statement.
type c03Arg struct {
	Src  string  `json:"src"` // lit | local | inj | nest | expr
	Val  ref.Val `json:"val"`
	Text string  `json:"text"`
	Pre  string  `json:"pre,omitempty"`
}

// ------------------------------------------------------------------------------------------------
// access paths

type c03Path struct {
	ID         string
	PClass     string
	Primary    bool // gets the full source x value product in the quick tier
	Settable   bool
	CrossOK    bool
	ReadJudged bool
	KeyConv    bool // the key variable needs a conversion: stores use same-kind sources only
	// build fills Expr, Loc, LenLoc, Missing, KeyInj, KeyOK and returns the prelude (local key)
	build func(k ref.Kind, cs *c03Case) string
}

func c03Paths() []c03Path {
	var ps []c03Path
	field := func(id, pclass, prefix string, primary, settable bool) {
		ps = append(ps, c03Path{ID: id, PClass: pclass, Primary: primary, Settable: settable, CrossOK: true, ReadJudged: true,
			build: func(k ref.Kind, cs *c03Case) string {
				cs.Expr = prefix + "." + ref.FieldNames[k]
				cs.Loc = cs.Expr
				cs.KeyOK = true
				return ""
			}})
	}
	field("S.F", "field", "S", true, true)
	ps = append(ps, c03Path{ID: "P", PClass: "ptr-scalar", Primary: true, Settable: true, CrossOK: true, ReadJudged: false,
		build: func(k ref.Kind, cs *c03Case) string {
			cs.Expr = "P" + k.String()
			cs.Loc = cs.Expr
			cs.KeyOK = true
			return ""
		}})

	// containers: key forms
	type keyForm struct {
		id      string
		lit     string   // literal key text
		local   string   // literal assigned to local kv
		inj     *ref.Val // injected KV
		keyRepr string   // location key
		missing bool
	}
	iv := func(k ref.Kind, i int64) *ref.Val { v := ref.IntVal(k, i); return &v }
	uv := func(k ref.Kind, u uint64) *ref.Val { v := ref.UintVal(k, u); return &v }
	sv := func(s string) *ref.Val { v := ref.StrVal(s); return &v }
	container := func(prefix, pclass string, keyKind ref.Kind, settable bool, primaryForm string, forms []keyForm) {
		for _, f := range forms {
			f := f
			pc := pclass
			keyOK := true
			if f.inj != nil && f.inj.K != keyKind {
				// The statement promises conversions for assigned values and call arguments only. A literal
				// or local integer key (the language's one integer type) must reach a map[int] key to mean
				// anything, but what an injected key variable of another kind designates is left open: such
				// programs are executed and only checked for escaping panics and collateral changes.
				keyOK = false
				pc = fmt.Sprintf("%s.key-%s-to-%s", pclass, f.inj.K, keyKind)
			}
			ps = append(ps, c03Path{ID: prefix + "[" + f.id + "]", PClass: pc, Primary: f.id == primaryForm, Settable: settable, CrossOK: false, ReadJudged: true, KeyConv: pc != pclass,
				build: func(k ref.Kind, cs *c03Case) string {
					name := prefix + k.String()
					cs.Loc = name + "[" + f.keyRepr + "]"
					cs.Missing = f.missing
					if f.missing {
						cs.LenLoc = name + "#len"
					}
					cs.KeyOK = keyOK
					switch {
					case f.lit != "":
						cs.Expr = name + "[" + f.lit + "]"
					case f.local != "":
						cs.Expr = name + "[kv]"
						return "kv = " + f.local
					default:
						cs.Expr = name + "[KV]"
						cs.KeyInj = f.inj
					}
					return ""
				}})
		}
	}
	strForms := []keyForm{
		{id: "lit", lit: `"k"`, keyRepr: `"k"`},
		{id: "miss", lit: `"q"`, keyRepr: `"q"`, missing: true},
		{id: "local", local: `"z"`, keyRepr: `"z"`},
		{id: "inj", inj: sv("z"), keyRepr: `"z"`},
		{id: "inj-miss", inj: sv("q"), keyRepr: `"q"`, missing: true},
	}
	container("MS", "map-elem", ref.KString, true, "lit", strForms)
	container("MSp", "map-elem-ptr", ref.KString, true, "lit", strForms)
	intForms := []keyForm{
		{id: "lit", lit: "3", keyRepr: "3"},
		{id: "miss", lit: "9", keyRepr: "9", missing: true},
		{id: "local", local: "4", keyRepr: "4"},
		{id: "inj-int", inj: iv(ref.KInt, 4), keyRepr: "4"},
		{id: "inj-int8", inj: iv(ref.KInt8, 3), keyRepr: "3"},
		{id: "inj-int64", inj: iv(ref.KInt64, 4), keyRepr: "4"},
		{id: "inj-uint8", inj: uv(ref.KUint8, 3), keyRepr: "3"}, // other class: not judged
	}
	container("MI", "map-elem", ref.KInt, true, "lit", intForms)
	container("MIp", "map-elem-ptr", ref.KInt, true, "", intForms)
	container("ML", "map-elem", ref.KInt64, true, "", []keyForm{
		{id: "lit", lit: "3", keyRepr: "3"},
		{id: "local", local: "4", keyRepr: "4"},
		{id: "inj-int32", inj: iv(ref.KInt32, 3), keyRepr: "3"},
		{id: "inj-int64", inj: iv(ref.KInt64, 4), keyRepr: "4"},
	})
	idxForms := []keyForm{
		{id: "lit", lit: "1", keyRepr: "1"},
		{id: "local", local: "2", keyRepr: "2"},
		{id: "inj-int", inj: iv(ref.KInt, 0), keyRepr: "0"},
		{id: "inj-int8", inj: iv(ref.KInt8, 2), keyRepr: "2"},
	}
	// an index variable of any integer kind designates the element (keyKind int: same class required)
	container("L", "slice-elem", ref.KInt, true, "lit", idxForms)
	container("Lp", "slice-elem-ptr", ref.KInt, true, "lit", idxForms)
	container("Ap", "array-elem-ptr", ref.KInt, true, "lit", idxForms[:3])
	container("A", "array-elem-val", ref.KInt, false, "", idxForms[:3])

	field("S.In.F", "field2-ptr", "S.In", true, true)
	field("S.Nv.F", "field2-nested", "S.Nv", true, true)
	field("SV.F", "valfield", "SV", false, false)
	field("SV.Nv.F", "valfield2", "SV.Nv", false, false)
	// index paths of slices/arrays with converted int kinds are the element itself, not a key conversion
	for i := range ps {
		if strings.Contains(ps[i].PClass, "slice-elem") || strings.Contains(ps[i].PClass, "array-elem") {
			if j := strings.Index(ps[i].PClass, ".key-"); j >= 0 {
				ps[i].PClass = ps[i].PClass[:j] + ".idx-" + strings.SplitN(ps[i].PClass[j+5:], "-to-", 2)[0]
			}
		}
	}
	return ps
}

// ------------------------------------------------------------------------------------------------
// sources and values

type c03Source struct {
	Form string // lit | local | inj
	Kind ref.Kind
}

func c03PickVals(src, target ref.Kind, full bool) []ref.Val {
	all := ref.SourceVals(src, target)
	if full {
		return all
	}
	var reps, non []ref.Val
	for _, v := range all {
		if ref.Representable(v, target) {
			reps = append(reps, v)
		} else {
			non = append(non, v)
		}
	}
	var out []ref.Val
	seen := map[string]bool{}
	add := func(v ref.Val) {
		if !seen[v.Repr()] {
			seen[v.Repr()] = true
			out = append(out, v)
		}
	}
	if n := len(reps); n > 0 {
		add(reps[minInt(1, n-1)])
		if n >= 2 {
			add(reps[n-2])
		}
		add(reps[n-1])
	}
	if len(non) > 0 {
		add(non[0])
	}
	return out
}

func minInt(a, b int) int {
	if a < b {
		return a
	}
	return b
}

// otherWidth: a kind of the same class with a different width (64-bit kinds get a narrow partner
// and vice versa).
func otherWidth(k ref.Kind) ref.Kind {
	switch k {
	case ref.KInt, ref.KInt64:
		return ref.KInt32
	case ref.KInt8, ref.KInt16, ref.KInt32:
		return ref.KInt64
	case ref.KUint, ref.KUint64:
		return ref.KUint8
	case ref.KUint8, ref.KUint16, ref.KUint32:
		return ref.KUint64
	case ref.KFloat32:
		return ref.KFloat64
	}
	return ref.KFloat32
}

type c03SrcVal struct {
	s c03Source
	v ref.Val
}

// c03StoreInputs enumerates (source, value) for stores into a location of kind target.
func c03StoreInputs(target ref.Kind, full, sameKindOnly bool, cur ref.Val, op string) []c03SrcVal {
	var out []c03SrcVal
	addVals := func(s c03Source, vs []ref.Val) {
		for _, v := range vs {
			out = append(out, c03SrcVal{s, v})
		}
	}
	if sameKindOnly {
		switch {
		case target.Numeric():
			vs := c03PickVals(target, target, false)
			if op == "+=" {
				vs = c03AddVals(target, target, cur, false)
			}
			addVals(c03Source{"inj", target}, vs)
		case target == ref.KString:
			addVals(c03Source{"inj", ref.KString}, []ref.Val{ref.StrVal("in j")})
		default:
			addVals(c03Source{"inj", ref.KBool}, []ref.Val{ref.BoolVal(true), ref.BoolVal(false)})
		}
		return out
	}
	if target.Numeric() {
		var srcs []c03Source
		if full {
			srcs = append(srcs, c03Source{"lit", ref.KInt64}, c03Source{"lit", ref.KFloat64}, c03Source{"local", ref.KInt64}, c03Source{"local", ref.KFloat64})
			for _, k := range ref.NumericKinds() {
				srcs = append(srcs, c03Source{"inj", k})
			}
		} else {
			srcs = append(srcs, c03Source{"lit", ref.KInt64}, c03Source{"lit", ref.KFloat64}, c03Source{"inj", target}, c03Source{"inj", otherWidth(target)})
		}
		for _, s := range srcs {
			vs := c03PickVals(s.Kind, target, full)
			if op == "+=" {
				vs = c03AddVals(s.Kind, target, cur, full)
			}
			addVals(s, vs)
		}
		// class mismatches (not judged)
		if full || target == ref.KInt8 || target == ref.KFloat64 {
			out = append(out, c03SrcVal{c03Source{"lit", ref.KString}, ref.StrVal("7")}, c03SrcVal{c03Source{"lit", ref.KBool}, ref.BoolVal(true)})
		}
		return out
	}
	if target == ref.KString {
		addVals(c03Source{"lit", ref.KString}, []ref.Val{ref.StrVal("abc"), ref.StrVal("")})
		addVals(c03Source{"inj", ref.KString}, []ref.Val{ref.StrVal("in j"), ref.StrVal("")})
		if full {
			addVals(c03Source{"local", ref.KString}, []ref.Val{ref.StrVal("abc")})
		}
		// class mismatches (not judged), among them `S.Str = 5`
		addVals(c03Source{"lit", ref.KInt64}, []ref.Val{ref.IntVal(ref.KInt64, 5)})
		if full {
			addVals(c03Source{"lit", ref.KFloat64}, []ref.Val{ref.FloatVal(ref.KFloat64, 1.5)})
			addVals(c03Source{"lit", ref.KBool}, []ref.Val{ref.BoolVal(true)})
			addVals(c03Source{"inj", ref.KInt8}, []ref.Val{ref.IntVal(ref.KInt8, 5)})
			addVals(c03Source{"inj", ref.KUint16}, []ref.Val{ref.UintVal(ref.KUint16, 5)})
			addVals(c03Source{"inj", ref.KFloat32}, []ref.Val{ref.FloatVal(ref.KFloat32, 1.5)})
		}
		return out
	}
	addVals(c03Source{"lit", ref.KBool}, []ref.Val{ref.BoolVal(true), ref.BoolVal(false)})
	addVals(c03Source{"inj", ref.KBool}, []ref.Val{ref.BoolVal(true), ref.BoolVal(false)})
	if full {
		addVals(c03Source{"local", ref.KBool}, []ref.Val{ref.BoolVal(true), ref.BoolVal(false)})
	}
	addVals(c03Source{"lit", ref.KInt64}, []ref.Val{ref.IntVal(ref.KInt64, 1)})
	if full {
		addVals(c03Source{"lit", ref.KString}, []ref.Val{ref.StrVal("true")})
		addVals(c03Source{"inj", ref.KUint8}, []ref.Val{ref.UintVal(ref.KUint8, 1)})
	}
	return out
}

// c03AddVals: right-hand sides of kind src for `target += rhs` when the target holds cur: chosen so
// that the sum lands on the common values and on the edges of the target kind (inside and just
// outside its range), as far as kind src can hold the difference.
func c03AddVals(src, target ref.Kind, cur ref.Val, full bool) []ref.Val {
	finals := append(ref.CommonVals(), ref.Edges(target)...)
	var all []ref.Val
	seen := map[string]bool{}
	for _, f := range finals {
		var d ref.Val
		if f.K.Class() == ref.CFloat || cur.K.Class() == ref.CFloat {
			var ff, cf float64
			switch f.K.Class() {
			case ref.CInt:
				ff = float64(f.I)
			case ref.CUint:
				ff = float64(f.U)
			default:
				ff = f.F
			}
			switch cur.K.Class() {
			case ref.CInt:
				cf = float64(cur.I)
			case ref.CUint:
				cf = float64(cur.U)
			default:
				cf = cur.F
			}
			d = ref.FloatVal(ref.KFloat64, ff-cf)
			if math.IsInf(d.F, 0) {
				continue
			}
		} else {
			toBig := func(v ref.Val) *big.Int {
				if v.K.Class() == ref.CInt {
					return big.NewInt(v.I)
				}
				return new(big.Int).SetUint64(v.U)
			}
			x := new(big.Int).Sub(toBig(f), toBig(cur))
			switch {
			case x.IsInt64():
				d = ref.IntVal(ref.KInt64, x.Int64())
			case x.IsUint64():
				d = ref.UintVal(ref.KUint64, x.Uint64())
			default:
				continue
			}
		}
		if !ref.Representable(d, src) {
			continue
		}
		v := ref.Convert(d, src)
		if !seen[v.Repr()] {
			seen[v.Repr()] = true
			all = append(all, v)
		}
	}
	if full {
		return all
	}
	var reps, non, out []ref.Val
	for _, v := range all {
		if sum, _, ok := ref.AddAssign(cur, v); ok && ref.Representable(sum, target) {
			reps = append(reps, v)
		} else {
			non = append(non, v)
		}
	}
	if n := len(reps); n > 0 {
		out = append(out, reps[minInt(1, n-1)])
		if n >= 3 {
			out = append(out, reps[n-2])
		}
		if n >= 2 {
			out = append(out, reps[n-1])
		}
	}
	if len(non) > 0 {
		out = append(out, non[0])
	}
	return out
}

// litKind: the literal kind through which a value of kind k can be written in a rule text.
func litFor(v ref.Val) (string, bool) {
	switch v.K {
	case ref.KInt64, ref.KFloat64, ref.KString, ref.KBool:
		return ref.LitText(v)
	}
	return "", false
}

func c03DataCases(thorough bool) []c03Case {
	var out []c03Case
	init0 := ref.NewWorld().Snapshot()
	for _, p := range c03Paths() {
		full := p.Primary || thorough
		for _, k := range ref.AllKinds() {
			base := c03Case{Grp: "data", PathID: p.ID, PClass: p.PClass, Settable: p.Settable, CrossOK: p.CrossOK, ReadJudged: p.ReadJudged, KeyConv: p.KeyConv, Target: k.String()}
			pre := p.build(k, &base)
			cur, present := init0[base.Loc]
			if !present {
				if !base.Missing {
					vsched.InternalError("c03: path %s kind %s: location %s does not exist in the world", p.ID, k, base.Loc)
				}
				cur = ref.Zero(k)
			} else if base.Missing {
				vsched.InternalError("c03: path %s kind %s: location %s should be missing", p.ID, k, base.Loc)
			}
			lines := func(ls ...string) string {
				var keep []string
				for _, l := range ls {
					if l != "" {
						keep = append(keep, "  "+l)
					}
				}
				return strings.Join(keep, "\n")
			}
			rd := base
			rd.Op = "read"
			rd.Prog = lines(pre, "return "+base.Expr)
			out = append(out, rd)
			for _, op := range []string{"=", "+="} {
				for _, in := range c03StoreInputs(k, full, p.KeyConv, cur, op) {
					cs := base
					cs.Op = op
					cs.Src = in.s.Form
					v := in.v
					cs.SrcVal = &v
					var pre2, rhs string
					switch in.s.Form {
					case "lit":
						t, ok := litFor(v)
						if !ok {
							continue
						}
						rhs = t
					case "local":
						t, ok := litFor(v)
						if !ok {
							continue
						}
						pre2, rhs = "t = "+t, "t"
					default:
						rhs = "V"
					}
					cs.Prog = lines(pre, pre2, base.Expr+" "+op+" "+rhs)
					out = append(out, cs)
				}
			}
		}
	}
	return out
}

// ------------------------------------------------------------------------------------------------
// call cases

type c03ArgCand struct {
	src  string
	val  ref.Val
	nest ref.Kind // nest: helper kind
}

// render the candidate as argument number i
func (c c03ArgCand) arg(i int) (c03Arg, bool) {
	a := c03Arg{Src: c.src, Val: c.val}
	switch c.src {
	case "lit":
		t, ok := litFor(c.val)
		if !ok {
			return a, false
		}
		a.Text = t
	case "local":
		t, ok := litFor(c.val)
		if !ok {
			return a, false
		}
		a.Text = fmt.Sprintf("t%d", i)
		a.Pre = a.Text + " = " + t
	case "inj":
		a.Text = fmt.Sprintf("a%d", i)
	case "nest":
		// the helper receives a literal of its parameter kind and returns it as kind c.val.K
		lk := ref.KInt64
		if c.val.K.Class() == ref.CFloat {
			lk = ref.KFloat64
		} else if !c.val.K.Numeric() {
			lk = c.val.K
		}
		if !ref.Representable(c.val, lk) {
			return a, false
		}
		t, ok := litFor(ref.Convert(c.val, lk))
		if !ok {
			return a, false
		}
		a.Text = "n" + c.val.K.String() + "(" + t + ")"
	case "expr":
		switch c.val.K {
		case ref.KInt64:
			if c.val.I < 0 {
				return a, false
			}
			x := c.val.I / 2
			a.Text = fmt.Sprintf("%d + %d", x, c.val.I-x)
		case ref.KFloat64:
			if c.val.F < 0 {
				return a, false
			}
			x := c.val.F / 2
			y := c.val.F - x
			tx, ok1 := litFor(ref.FloatVal(ref.KFloat64, x))
			ty, ok2 := litFor(ref.FloatVal(ref.KFloat64, y))
			if !ok1 || !ok2 {
				return a, false
			}
			a.Val = ref.FloatVal(ref.KFloat64, x+y)
			a.Text = tx + " + " + ty
		case ref.KString:
			h := len(c.val.S) / 2
			a.Text = fmt.Sprintf("\"%s\" + \"%s\"", c.val.S[:h], c.val.S[h:])
		case ref.KBool:
			if c.val.B {
				a.Text = "1 < 2"
			} else {
				a.Text = "2 < 1"
			}
		default:
			return a, false
		}
	}
	return a, true
}

// c03ArgCands: argument candidates for a parameter of kind p; reps are within the statement
// (representable in p), others are executed but not judged.
func c03ArgCands(p ref.Kind) (reps, others []c03ArgCand) {
	add := func(c c03ArgCand) {
		if _, ok := c.arg(0); !ok {
			return
		}
		if ref.Representable(c.val, p) {
			reps = append(reps, c)
		} else {
			others = append(others, c)
		}
	}
	if p.Numeric() {
		for _, lk := range []ref.Kind{ref.KInt64, ref.KFloat64} {
			vs := c03PickVals(lk, p, false)
			for _, v := range vs {
				add(c03ArgCand{src: "lit", val: v})
			}
			for i, v := range vs {
				if i >= 1 {
					add(c03ArgCand{src: "local", val: v})
				}
			}
			for i := len(vs) - 1; i >= 0; i-- {
				if _, ok := (c03ArgCand{src: "expr", val: vs[i]}).arg(0); ok && ref.Representable(vs[i], p) {
					add(c03ArgCand{src: "expr", val: vs[i]})
					break
				}
			}
		}
		for _, k := range ref.NumericKinds() {
			for _, v := range c03PickVals(k, p, false) {
				add(c03ArgCand{src: "inj", val: v})
			}
		}
		for _, k := range []ref.Kind{ref.KInt8, ref.KInt32, ref.KUint8, ref.KUint32, ref.KFloat32, ref.KFloat64} {
			vs := c03PickVals(k, p, false)
			for i := len(vs) - 1; i >= 0; i-- {
				if ref.Representable(vs[i], p) {
					add(c03ArgCand{src: "nest", val: vs[i]})
					break
				}
			}
		}
		add(c03ArgCand{src: "lit", val: ref.StrVal("7")})
		add(c03ArgCand{src: "lit", val: ref.BoolVal(true)})
		return
	}
	if p == ref.KString {
		for _, s := range []string{"lit", "local", "inj", "nest", "expr"} {
			add(c03ArgCand{src: s, val: ref.StrVal("ab cd")})
		}
		add(c03ArgCand{src: "lit", val: ref.StrVal("")})
		add(c03ArgCand{src: "inj", val: ref.StrVal("")})
		add(c03ArgCand{src: "lit", val: ref.IntVal(ref.KInt64, 5)})
		add(c03ArgCand{src: "lit", val: ref.BoolVal(true)})
		add(c03ArgCand{src: "inj", val: ref.UintVal(ref.KUint8, 5)})
		return
	}
	for _, s := range []string{"lit", "local", "inj", "nest", "expr"} {
		add(c03ArgCand{src: s, val: ref.BoolVal(true)})
		add(c03ArgCand{src: s, val: ref.BoolVal(false)})
	}
	add(c03ArgCand{src: "lit", val: ref.IntVal(ref.KInt64, 1)})
	add(c03ArgCand{src: "lit", val: ref.StrVal("true")})
	return
}

var c03Forms = []string{"func", "method", "vmethod", "three", "threeval", "threeD"}

func c03CallText(form string, nres int, args []c03Arg) string {
	var texts, pres []string
	for _, a := range args {
		texts = append(texts, a.Text)
		if a.Pre != "" {
			pres = append(pres, "  "+a.Pre)
		}
	}
	var callee string
	switch form {
	case "func":
		callee = fmt.Sprintf("f%d", nres)
	case "method":
		callee = fmt.Sprintf("o.R%d", nres)
	case "vmethod":
		callee = fmt.Sprintf("v.R%d", nres)
	case "three":
		callee = fmt.Sprintf("h.P.R%d", nres)
	case "threeval":
		callee = fmt.Sprintf("h.Q.R%d", nres)
	case "threeD":
		callee = fmt.Sprintf("h.D.R%d", nres)
	}
	call := callee + "(" + strings.Join(texts, ", ") + ")"
	if nres > 0 {
		call = "return " + call
	}
	return strings.Join(append(pres, "  "+call), "\n")
}

func c03CallCases(thorough bool) []c03Case {
	var out []c03Case
	emit := func(form string, ks []ref.Kind, nres int, cands []c03ArgCand) {
		cs := c03Case{Grp: "call", Form: form, NRes: nres}
		for _, k := range ks {
			cs.Params = append(cs.Params, k.String())
		}
		for i, c := range cands {
			a, ok := c.arg(i)
			if !ok {
				return
			}
			cs.Args = append(cs.Args, a)
		}
		cs.Prog = c03CallText(form, nres, cs.Args)
		out = append(out, cs)
	}
	reps := map[ref.Kind][]c03ArgCand{}
	others := map[ref.Kind][]c03ArgCand{}
	for _, p := range c03ParamKinds {
		reps[p], others[p] = c03ArgCands(p)
	}
	// one parameter: every candidate x every form; result count rotates (thorough: all three)
	n := 0
	for _, p := range c03ParamKinds {
		for _, c := range append(append([]c03ArgCand{}, reps[p]...), others[p]...) {
			for _, form := range c03Forms {
				if thorough {
					for nres := 0; nres < 3; nres++ {
						emit(form, []ref.Kind{p}, nres, []c03ArgCand{c})
					}
				} else {
					emit(form, []ref.Kind{p}, n%3, []c03ArgCand{c})
					n++
				}
			}
		}
	}
	// two parameters: all pairs x forms x rotating judged arguments (+ one unjudged variant)
	variants2 := 4
	if thorough {
		variants2 = 10
	}
	for i1, p1 := range c03ParamKinds {
		for i2, p2 := range c03ParamKinds {
			for fi, form := range c03Forms {
				if form == "threeD" && !thorough {
					continue
				}
				for j := 0; j < variants2; j++ {
					c1 := reps[p1][(j*5+i2+fi)%len(reps[p1])]
					c2 := reps[p2][(j*7+3+i1+2*fi)%len(reps[p2])]
					if thorough {
						for nres := 0; nres < 3; nres++ {
							emit(form, []ref.Kind{p1, p2}, nres, []c03ArgCand{c1, c2})
						}
					} else {
						emit(form, []ref.Kind{p1, p2}, (j+fi)%3, []c03ArgCand{c1, c2})
					}
				}
			}
			// not judged: second argument outside the parameter's range / class
			o2 := others[p2][(i1)%len(others[p2])]
			emit("func", []ref.Kind{p1, p2}, 1, []c03ArgCand{reps[p1][0], o2})
			emit("method", []ref.Kind{p1, p2}, 1, []c03ArgCand{reps[p1][0], o2})
		}
	}
	// three parameters
	variants3 := 2
	if thorough {
		variants3 = 3
	}
	for i1, p1 := range c03ParamKinds {
		for i2, p2 := range c03ParamKinds {
			for i3, p3 := range c03ParamKinds {
				if !thorough && (i1+3*i2+5*i3)%8 != 0 {
					continue
				}
				for fi, form := range c03Forms[:5] {
					for j := 0; j < variants3; j++ {
						c1 := reps[p1][(j*5+i2+i3+fi)%len(reps[p1])]
						c2 := reps[p2][(j*7+3+i1+i3+2*fi)%len(reps[p2])]
						c3 := reps[p3][(j*11+6+i1+i2+3*fi)%len(reps[p3])]
						emit(form, []ref.Kind{p1, p2, p3}, (j+fi+i1)%3, []c03ArgCand{c1, c2, c3})
					}
				}
			}
		}
	}
	return out
}

// ------------------------------------------------------------------------------------------------
// shadow cases

func c03ShadowCases() []c03Case {
	var out []c03Case
	add := func(id string, lines ...string) {
		out = append(out, c03Case{Grp: "shadow", Shadow: id, Prog: "  " + strings.Join(lines, "\n  ")})
	}
	for _, op := range []string{"=", ":=", "+="} {
		tag := map[string]string{"=": "set", ":=": "def", "+=": "add"}[op]
		add("valscalar-"+tag, "XV "+op+" 5", "return XV")
		add("valscalar-nested-"+tag, "if 1 < 2 {", "  XV "+op+" 5", "}", "return XV")
		add("valstring-"+tag, "XT "+op+" \"loc\"", "return XT")
		add("ptrscalar-"+tag, "XP "+op+" 5", "return XP")
		add("func-"+tag, "XF "+op+" 5", "return XF()")
		add("structptr-"+tag, "XS "+op+" 5", "return XS.I8")
		add("map-"+tag, "XM "+op+" 5", "return XM[\"k\"]")
		add("object-"+tag, "XO "+op+" 5", "return XO.R1(3)")
	}
	add("valscalar-copy", "t = XV", "XV = t + 1", "return XV")
	add("valscalar-from-local", "t = 5", "XV = t", "return XV")
	add("ptrscalar-read", "return XP")
	add("local-unrelated", "y = 5", "return XV")
	add("local-then-field", "XSI8 = 5", "return XS.I8")
	add("func-as-local-call", "y = 5", "return XF()")
	add("mapkey-local-vs-injected", "XV = 5", "return MIint8[XV]")
	// a name that is a local first and gets injected while the rule is running (by an injected function
	// that adds it to the data context): from then on it designates the injected object
	add("late-inject-read", "LZ = 3", "lateAdd()", "return LZ")
	add("late-inject-arg", "LZ = 3", "lateAdd()", "return XID(LZ)")
	add("late-inject-rhs", "LZ = 3", "lateAdd()", "t = LZ + 1", "return t")
	return out
}

// ------------------------------------------------------------------------------------------------
// oracles

// c03RelDesc names the conversion the assigned value needs: "<class>-same" (identical kind),
// "<class>-widen" (same class, other kind, no narrower), "<class>-narrow", or just the source class
// for a cross-class conversion.
func c03RelDesc(a ref.Val, target ref.Kind) string {
	if a.K == target {
		return a.K.Class().String() + "-same"
	}
	if a.K.Class() != target.Class() {
		return a.K.Class().String()
	}
	if a.K.Bits() <= target.Bits() {
		return a.K.Class().String() + "-widen"
	}
	return a.K.Class().String() + "-narrow"
}

func c03Describe(cs *c03Case) string {
	var sb strings.Builder
	fmt.Fprintf(&sb, "program:\n%s\n", gx.RuleText(cs.Name, cs.Prog))
	switch cs.Grp {
	case "data":
		fmt.Fprintf(&sb, "host objects: ref.NewWorld() (location %s, kind %s)", cs.Loc, cs.Target)
		if cs.Src == "inj" && cs.SrcVal != nil {
			fmt.Fprintf(&sb, "; V = %s", cs.SrcVal.Repr())
		}
		if cs.KeyInj != nil {
			fmt.Fprintf(&sb, "; KV = %s", cs.KeyInj.Repr())
		}
	case "call":
		fmt.Fprintf(&sb, "callee parameters %v, %d result(s), form %s", cs.Params, cs.NRes, cs.Form)
		for i, a := range cs.Args {
			if a.Src == "inj" {
				fmt.Fprintf(&sb, "; a%d = %s", i, a.Val.Repr())
			}
		}
	}
	return sb.String()
}

func c03PanicFinding(cs *c03Case, what string, p interface{}) hx.Finding {
	msg := fmt.Sprint(p)
	if i := strings.Index(msg, "\n"); i >= 0 {
		msg = msg[:i]
	}
	return hx.Finding{Sig: "c03:panic-escapes:" + what, Msg: fmt.Sprintf("a panic escaped the execute call: %s\n%s", msg, c03Describe(cs))}
}

func errText(err error) string {
	if err == nil {
		return "<nil>"
	}
	s := strings.Join(strings.Fields(err.Error()), " ")
	if i := strings.Index(s, " goroutine "); i >= 0 {
		s = s[:i] // drop the stack gengine appends to recovered panics
	}
	if len(s) > 400 {
		s = s[:400] + "..."
	}
	return s
}

// without returns the differences that do not concern the given locations.
func c03Without(ds []string, locs ...string) []string {
	var out []string
next:
	for _, d := range ds {
		for _, l := range locs {
			if l != "" && strings.HasPrefix(d, l+": ") {
				continue next
			}
		}
		out = append(out, d)
	}
	return out
}

func c03OpName(op string) string {
	switch op {
	case "=":
		return "store"
	case "+=":
		return "addassign"
	}
	return "read"
}

// c03JudgeData runs one data case; judged tells whether the statement covers it.
func c03JudgeData(cs *c03Case, src *builder.RuleBuilder) (fs []hx.Finding, judged bool) {
	cs.why = ""
	w := ref.NewWorld()
	inj := w.Inject()
	if cs.Src == "inj" {
		inj["V"] = cs.SrcVal.Go()
	}
	if cs.KeyInj != nil {
		inj["KV"] = cs.KeyInj.Go()
	}
	target := ref.KindByName(cs.Target)
	before := w.Snapshot()
	val, has, err, pan := gx.RunRule(src, cs.Name, inj)
	after := w.Snapshot()
	c03Trace(val, has, err, pan, append([]string{}, ref.DiffSnapshots(before, after)...))
	opn := c03OpName(cs.Op)
	if pan != nil {
		cs.why = "panic-escaped"
		return []hx.Finding{c03PanicFinding(cs, opn+":"+cs.PClass, pan)}, false
	}
	cur, present := before[cs.Loc]
	if !present {
		cur = ref.Zero(target)
	}
	if cs.Op == "read" {
		judged = cs.ReadJudged && cs.KeyOK
		if !cs.ReadJudged {
			cs.why = "read-of-pointer-scalar"
		} else if !cs.KeyOK {
			cs.why = "key-variable-of-other-kind"
		}
		if ds := ref.DiffSnapshots(before, after); len(ds) > 0 {
			fs = append(fs, hx.Finding{Sig: "c03:collateral:read:" + cs.PClass,
				Msg: fmt.Sprintf("reading %s changed host data: %s\n%s", cs.Expr, strings.Join(ds, "; "), c03Describe(cs))})
		}
		if !judged {
			return fs, false
		}
		sig := fmt.Sprintf("c03:read:%s:%s:", cs.PClass, cs.Target)
		if cs.KeyConv {
			sig = fmt.Sprintf("c03:read:%s:key:", cs.PClass)
		}
		switch {
		case err != nil:
			fs = append(fs, hx.Finding{Sig: sig + "error", Msg: fmt.Sprintf("reading %s (holds %s) failed: %s\n%s", cs.Expr, cur.Repr(), errText(err), c03Describe(cs))})
		case !has:
			fs = append(fs, hx.Finding{Sig: sig + "no-result", Msg: fmt.Sprintf("`return %s` left no entry in the result map\n%s", cs.Expr, c03Describe(cs))})
		case ref.ReprGo(val) != cur.Repr():
			sym := "wrong-value"
			if got, ok := ref.FromGo(val); !ok || got.K != target {
				sym = "wrong-type"
			}
			fs = append(fs, hx.Finding{Sig: sig + sym, Msg: fmt.Sprintf("reading %s: want %s, got %s\n%s", cs.Expr, cur.Repr(), ref.ReprGo(val), c03Describe(cs))})
		}
		return fs, true
	}

	// stores
	a := *cs.SrcVal
	okSum, anyInt := true, false
	if cs.Op == "+=" {
		a, anyInt, okSum = ref.AddAssign(cur, *cs.SrcVal)
	}
	judged = cs.Settable && cs.KeyOK && okSum && ref.Representable(a, target)
	switch {
	case !cs.Settable:
		cs.why = "not-settable-through-value"
	case !cs.KeyOK:
		cs.why = "key-variable-of-other-kind"
	case cs.Op == "+=" && !cs.ReadJudged:
		// read-modify-write of a location whose plain read the statement does not define (pointer scalar)
		judged = false
		cs.why = "addassign-on-pointer-scalar"
	case !okSum:
		cs.why = "sum-undefined-or-wraps"
	case !ref.Representable(a, target) && a.K.Numeric() && target.Numeric():
		cs.why = "value-not-representable"
	case !ref.Representable(a, target):
		cs.why = "string-bool-class-mismatch"
	case target.Numeric() && (a.K.Class() != target.Class() || anyInt) && !cs.CrossOK:
		judged = false
		cs.why = "cross-class-into-container-element"
	}
	if !judged {
		// nothing but the assigned location may change
		if ds := c03Without(ref.DiffSnapshots(before, after), cs.Loc, cs.LenLoc); len(ds) > 0 {
			fs = append(fs, hx.Finding{Sig: "c03:collateral:" + opn + ":" + cs.PClass,
				Msg: fmt.Sprintf("`%s %s ...` changed other host data: %s\n%s", cs.Expr, cs.Op, strings.Join(ds, "; "), c03Describe(cs))})
		}
		return fs, false
	}
	want := ref.Convert(a, target)
	exp := make(map[string]ref.Val, len(before)+1)
	for k, v := range before {
		exp[k] = v
	}
	exp[cs.Loc] = want
	if !present && cs.LenLoc != "" {
		exp[cs.LenLoc] = ref.IntVal(ref.KInt, before[cs.LenLoc].I+1)
	}
	sig := fmt.Sprintf("c03:%s:%s:%s-from-%s:", opn, cs.PClass, cs.Target, c03RelDesc(a, target))
	if cs.KeyConv {
		// sources are of the element's own kind here: a failure concerns the key, whatever the element kind
		sig = fmt.Sprintf("c03:%s:%s:key:", opn, cs.PClass)
	}
	what := fmt.Sprintf("`%s %s <%s>` (location held %s, assigned value %s, representable in %s)", cs.Expr, cs.Op, cs.SrcVal.Repr(), cur.Repr(), a.Repr(), cs.Target)
	ds := ref.DiffSnapshots(exp, after)
	if err != nil {
		fs = append(fs, hx.Finding{Sig: sig + "error", Msg: fmt.Sprintf("%s failed: %s\nwant %s = %s afterwards; differences: %s\n%s", what, errText(err), cs.Loc, want.Repr(), strings.Join(ds, "; "), c03Describe(cs))})
		return fs, true
	}
	if at := c03Only(ds, cs.Loc, cs.LenLoc); len(at) > 0 {
		fs = append(fs, hx.Finding{Sig: sig + "wrong-value", Msg: fmt.Sprintf("%s returned no error but the host observes: %s\n%s", what, strings.Join(at, "; "), c03Describe(cs))})
	}
	if other := c03Without(ds, cs.Loc, cs.LenLoc); len(other) > 0 {
		fs = append(fs, hx.Finding{Sig: "c03:collateral:" + opn + ":" + cs.PClass, Msg: fmt.Sprintf("%s changed other host data: %s\n%s", what, strings.Join(other, "; "), c03Describe(cs))})
	}
	return fs, true
}

func c03Only(ds []string, locs ...string) []string {
	var out []string
	for _, d := range ds {
		for _, l := range locs {
			if l != "" && strings.HasPrefix(d, l+": ") {
				out = append(out, d)
			}
		}
	}
	return out
}

func c03JudgeCall(cs *c03Case, src *builder.RuleBuilder) (fs []hx.Finding, judged bool) {
	l := &c03Log{}
	var ks []ref.Kind
	for _, p := range cs.Params {
		ks = append(ks, ref.KindByName(p))
	}
	set := newCallee(ks, l)
	inj := c03Nest()
	inj["o"], inj["v"], inj["h"] = set.Obj, set.Val, set.Holder
	inj["f0"], inj["f1"], inj["f2"] = set.F[0], set.F[1], set.F[2]
	judged = cs.Form != "threeD"
	cs.why = ""
	if !judged {
		cs.why = "pointer-method-of-struct-valued-field"
	}
	for i, a := range cs.Args {
		if a.Src == "inj" {
			inj[fmt.Sprintf("a%d", i)] = a.Val.Go()
		}
		if !ref.Representable(a.Val, ks[i]) {
			judged = false
			if cs.why == "" {
				cs.why = "argument-not-representable-or-class-mismatch"
			}
		}
	}
	val, has, err, pan := gx.RunRule(src, cs.Name, inj)
	c03Trace(val, has, err, pan, nil)
	if c03Verbose {
		fmt.Printf("observed: callee log %+v\n", l.Calls)
	}
	if pan != nil {
		cs.why = "panic-escaped"
		return []hx.Finding{c03PanicFinding(cs, "call:"+cs.Form, pan)}, false
	}
	if !judged {
		return nil, false
	}
	sig := "c03:call:" + cs.Form + ":"
	var wantArgs []string
	for i, a := range cs.Args {
		wantArgs = append(wantArgs, ref.Convert(a.Val, ks[i]).Repr())
	}
	wantCall := fmt.Sprintf("R%d(%s)", cs.NRes, strings.Join(wantArgs, ", "))
	var gotCalls []string
	for _, c := range l.Calls {
		var as []string
		for _, x := range c.Args {
			as = append(as, ref.ReprGo(x))
		}
		gotCalls = append(gotCalls, fmt.Sprintf("%s(%s)", c.Name, strings.Join(as, ", ")))
	}
	if err != nil {
		fs = append(fs, hx.Finding{Sig: sig + "error:" + c03ArgSig(cs, ks, -1), Msg: fmt.Sprintf("the call failed although every argument is representable in its parameter type: %s\nwant callee to receive %s; it received %v\n%s", errText(err), wantCall, gotCalls, c03Describe(cs))})
		return fs, true
	}
	if len(gotCalls) != 1 || gotCalls[0] != wantCall {
		bad := -1
		if len(l.Calls) == 1 && len(l.Calls[0].Args) == len(wantArgs) {
			for i, x := range l.Calls[0].Args {
				if ref.ReprGo(x) != wantArgs[i] {
					bad = i
					break
				}
			}
		}
		fs = append(fs, hx.Finding{Sig: sig + "wrong-args:" + c03ArgSig(cs, ks, bad), Msg: fmt.Sprintf("callee must receive exactly %s, it received %v\n%s", wantCall, gotCalls, c03Describe(cs))})
	}
	if cs.NRes > 0 {
		marker := c03Marker1[len(ks)]
		if cs.NRes == 2 {
			marker = c03Marker2[len(ks)]
		}
		if !has || ref.ReprGo(val) != ref.ReprGo(marker) {
			got := "(no entry)"
			if has {
				got = ref.ReprGo(val)
			}
			fs = append(fs, hx.Finding{Sig: fmt.Sprintf("%sresult:%d-results", sig, cs.NRes), Msg: fmt.Sprintf("the call must yield its first result %s, the rule returned %s\n%s", ref.ReprGo(marker), got, c03Describe(cs))})
		}
	}
	return fs, true
}

// c03ArgSig: "<param kind>-from-<src form>-<rel>" of argument i (the first argument if i < 0).
func c03ArgSig(cs *c03Case, ks []ref.Kind, i int) string {
	if i < 0 {
		if len(cs.Args) != 1 {
			return fmt.Sprintf("%d-params", len(cs.Args))
		}
		i = 0
	}
	return fmt.Sprintf("%s-from-%s-%s", ks[i], cs.Args[i].Src, c03RelDesc(cs.Args[i].Val, ks[i]))
}

type c03ShadowObj struct{ N int }

func (o *c03ShadowObj) R1(x int) int { o.N += x; return 88 }

func c03JudgeShadow(cs *c03Case, src *builder.RuleBuilder) (fs []hx.Finding, judged bool) {
	w := ref.NewWorld()
	inj := w.Inject()
	xp := new(int32)
	*xp = 7
	calls := 0
	xs := w.Get("S").(*ref.Outer)
	xm := map[string]int8{"k": 61}
	xo := &c03ShadowObj{}
	inj["XV"] = int64(7)
	inj["XT"] = "inj"
	inj["XP"] = xp
	inj["XF"] = func() int { calls++; return 77 }
	inj["XS"] = xs
	inj["XM"] = xm
	inj["XO"] = xo
	var runDc *context.DataContext
	inj["__withdc"] = func(dc *context.DataContext) { runDc = dc }
	inj["lateAdd"] = func() { runDc.Add("LZ", int64(7)) }
	inj["XID"] = func(x int64) int64 { return x }
	before := w.Snapshot()
	val, has, err, pan := gx.RunRule(src, cs.Name, inj)
	after := w.Snapshot()
	c03Trace(val, has, err, pan, append([]string{}, ref.DiffSnapshots(before, after)...))
	if pan != nil {
		return []hx.Finding{c03PanicFinding(cs, "shadow:"+cs.Shadow, pan)}, false
	}
	kind := cs.Shadow
	if i := strings.LastIndex(kind, "-"); i >= 0 && (strings.HasSuffix(kind, "-set") || strings.HasSuffix(kind, "-def") || strings.HasSuffix(kind, "-add")) {
		kind = kind[:i]
	}
	sig := "c03:shadow:" + kind + ":"
	bad := func(sym, format string, a ...interface{}) {
		fs = append(fs, hx.Finding{Sig: sig + sym, Msg: fmt.Sprintf(format, a...) + "\n" + c03Describe(cs) +
			"\ninjected: XV=int64(7) XT=\"inj\" XP=&int32(7) XF=func() int{77} XS=*Outer XM=map[string]int8{k:61} XO=object with R1(int) int{88}"})
	}
	if ds := ref.DiffSnapshots(before, after); len(ds) > 0 {
		bad("collateral", "host data changed: %s", strings.Join(ds, "; "))
	}
	if xm["k"] != 61 || len(xm) != 1 {
		bad("collateral", "the injected map XM changed: %v", xm)
	}
	// A failing assignment (error) never makes a name refer to something else: accepted. Without an
	// error, everything read / called after the assignment must still be the injected object.
	expectVal := func(want interface{}) {
		if err != nil {
			return
		}
		if !has || ref.ReprGo(val) != ref.ReprGo(want) {
			got := "(no entry)"
			if has {
				got = ref.ReprGo(val)
			}
			bad("not-injected-object", "the injected name must still designate the injected object: want %s, the rule returned %s", ref.ReprGo(want), got)
		}
	}
	switch kind {
	case "valscalar", "valscalar-nested", "valscalar-copy", "valscalar-from-local", "local-unrelated":
		expectVal(int64(7))
	case "valstring":
		expectVal("inj")
	case "ptrscalar":
		// the store goes through the injected pointer (`=`/`:=`); `+=` needs the pointer's value and is
		// not covered here. The name read afterwards is the injected pointer itself.
		if err == nil {
			if p, ok := val.(*int32); !has || !ok || p != xp {
				bad("not-injected-object", "`return XP` must yield the injected pointer, got %T", val)
			}
			if *xp != 5 {
				bad("store-lost", "`XP = 5` returned no error but the host variable holds %d", *xp)
			}
		} else if strings.HasSuffix(cs.Shadow, "-set") || strings.HasSuffix(cs.Shadow, "-def") {
			bad("error", "assigning 5 through the injected *int32 failed: %s", errText(err))
		}
	case "ptrscalar-read":
		if p, ok := val.(*int32); err != nil || !has || !ok || p != xp {
			bad("not-injected-object", "`return XP` must yield the injected pointer, got %T (err %s)", val, errText(err))
		}
	case "func", "func-as-local-call":
		expectVal(int(77))
		if err == nil && calls != 1 {
			bad("not-injected-object", "the injected function was called %d times", calls)
		}
	case "structptr", "local-then-field":
		expectVal(xs.I8)
	case "map":
		expectVal(int8(61))
	case "object":
		expectVal(int(88))
		if err == nil && xo.N != 3 {
			bad("not-injected-object", "the injected object's method was not called (N=%d)", xo.N)
		}
	case "late-inject-read", "late-inject-arg":
		expectVal(int64(7))
	case "late-inject-rhs":
		expectVal(int64(8))
	case "mapkey-local-vs-injected":
		// XV is injected (7): MIint8[XV] is a missing key -> zero value
		expectVal(int8(0))
	default:
		vsched.InternalError("c03: unknown shadow case %s", cs.Shadow)
	}
	return fs, true
}

func c03Judge(cs *c03Case, src *builder.RuleBuilder) ([]hx.Finding, bool) {
	switch cs.Grp {
	case "data":
		return c03JudgeData(cs, src)
	case "call":
		return c03JudgeCall(cs, src)
	case "shadow":
		return c03JudgeShadow(cs, src)
	}
	vsched.InternalError("c03: unknown case group %q", cs.Grp)
	return nil, false
}

func c03AllCases(thorough bool) []c03Case {
	var all []c03Case
	all = append(all, c03ShadowCases()...)
	all = append(all, c03DataCases(thorough)...)
	all = append(all, c03CallCases(thorough)...)
	for i := range all {
		all[i].Name = fmt.Sprintf("c%d", i)
	}
	return all
}

// c03Verbose makes the oracles print what they observed (set by --replay).
var c03Verbose bool

func c03Trace(val interface{}, has bool, err error, pan interface{}, diffs []string) {
	if !c03Verbose {
		return
	}
	fmt.Printf("observed: error=%s\n", errText(err))
	if pan != nil {
		fmt.Printf("observed: panic=%v\n", pan)
	}
	if has {
		fmt.Printf("observed: rule returned %s\n", ref.ReprGo(val))
	} else {
		fmt.Println("observed: no entry in the result map")
	}
	if diffs != nil {
		fmt.Printf("observed: host data changes (want=before, got=after): %v\n", diffs)
	}
}

const c03Batch = 150

func c03Run(c *hx.Ctx) {
	if err := ref.DataSelfTest(); err != nil {
		vsched.InternalError("C03 reference self-test failed: %v", err)
	}
	all := c03AllCases(c.Thorough())
	if os.Getenv("VERIF_C03_DUMP") != "" {
		// debugging aid: list the enumerated programs instead of running them
		if c.Shard == 0 {
			for i := range all {
				raw, _ := json.Marshal(&all[i])
				fmt.Fprintln(os.Stderr, string(raw))
			}
		}
		return
	}
	var mine []*c03Case
	for i := range all {
		if c.Mine(i / c03Batch) {
			mine = append(mine, &all[i])
		}
	}
	for b := 0; b < len(mine); b += c03Batch {
		if c.Expired() {
			c.Res.Capped = append(c.Res.Capped, "time budget")
			break
		}
		batch := mine[b:minInt(b+c03Batch, len(mine))]
		var sb strings.Builder
		for _, cs := range batch {
			sb.WriteString(gx.RuleText(cs.Name, cs.Prog))
		}
		src, err := gx.Compile(sb.String())
		if err != nil {
			// find the offending program: generated texts must compile
			for _, cs := range batch {
				if _, e := gx.Compile(gx.RuleText(cs.Name, cs.Prog)); e != nil {
					vsched.InternalError("C03 generated program does not compile: %v\n%s", e, gx.RuleText(cs.Name, cs.Prog))
				}
			}
			vsched.InternalError("C03 batch does not compile although every program does: %v", err)
		}
		c.Res.Configs++
		for _, cs := range batch {
			fs, judged := c03Judge(cs, src)
			c.Res.Execs++
			if judged {
				c.Res.AddExtra("cases", 1)
				c.Res.AddExtra("judged-"+cs.Grp, 1)
				c.Res.Sample(cs)
			} else {
				c.Res.AddExtra("unjudged", 1)
				c.Res.AddExtra("unjudged:"+cs.why, 1)
			}
			if len(fs) > 0 {
				c.Res.Report("C03", "case", cs, nil, fs)
			}
		}
	}
}

func c03Replay(v *hx.Violation) []hx.Finding {
	var cs c03Case
	if err := json.Unmarshal(v.Cfg, &cs); err != nil {
		return []hx.Finding{{Sig: "c03:replay", Msg: "cannot decode the stored case: " + err.Error()}}
	}
	src, err := gx.Compile(gx.RuleText(cs.Name, cs.Prog))
	if err != nil {
		return []hx.Finding{{Sig: "c03:replay", Msg: "the stored program does not compile: " + err.Error()}}
	}
	fmt.Println(c03Describe(&cs))
	c03Verbose = true
	fs, judged := c03Judge(&cs, src)
	fmt.Printf("judged=%v\n", judged)
	sort.Slice(fs, func(i, j int) bool { return fs[i].Sig < fs[j].Sig })
	return fs
}

func init() {
	hx.Register(&hx.Prop{
		ID:          "C03",
		Workers:     func(string) int { return 16 },
		BudgetQuick: 300 * time.Second,
		BudgetThor:  20 * time.Minute,
		Kind:        "cases",
		Rule: "one program per (access path x target kind x source x boundary value x {read, =, +=}): paths S.F, S.In.F, S.Nv.F, value-injected SV.F, pointer scalar P, map[string]/map[int]/map[int64] elements with literal / missing / local-variable / injected-variable keys, slice and array elements with literal / variable indexes, every container injected by pointer and by value; 14 target kinds; sources integer/real/string/bool literal, locals, injected values of all 12 numeric kinds; values = edges of target and source kind (0, 1, -1, min, max, min-1, max+1, 2^24(+1), 2^53(+1), max float) as far as the source can hold them; " +
			"plus calls of functions / methods (pointer and value receivers) / three-level methods with 1..3 parameters over {int,int8,uint16,uint64,float32,float64,string,bool} x argument sources {literal, local, injected value of every numeric kind, nested call, arithmetic expression} x 0/1/2 results; plus name-shadowing programs (a local assigned under an injected name; a name that is a local first and is injected while the rule runs). " +
			"Judged (extra.cases): within-class stores everywhere, cross-class stores into struct fields and pointer scalars, representable values only, reads incl. missing keys, calls whose arguments are representable in the parameter types; host objects are compared location by location before/after. extra.unjudged: programs outside the statement (only panic-escape and collateral changes are recorded). Plus two-level reads and writes across a re-pointed pointer field (by a method of the injected object inside the rule, and by the host between two calls on one data context). Companion under concurrency: the same call sites evaluated by two overlapping pool requests (the compiled rule tree is shared by all instances), every schedule with <=2 (3) deviations: every injected function must receive its own request's arguments",
		Assume: []string{"64-bit int/uint on the host", "injected functions terminate"},
		Run: func(c *hx.Ctx) {
			c03Run(c)
			c03Repoint(c)
			c03Concurrent(c)
		},
		ReplayCase: func(v *hx.Violation) []hx.Finding {
			if v.Scenario == "repoint" {
				tmp := &hx.Ctx{Prop: "C03", Tier: "quick", NShards: 1, Res: &hx.Result{}}
				c03Repoint(tmp)
				var fs []hx.Finding
				for _, x := range tmp.Res.Violations {
					fs = append(fs, hx.Finding{Sig: x.Sig, Msg: x.Msg})
				}
				return fs
			}
			return c03Replay(v)
		},
		Rebuild: rebuildPool,
	})
}

// c03Concurrent: "calling an injected function passes the arguments positionally" must also hold
// when the same call site is evaluated by two requests at once - all engine instances of a pool share
// one compiled rule tree. The pool request scenario of C06 is explored with the argument oracle only.
func c03Concurrent(c *hx.Ctx) {
	with, without := reqSpec{Mode: modeOK, Other: true}, reqSpec{Mode: modeOK}
	i := 0
	for _, meth := range []string{"Execute", "ExecuteConcurrent", "ExecuteRulesWithSpecifiedEM"} {
		for _, clients := range [][][]reqSpec{{{with}, {without}}, {{with, without}, {without, with}}} {
			cfg := poolCfg{Prop: "C03", Min: 1, Max: 2, EM: engine.SortModel, Method: meth, Clients: clients}
			b := 2
			if c.Thorough() && len(clients[0]) == 1 {
				b = 3 // one request per client; the 2 x 2 history stays at 2 (bound 3 does not finish in 15 minutes)
			}
			ec := hx.ExploreCfg{Bound: b, Delay: true, Prune: true, Deadline: c.Deadline}
			exploreShared(c, "C03", i, func() *hx.Scenario { return poolScenario(cfg) }, ec)
			i++
		}
	}
}

// ---- reads of a two-level path must follow a pointer field that is re-pointed ----
//
// "Reading a field ... of injected data yields its CURRENT Go value": S.In is a pointer field; a
// method of the injected object (or the host between two calls on the same data context) re-points
// it; every later read / write of S.In.F in the rule must reach the struct it points to now.

type rpInner struct{ F int64 }
type rpOuter struct {
	In  *rpInner
	Alt *rpInner
}

func (o *rpOuter) Swap() { o.In, o.Alt = o.Alt, o.In }

func c03Repoint(c *hx.Ctx) {
	if c.Shard != 0 {
		return
	}
	type prog struct {
		Body    string
		Want    int64 // returned value
		InF     int64 // S.In.F afterwards (S.In as it is afterwards)
		AltF    int64
		Swapped bool
	}
	progs := []prog{
		{"x = S.In.F\n  S.Swap()\n  return S.In.F", 2, 2, 1, true},
		{"S.Swap()\n  return S.In.F", 2, 2, 1, true},
		{"x = S.In.F\n  y = S.In.F\n  S.Swap()\n  x = S.In.F\n  S.Swap()\n  return S.In.F", 1, 1, 2, false},
		{"x = S.In.F\n  S.Swap()\n  S.In.F = 9\n  return S.Alt.F", 1, 9, 1, true},
		{"x = S.In.F\n  S.Swap()\n  S.In.F += 10\n  return S.In.F", 12, 12, 1, true},
		{"x = S.In.F\n  S.Swap()\n  if S.In.F == 2 {\n    return 100\n  }\n  return 200", 100, 2, 1, true},
		{"for i = 0; i < 3; i += 1 {\n    x = S.In.F\n    S.Swap()\n  }\n  return S.In.F", 2, 2, 1, true},
	}
	var sb strings.Builder
	for i, p := range progs {
		sb.WriteString(gx.RuleText(fmt.Sprintf("rp%d", i), "  "+p.Body))
	}
	src := gx.MustCompile(sb.String())
	report := func(i int, p prog, msg string) {
		c.Res.Report("C03", "repoint", map[string]interface{}{"program": p.Body}, nil,
			[]hx.Finding{{Sig: "c03:read:two-level-path-after-repointing", Msg: msg + "\n  rule body:\n  " + p.Body + "\n  host: S = &{In: &{F:1}, Alt: &{F:2}}; S.Swap() exchanges the two pointers"}})
	}
	for i, p := range progs {
		S := &rpOuter{In: &rpInner{1}, Alt: &rpInner{2}}
		v, has, err, pan := gx.RunRule(src, fmt.Sprintf("rp%d", i), map[string]interface{}{"S": S})
		c.Res.Execs++
		c.Res.AddExtra("cases", 1)
		switch {
		case pan != nil || err != nil:
			report(i, p, fmt.Sprintf("the rule failed: err=%v panic=%v", err, pan))
		case !has || v != interface{}(p.Want):
			report(i, p, fmt.Sprintf("the rule returned %v, the current value is %d", v, p.Want))
		case S.In.F != p.InF || S.Alt.F != p.AltF:
			report(i, p, fmt.Sprintf("host sees S.In.F=%d S.Alt.F=%d, expected %d / %d", S.In.F, S.Alt.F, p.InF, p.AltF))
		}
	}
	// the host re-points between two calls that use the SAME data context
	S := &rpOuter{In: &rpInner{1}, Alt: &rpInner{2}}
	rb := gx.Fresh(src, nil, map[string]interface{}{"S": S})
	rules := gx.MustCompile(gx.RuleText("rd", "  return S.In.F"))
	rb.Kc = rules.Kc
	g := engine.NewGengine()
	for call, want := range []int64{1, 2, 1} {
		err, pan := gx.CallGuarded(func() error { return g.Execute(rb, true) })
		res, _ := g.GetRulesResultMap()
		c.Res.Execs++
		if pan != nil || err != nil || res["rd"] != interface{}(want) {
			report(-1, prog{Body: "return S.In.F   (call " + fmt.Sprint(call+1) + " on the same data context; the host called S.Swap() between the calls)"}, fmt.Sprintf("call %d returned %v (err %v, panic %v), the current value is %d", call+1, res["rd"], err, pan, want))
		}
		S.Swap()
	}
}
