package main

import (
	"encoding/json"
	"fmt"
	"math"
	"sort"
	"strconv"
	"strings"
	"time"

	"github.com/bilibili/gengine/builder"
	"github.com/bilibili/gengine/verifrt/vsched"

	"verif/harness/gx"
	"verif/harness/hx"
	"verif/harness/ref"
)

// C01 - expression semantics.
//
// Enumerates rule TEXTS `rule "<name>" begin [locals] return <expr> end`, lets the real engine
// compile and execute each one and compares the observation (result-map entry, error, panic) with
// ref/expr.go, which parses the same token sequence with the precedence table of the property and
// evaluates it with plain Go arithmetic.
//
// A case is stored as its token list; atoms are written as specs:
//   lit:<text>          a literal exactly as it appears in the rule text
//   loc:<name>=<text>   a rule local, assigned from that literal before the return statement
//   inj:<name>          an injected Go value (table c01Inj)
//   meta:@name|@id|@desc|@sal
// Everything else (text, injected data, reference outcome) is derived from the stored case.

type c01Case struct {
	Phase string   `json:"phase"`
	Name  string   `json:"name"`
	Desc  *string  `json:"desc,omitempty"`
	Sal   *int64   `json:"sal,omitempty"`
	Toks  []string `json:"toks"`
	Class string   `json:"class"`
}

// ---- injected values ----

type c01InjEntry struct {
	N string
	V interface{}
}

var c01NegZero = math.Copysign(0, -1)

var c01Inj = []c01InjEntry{
	{"gi_m1", int(-1)}, {"gi_max", int(math.MaxInt64)},
	{"i8min", int8(math.MinInt8)}, {"i8max", int8(math.MaxInt8)},
	{"i16min", int16(math.MinInt16)}, {"i16max", int16(math.MaxInt16)},
	{"i32min", int32(math.MinInt32)}, {"i32max", int32(math.MaxInt32)},
	{"i64z", int64(0)}, {"i64one", int64(1)}, {"i64min", int64(math.MinInt64)}, {"i64max", int64(math.MaxInt64)},
	{"i64p53", int64(1 << 53)}, {"i64p53a", int64(1<<53 + 1)}, {"i64n53a", int64(-(1<<53 + 1))},
	{"gu_z", uint(0)}, {"gu_max", uint(math.MaxUint64)},
	{"u8max", uint8(math.MaxUint8)}, {"u16max", uint16(math.MaxUint16)}, {"u32max", uint32(math.MaxUint32)},
	{"u64z", uint64(0)}, {"u64one", uint64(1)}, {"u64p53", uint64(1 << 53)}, {"u64p53a", uint64(1<<53 + 1)},
	{"u64p63m", uint64(1<<63 - 1)}, {"u64p63", uint64(1 << 63)}, {"u64maxm", uint64(math.MaxUint64 - 1)}, {"u64max", uint64(math.MaxUint64)},
	{"f32half", float32(0.5)}, {"f32nz", float32(c01NegZero)}, {"f32p24", float32(1 << 24)}, {"f32max", float32(math.MaxFloat32)},
	{"f64z", float64(0)}, {"f64nz", c01NegZero}, {"f64half", float64(0.5)}, {"f64p53", float64(1 << 53)},
	{"f64p63", float64(1 << 63)}, {"f64p64", float64(1<<63) * 2}, {"f64big", float64(1e308)}, {"f64nbig", float64(-1e308)},
	{"f64inf", math.Inf(1)}, {"f64nan", math.NaN()},
	{"se", ""}, {"sa", "a"}, {"sb", "b"},
	{"bt", true}, {"bf", false},
}

// second valuation of the shape phase: injected Go ints / bools
var c01InjShape = []c01InjEntry{
	{"n0", int(7)}, {"n1", int(2)}, {"n2", int(5)}, {"n3", int(3)},
	{"q0", false}, {"q1", true}, {"q2", true}, {"q3", false},
}

var c01InjMap = func() map[string]interface{} {
	m := map[string]interface{}{}
	for _, e := range c01Inj {
		m[e.N] = e.V
	}
	for _, e := range c01InjShape {
		m[e.N] = e.V
	}
	return m
}()

var c01Literals = []string{
	"0", "1", "-1", "7", "9007199254740992", "9007199254740993", "9223372036854775807", "-9223372036854775808",
	"0.0", "-0.0", "0.5", "-1.5", "1e3", "25e-1", ".25", "2.e1", "9007199254740993.0", "1.5e300",
	`""`, `"a"`, `"b"`, `"ab"`, `"10"`, `"9"`,
	"true", "false",
}

var c01Locals = []string{"li=7", "lf=2.5", `ls="a"`, "lb=true", "lneg=-3", "lbig=9007199254740993"}

func c01Alphabet() []string {
	var a []string
	for _, l := range c01Literals {
		a = append(a, "lit:"+l)
	}
	for _, l := range c01Locals {
		a = append(a, "loc:"+l)
	}
	for _, e := range c01Inj {
		a = append(a, "inj:"+e.N)
	}
	return a
}

// representatives for the two-operator chains: one (interesting) value per Go kind + literals/locals
var c01ChainReps = []string{
	"lit:3", "lit:-2", "lit:2.5", "loc:li=7", "loc:lf=2.5",
	"inj:gi_m1", "inj:i8min", "inj:i16max", "inj:i32min", "inj:i64min", "inj:i64p53a",
	"inj:gu_max", "inj:u8max", "inj:u16max", "inj:u32max", "inj:u64max", "inj:u64p63",
	"inj:f32half", "inj:f64half", "inj:f64p53", "inj:sa",
}

// ---- literal texts -> values (the DSL's literal forms: MINUS? INT, MINUS? REAL, "string", true/false) ----

func c01LitValue(text string) interface{} {
	switch {
	case strings.HasPrefix(text, `"`):
		if len(text) < 2 || !strings.HasSuffix(text, `"`) || strings.ContainsAny(text[1:len(text)-1], "\"\\") {
			vsched.InternalError("c01: unsupported string literal %s", text)
		}
		return text[1 : len(text)-1]
	case text == "true":
		return true
	case text == "false":
		return false
	case strings.ContainsAny(text, ".eE"):
		f, err := strconv.ParseFloat(text, 64)
		if err != nil {
			vsched.InternalError("c01: bad real literal %s", text)
		}
		return f
	}
	i, err := strconv.ParseInt(text, 10, 64)
	if err != nil {
		vsched.InternalError("c01: bad integer literal %s", text)
	}
	return i
}

// @id: "its name read as a decimal integer, 0 if it is not one". decided=false when the sentence does
// not settle the case (surrounding blanks, an explicit + sign, a value outside the 64-bit range).
func c01MetaID(name string) (id int64, decided bool) {
	s := name
	neg := false
	if strings.HasPrefix(s, "-") {
		neg = true
		s = s[1:]
	}
	digits := s != ""
	for _, r := range s {
		if r < '0' || r > '9' {
			digits = false
		}
	}
	if !digits {
		if strings.TrimSpace(name) != name || strings.HasPrefix(name, "+") {
			return 0, false
		}
		return 0, true
	}
	var v uint64
	for _, r := range s {
		d := uint64(r - '0')
		if v > (math.MaxUint64-d)/10 {
			return 0, false
		}
		v = v*10 + d
	}
	if neg {
		if v > 1<<63 {
			return 0, false
		}
		return int64(-v), true // two's complement: -(2^63) stays MinInt64
	}
	if v > math.MaxInt64 {
		return 0, false
	}
	return int64(v), true
}

// ---- building a program from a case ----

type c01Prog struct {
	cs      *c01Case
	text    string
	expr    string
	inject  map[string]interface{}
	leaves  []ref.XVal
	leafTxt []string
	tree    *ref.XNode
	exp     ref.XVal
	expErr  error  // nil | ref.ErrIllTyped | ref.ErrDivZero | ref.ErrUndecided
	noJudge string // non-empty: enumerate, do not judge
}

func c01IsPunct(t string) bool {
	return t == "(" || t == ")" || t == "!" || ref.XLevel(t) > 0
}

func c01Build(cs *c01Case) *c01Prog {
	p := &c01Prog{cs: cs, inject: map[string]interface{}{}}
	var toks []ref.XTok
	var parts []string
	var locals []string
	seenLoc := map[string]bool{}
	for _, t := range cs.Toks {
		if c01IsPunct(t) {
			toks = append(toks, ref.XOp(t))
			parts = append(parts, t)
			continue
		}
		var v interface{}
		var txt string
		switch {
		case strings.HasPrefix(t, "lit:"):
			txt = t[4:]
			v = c01LitValue(txt)
		case strings.HasPrefix(t, "loc:"):
			eq := strings.Index(t, "=")
			txt = t[4:eq]
			v = c01LitValue(t[eq+1:])
			if !seenLoc[txt] {
				seenLoc[txt] = true
				locals = append(locals, txt+" = "+t[eq+1:])
			}
		case strings.HasPrefix(t, "inj:"):
			txt = t[4:]
			var ok bool
			if v, ok = c01InjMap[txt]; !ok {
				vsched.InternalError("c01: unknown injected value %s", t)
			}
			p.inject[txt] = v
		case strings.HasPrefix(t, "meta:"):
			txt = t[5:]
			switch txt {
			case "@name":
				v = cs.Name
			case "@id":
				id, decided := c01MetaID(cs.Name)
				if !decided {
					p.noJudge = "the statement does not say what @id is for the name " + strconv.Quote(cs.Name)
				}
				v = id
			case "@desc":
				v = ""
				if cs.Desc != nil {
					v = *cs.Desc
				}
			case "@sal":
				v = int64(0)
				if cs.Sal != nil {
					v = *cs.Sal
				}
			default:
				vsched.InternalError("c01: unknown constant %s", t)
			}
		default:
			vsched.InternalError("c01: unknown token %q", t)
		}
		x, ok := ref.XFromGo(v)
		if !ok {
			vsched.InternalError("c01: unsupported value %T", v)
		}
		toks = append(toks, ref.XAtom(len(p.leaves)))
		p.leaves = append(p.leaves, x)
		p.leafTxt = append(p.leafTxt, txt)
		parts = append(parts, txt)
	}
	p.expr = strings.Join(parts, " ")
	tree, err := ref.XParse(toks)
	if err != nil {
		vsched.InternalError("c01: generator emitted a text outside the language: %s: %v", p.expr, err)
	}
	p.tree = tree
	p.exp, p.expErr = ref.XEval(tree, p.leaves)
	if p.expErr == ref.ErrUndecided && p.noJudge == "" {
		p.noJudge = "short-circuit evaluation is neither required nor forbidden"
	}

	var sb strings.Builder
	fmt.Fprintf(&sb, "rule \"%s\" ", cs.Name)
	if cs.Desc != nil {
		fmt.Fprintf(&sb, "\"%s\" ", *cs.Desc)
	}
	if cs.Sal != nil {
		fmt.Fprintf(&sb, "salience %d ", *cs.Sal)
	}
	sb.WriteString("begin\n")
	for _, l := range locals {
		sb.WriteString("  " + l + "\n")
	}
	sb.WriteString("  return " + p.expr + "\nend\n")
	p.text = sb.String()
	return p
}

func (p *c01Prog) describe() string {
	var inj []string
	for k := range p.inject {
		inj = append(inj, k)
	}
	sort.Strings(inj)
	for i, k := range inj {
		x, _ := ref.XFromGo(p.inject[k])
		inj[i] = k + "=" + x.String()
	}
	exp := "error (" + fmt.Sprint(p.expErr) + ")"
	if p.expErr == nil {
		exp = p.exp.String()
	}
	return fmt.Sprintf("program:\n%sinjected: %s\nreference reading: %s\nexpected: %s",
		p.text, strings.Join(inj, ", "), p.tree.Render(func(i int) string { return p.leafTxt[i] }), exp)
}

func c01Show(v interface{}) string {
	if v == nil {
		return "nil"
	}
	if x, ok := ref.XFromGo(v); ok {
		return x.String()
	}
	return fmt.Sprintf("%T(%v)", v, v)
}

// ---- the oracle ----

type c01Obs struct {
	built bool
	berr  error
	val   interface{}
	has   bool
	err   error
	pan   interface{}
}

func c01Observe(p *c01Prog) c01Obs {
	src, err := gx.Compile(p.text)
	if err != nil {
		return c01Obs{berr: err}
	}
	return c01Run(p, src)
}

func c01Run(p *c01Prog, src *builder.RuleBuilder) c01Obs {
	// fresh injected map per execution (scalars only, nothing aliased)
	inj := make(map[string]interface{}, len(p.inject))
	for k, v := range p.inject {
		inj[k] = v
	}
	o := c01Obs{built: true}
	o.val, o.has, o.err, o.pan = gx.RunRule(src, p.cs.Name, inj)
	return o
}

func c01Judge(p *c01Prog, o c01Obs) []hx.Finding {
	if p.noJudge != "" {
		return nil
	}
	cl := p.cs.Class
	mk := func(sig, what string) []hx.Finding {
		return []hx.Finding{{Sig: sig, Msg: what + "\n" + p.describe()}}
	}
	if !o.built {
		if p.expErr != nil {
			return nil // rejected when the rule set is built: an error, and never a value
		}
		return mk("c01:build-reject:"+cl, fmt.Sprintf("a well-typed expression is rejected when the rule is built: %v", o.berr))
	}
	if o.pan != nil {
		return mk("c01:panic:"+cl, fmt.Sprintf("the execute call panicked instead of returning: %v", o.pan))
	}
	if p.expErr != nil {
		switch {
		case o.err == nil && o.has:
			return mk("c01:no-error:"+cl, "the expression must fail, but no error was returned and the rule yielded "+c01Show(o.val))
		case o.err == nil:
			return mk("c01:no-error-no-value:"+cl, "the expression must fail, but no error was returned (and no value recorded)")
		case o.has && o.val == nil:
			return mk("c01:failed-rule-leaves-entry", "the rule failed with an error but still has an entry (nil) in the result map; error: "+c01Short(o.err))
		case o.has:
			return mk("c01:failed-rule-leaves-value", "the rule failed with an error but the result map holds "+c01Show(o.val)+"; error: "+c01Short(o.err))
		}
		return nil
	}
	want := p.exp.Go()
	switch {
	case o.err != nil:
		return mk("c01:unexpected-error:"+cl, "a well-typed expression failed: "+c01Short(o.err))
	case !o.has:
		return mk("c01:no-entry:"+cl, "no error, but the rule's value is missing from the result map")
	case ref.SameGo(want, o.val):
		return nil
	case fmt.Sprintf("%T", want) != fmt.Sprintf("%T", o.val):
		return mk("c01:wrong-type:"+cl, "actual: "+c01Show(o.val))
	}
	return mk("c01:wrong-value:"+cl, "actual: "+c01Show(o.val))
}

func c01Short(err error) string {
	s := fmt.Sprint(err)
	if len(s) > 300 {
		s = s[:300] + "..."
	}
	return s
}

// ---- batching ----

const c01BatchSize = 150

type c01Emitter struct {
	c       *hx.Ctx
	batch   []*c01Case
	nBatch  int // number of full batches seen (sharding key)
	nSingle int // number of single-program builds seen (sharding key)
	nCases  int
	stop    bool
}

// add queues a case. alone: the text may be rejected by the rule builder (which would take the whole
// batch with it), so it is built on its own.
func (e *c01Emitter) add(cs *c01Case, alone bool) {
	if e.stop {
		return
	}
	e.nCases++
	if alone {
		e.nSingle++
		if e.c.Mine(e.nSingle) {
			cs.Name = c01Name(cs, 0)
			e.run([]*c01Case{cs})
		}
		return
	}
	e.batch = append(e.batch, cs)
	if len(e.batch) >= c01BatchSize {
		e.flush()
	}
}

func c01Name(cs *c01Case, i int) string {
	if cs.Name != "" {
		return cs.Name
	}
	return "r" + strconv.Itoa(i)
}

func (e *c01Emitter) flush() {
	b := e.batch
	e.batch = nil
	if len(b) == 0 || e.stop {
		return
	}
	e.nBatch++
	if !e.c.Mine(e.nBatch) {
		return
	}
	for i, cs := range b {
		cs.Name = c01Name(cs, i)
	}
	e.run(b)
}

func (e *c01Emitter) run(cases []*c01Case) {
	if e.c.Expired() {
		e.c.Res.Capped = append(e.c.Res.Capped, "time budget")
		e.stop = true
		return
	}
	progs := make([]*c01Prog, len(cases))
	for i, cs := range cases {
		progs[i] = c01Build(cs)
	}
	e.runProgs(progs)
}

func (e *c01Emitter) runProgs(progs []*c01Prog) {
	var sb strings.Builder
	for _, p := range progs {
		sb.WriteString(p.text)
	}
	src, err := gx.Compile(sb.String())
	if err != nil && len(progs) > 1 {
		// some text of the batch is rejected by the builder: find it by bisection
		e.c.Res.AddExtra("batch_bisections", 1)
		e.runProgs(progs[:len(progs)/2])
		e.runProgs(progs[len(progs)/2:])
		return
	}
	for _, p := range progs {
		var o c01Obs
		if err != nil {
			o = c01Obs{berr: err}
			e.c.Res.AddExtra("rejected_at_build", 1)
		} else {
			o = c01Run(p, src)
		}
		e.account(p, o)
	}
}

func (e *c01Emitter) account(p *c01Prog, o c01Obs) {
	r := e.c.Res
	r.Execs++
	r.AddExtra("cases", 1)
	r.AddExtra("phase_"+p.cs.Phase, 1)
	switch {
	case p.noJudge != "":
		r.AddExtra("not_judged", 1)
	case p.expErr != nil:
		r.AddExtra("expect_error", 1)
	default:
		r.AddExtra("expect_value", 1)
	}
	if r.Execs%997 == 1 {
		r.Sample(p.cs)
	}
	if fs := c01Judge(p, o); len(fs) > 0 {
		r.Report("C01", "case", p.cs, nil, fs)
	}
}

// ---- phase A: shapes ----

var c01Ops = []string{"*", "/", "+", "-", ">", "<", ">=", "<=", "==", "!=", "&&", "||"}

func c01Group(op string) string {
	switch {
	case op == "*" || op == "/":
		return "md"
	case op == "+" || op == "-":
		return "pm"
	case ref.XIsCompare(op):
		return "cmp"
	}
	return "logic"
}

type c01Iv struct{ a, b int } // operands a..b inclusive

// all laminar (well-nested) sets of operand intervals of length >= 2 over n operands, fewest first
func c01Bracketings(n int) [][]c01Iv {
	var ivs []c01Iv
	for l := 2; l <= n; l++ {
		for a := 0; a+l <= n; a++ {
			ivs = append(ivs, c01Iv{a, a + l - 1})
		}
	}
	cross := func(x, y c01Iv) bool {
		if x.b < y.a || y.b < x.a {
			return false
		}
		if (x.a <= y.a && y.b <= x.b) || (y.a <= x.a && x.b <= y.b) {
			return false
		}
		return true
	}
	var out [][]c01Iv
	for mask := 0; mask < 1<<len(ivs); mask++ {
		var set []c01Iv
		ok := true
		for i := range ivs {
			if mask&(1<<i) == 0 {
				continue
			}
			for _, s := range set {
				if cross(s, ivs[i]) {
					ok = false
				}
			}
			set = append(set, ivs[i])
		}
		if ok {
			out = append(out, set)
		}
	}
	sort.SliceStable(out, func(i, j int) bool { return len(out[i]) < len(out[j]) })
	return out
}

// what a subtree produces: 'n' number, 'b' boolean, 0 for a leaf (decided by its context)
func c01Produces(n *ref.XNode) byte {
	switch {
	case n.Op == "":
		return 0
	case n.Op == "()":
		return c01Produces(n.L)
	case n.Op == "!" || !ref.XIsArith(n.Op):
		return 'b'
	}
	return 'n'
}

// type-directed choice of leaf types from the reference tree
func c01AssignTypes(n *ref.XNode, req byte, types []byte) {
	switch {
	case n.Op == "":
		if req == 0 {
			req = 'n'
		}
		types[n.Leaf] = req
	case n.Op == "()" || n.Op == "!":
		c01AssignTypes(n.L, req, types)
	case ref.XIsArith(n.Op):
		c01AssignTypes(n.L, 'n', types)
		c01AssignTypes(n.R, 'n', types)
	case ref.XIsLogic(n.Op):
		c01AssignTypes(n.L, 'b', types)
		c01AssignTypes(n.R, 'b', types)
	default:
		t := byte('n')
		if c01Produces(n.L) == 'b' || c01Produces(n.R) == 'b' {
			t = 'b'
		}
		c01AssignTypes(n.L, t, types)
		c01AssignTypes(n.R, t, types)
	}
}

func c01ContainsNonMath(n *ref.XNode) bool {
	switch {
	case n.Op == "":
		return false
	case n.Op == "()":
		return c01ContainsNonMath(n.L)
	case n.Op == "!" || !ref.XIsArith(n.Op):
		return true
	}
	return c01ContainsNonMath(n.L) || c01ContainsNonMath(n.R)
}

// c01MayNotBuild: an arithmetic operator has an operand that is a negation or a parenthesised
// comparison / logic expression. Only used to decide batching (such a text is built on its own);
// the verdict never depends on it.
func c01MayNotBuild(n *ref.XNode) bool {
	switch {
	case n.Op == "":
		return false
	case n.Op == "()" || n.Op == "!":
		return c01MayNotBuild(n.L)
	}
	if ref.XIsArith(n.Op) && (c01ContainsNonMath(n.L) || c01ContainsNonMath(n.R)) {
		return true
	}
	return c01MayNotBuild(n.L) || c01MayNotBuild(n.R)
}

var c01PrimesLit = []string{"97", "13", "5", "2"}
var c01BoolsLit = []string{"true", "false", "false", "true"}

func c01PhaseA(k int, emit func(cs *c01Case, alone bool)) {
	{
		brs := c01Bracketings(k + 1)
		nOps := 1
		for i := 0; i < k; i++ {
			nOps *= len(c01Ops)
		}
		for code := 0; code < nOps; code++ {
			ops := make([]string, k)
			groups := map[string]bool{}
			for i, c := 0, code; i < k; i++ {
				ops[k-1-i] = c01Ops[c%len(c01Ops)]
				c /= len(c01Ops)
			}
			for _, o := range ops {
				groups[c01Group(o)] = true
			}
			var ln []string
			for _, l := range []string{"md", "pm", "cmp", "logic"} {
				if groups[l] {
					ln = append(ln, l)
				}
			}
			class := "shape:" + strings.Join(ln, "+")
			for _, br := range brs {
				c01ShapeTexts(k, ops, br, class, emit)
			}
		}
	}
}

func c01ShapeTexts(k int, ops []string, br []c01Iv, class string, emit func(cs *c01Case, alone bool)) {
	// skeleton: "(" / ")" / operator / "#i" for operand i
	var sk []string
	groupOpen := map[c01Iv]int{}
	for i := 0; i <= k; i++ {
		// longer intervals open first
		for l := k + 1; l >= 2; l-- {
			for _, iv := range br {
				if iv.a == i && iv.b-iv.a+1 == l {
					groupOpen[iv] = len(sk)
					sk = append(sk, "(")
				}
			}
		}
		sk = append(sk, "#"+strconv.Itoa(i))
		for l := 2; l <= k+1; l++ {
			for _, iv := range br {
				if iv.b == i && iv.b-iv.a+1 == l {
					sk = append(sk, ")")
				}
			}
		}
		if i < k {
			sk = append(sk, ops[i])
		}
	}
	toX := func(s []string) []ref.XTok {
		var t []ref.XTok
		for _, x := range s {
			if strings.HasPrefix(x, "#") {
				i, _ := strconv.Atoi(x[1:])
				t = append(t, ref.XAtom(i))
			} else {
				t = append(t, ref.XOp(x))
			}
		}
		return t
	}
	tree, err := ref.XParse(toX(sk))
	if err != nil {
		vsched.InternalError("c01: skeleton outside the language: %v: %v", sk, err)
	}
	types := make([]byte, k+1)
	c01AssignTypes(tree, 0, types)
	// positions that may carry a "!": boolean leaves and parenthesised groups producing a boolean
	var notAt []int
	for i, x := range sk {
		if strings.HasPrefix(x, "#") {
			li, _ := strconv.Atoi(x[1:])
			if types[li] == 'b' {
				notAt = append(notAt, i)
			}
		}
	}
	for _, iv := range br {
		open := groupOpen[iv]
		// the group's content is the token run up to its matching ")"
		depth, end := 0, -1
		for j := open; j < len(sk); j++ {
			if sk[j] == "(" {
				depth++
			} else if sk[j] == ")" {
				depth--
				if depth == 0 {
					end = j
					break
				}
			}
		}
		inner, err := ref.XParse(toX(sk[open+1 : end]))
		if err != nil {
			vsched.InternalError("c01: group outside the language: %v", sk[open+1:end])
		}
		if c01Produces(inner) == 'b' {
			notAt = append(notAt, open)
		}
	}
	sort.Ints(notAt)
	for mask := 0; mask < 1<<len(notAt); mask++ {
		neg := map[int]bool{}
		for b, at := range notAt {
			if mask&(1<<b) != 0 {
				neg[at] = true
			}
		}
		for val := 0; val < 2; val++ {
			var toks []string
			var xt []ref.XTok
			for i, x := range sk {
				if neg[i] {
					toks = append(toks, "!")
					xt = append(xt, ref.XOp("!"))
				}
				if !strings.HasPrefix(x, "#") {
					toks = append(toks, x)
					xt = append(xt, ref.XOp(x))
					continue
				}
				li, _ := strconv.Atoi(x[1:])
				xt = append(xt, ref.XAtom(li))
				switch {
				case val == 0 && types[li] == 'n':
					toks = append(toks, "lit:"+c01PrimesLit[li])
				case val == 0:
					toks = append(toks, "lit:"+c01BoolsLit[li])
				case types[li] == 'n':
					toks = append(toks, "inj:n"+strconv.Itoa(li))
				default:
					toks = append(toks, "inj:q"+strconv.Itoa(li))
				}
			}
			final, err := ref.XParse(xt)
			if err != nil {
				vsched.InternalError("c01: text outside the language: %v: %v", toks, err)
			}
			cl := class
			if mask != 0 {
				cl += "+not"
			}
			emit(&c01Case{Phase: "A" + strconv.Itoa(k), Toks: toks, Class: cl}, c01MayNotBuild(final))
		}
	}
}

// ---- phase B: operand kinds and boundary values ----

func c01AtomKind(spec string) ref.XKind {
	var v interface{}
	switch {
	case strings.HasPrefix(spec, "lit:"):
		v = c01LitValue(spec[4:])
	case strings.HasPrefix(spec, "loc:"):
		v = c01LitValue(spec[strings.Index(spec, "=")+1:])
	case strings.HasPrefix(spec, "inj:"):
		v = c01InjMap[spec[4:]]
	case spec == "meta:@name" || spec == "meta:@desc":
		v = ""
	default:
		v = int64(0)
	}
	x, _ := ref.XFromGo(v)
	return x.K
}

func c01OpName(op string) string {
	switch op {
	case "+":
		return "add"
	case "-":
		return "sub"
	case "*":
		return "mul"
	case "/":
		return "div"
	case "&&", "||":
		return "logic"
	}
	return "cmp"
}

// the clause of the statement that governs `a op b`
func c01Category(op string, a, b ref.XKind) string {
	num := func(k ref.XKind) bool { return k == ref.XInt || k == ref.XUint || k == ref.XFloat }
	switch {
	case ref.XIsLogic(op):
		if a == ref.XBool && b == ref.XBool {
			return "bool"
		}
		return "illtyped"
	case ref.XIsCompare(op):
		switch {
		case a == ref.XString && b == ref.XString:
			return "string"
		case a == ref.XBool && b == ref.XBool:
			if op == "==" || op == "!=" {
				return "bool"
			}
			return "illtyped"
		case num(a) && num(b):
			if a == ref.XFloat || b == ref.XFloat {
				return "float"
			}
			return "integer"
		}
		return "illtyped"
	}
	switch {
	case a == ref.XString && b == ref.XString:
		if op == "+" {
			return "string"
		}
		return "illtyped"
	case !num(a) || !num(b):
		return "illtyped"
	case a == ref.XFloat || b == ref.XFloat:
		return "float"
	case a == ref.XInt && b == ref.XInt:
		return "int-int"
	case a == ref.XUint && b == ref.XUint:
		return "uint-uint"
	}
	return "int-uint"
}

func c01PhaseB(emit func(cs *c01Case, alone bool)) {
	alpha := c01Alphabet()
	// atoms alone, parenthesised, negated
	for _, a := range alpha {
		k := c01AtomKind(a)
		cat := "illtyped"
		if k == ref.XBool {
			cat = "bool"
		}
		emit(&c01Case{Phase: "B", Toks: []string{a}, Class: "atom:" + k.String()}, false)
		emit(&c01Case{Phase: "B", Toks: []string{"(", a, ")"}, Class: "atom:" + k.String()}, false)
		emit(&c01Case{Phase: "B", Toks: []string{"!", a}, Class: "not:" + cat}, false)
		emit(&c01Case{Phase: "B", Toks: []string{"!", "(", a, ")"}, Class: "not:" + cat}, false)
		// negations and brackets directly nested in each other
		for _, toks := range [][]string{
			{"(", "(", a, ")", ")"},
			{"!", "(", "!", a, ")"},
			{"!", "(", "(", "!", a, ")", ")"},
			{"!", "(", "!", "(", a, ")", ")"},
			{"(", "!", "(", "!", a, ")", ")"},
			{"!", "(", "!", "(", "!", a, ")", ")"},
		} {
			emit(&c01Case{Phase: "B", Toks: toks, Class: "nest:" + cat}, false)
		}
	}
	// ... and around comparisons / logic
	for _, pair := range [][3]string{{"lit:1", "<", "lit:2"}, {"lit:2", "<", "lit:1"}, {"lit:true", "&&", "lit:false"}, {"lit:true", "||", "lit:false"}} {
		x, op, y := pair[0], pair[1], pair[2]
		for _, toks := range [][]string{
			{"!", "(", "!", "(", x, op, y, ")", ")"},
			{"!", "(", "(", "!", "(", x, op, y, ")", ")", ")"},
			{"!", "(", "!", "(", x, op, y, ")", ")", "&&", "lit:true"},
			{"lit:false", "||", "!", "(", "!", "(", x, op, y, ")", ")"},
		} {
			emit(&c01Case{Phase: "B", Toks: toks, Class: "nest:bool"}, false)
		}
	}
	for _, op := range c01Ops {
		for _, a := range alpha {
			for _, b := range alpha {
				cl := c01OpName(op) + ":" + c01Category(op, c01AtomKind(a), c01AtomKind(b))
				emit(&c01Case{Phase: "B", Toks: []string{a, op, b}, Class: cl}, false)
			}
		}
	}
}

func c01PhaseBChains(emit func(cs *c01Case, alone bool)) {
	arith := []string{"*", "/", "+", "-"}
	for _, o1 := range arith {
		for _, o2 := range arith {
			for _, a := range c01ChainReps {
				for _, b := range c01ChainReps {
					for _, c := range c01ChainReps {
						cl := "chain:" + c01AtomKind(a).String() + "-" + c01AtomKind(b).String() + "-" + c01AtomKind(c).String()
						emit(&c01Case{Phase: "Bchain", Toks: []string{a, o1, b, o2, c}, Class: cl}, false)
					}
				}
			}
		}
	}
}

// ---- phase C: metadata constants ----

var c01MetaNames = []string{"77", "abc", " 12 ", "-5", "9223372036854775808", "007", "0", "12abc", "3.5", "1e3", "2021-06-01", "0x10", "7 days"}

var c01MetaExprs = [][]string{
	{"meta:@name"}, {"meta:@id"}, {"meta:@desc"}, {"meta:@sal"},
	{"meta:@id", "+", "lit:1"},
	{"meta:@sal", "*", "lit:2"},
	{"meta:@id", "-", "meta:@sal"},
	{"meta:@sal", "/", "meta:@id"},
	{"lit:1", "+", "meta:@id", "*", "lit:2"},
	{"meta:@sal", "-", "lit:-3", "*", "meta:@sal"},
	{"meta:@id", "+", "lit:0.5"},
	{"meta:@id", "==", "lit:77"},
	{"meta:@id", "!=", "lit:0"},
	{"meta:@sal", "<", "lit:0"},
	{"meta:@id", ">", "meta:@sal"},
	{"meta:@sal", ">=", "lit:10", "||", "meta:@id", "<", "lit:0"},
	{"meta:@name", "==", `lit:"abc"`},
	{"meta:@name", "!=", `lit:"77"`},
	{"meta:@desc", "==", `lit:""`},
	{"meta:@name", "<", "meta:@desc"},
	{"meta:@name", "+", `lit:"-"`, "+", "meta:@desc"},
	{"meta:@desc", "+", "meta:@name"},
	{`lit:"x"`, "+", "meta:@name"},
	{"(", "meta:@name", "+", "meta:@desc", ")", "==", `lit:"abchello world"`},
	{"meta:@name", "+", "lit:1"},
	{"meta:@id", "+", "meta:@name"},
	{"meta:@name", "==", "meta:@id"},
	{"meta:@sal", "&&", "lit:true"},
}

func c01PhaseC(emit func(cs *c01Case, alone bool), flush func()) {
	desc := "hello world"
	descs := []*string{nil, &desc}
	m3, p10 := int64(-3), int64(10)
	sals := []*int64{nil, &m3, &p10}
	for _, ex := range c01MetaExprs {
		var metas []string
		seen := map[string]bool{}
		for _, t := range ex {
			if strings.HasPrefix(t, "meta:") && !seen[t] {
				seen[t] = true
				metas = append(metas, t[5:])
			}
		}
		sort.Strings(metas)
		class := "meta:" + strings.Join(metas, "")
		for d := range descs {
			for s := range sals {
				// one text holds one rule per name; description / salience presence rotates from rule to
				// rule so that "absent" also follows "present" within one text
				flush()
				for j, name := range c01MetaNames {
					emit(&c01Case{Phase: "C", Name: name, Desc: descs[(d+j)%len(descs)], Sal: sals[(s+j)%len(sals)],
						Toks: ex, Class: class}, false)
				}
				flush()
			}
		}
	}
}

// ---- self-test of the reference (a wrong reference must never accuse gengine) ----

type c01Golden struct {
	src  string
	want interface{} // Go value; error sentinel for failures
}

var c01Goldens = []c01Golden{
	{"2 + 3 * 4", int64(14)},
	{"( 2 + 3 ) * 4", int64(20)},
	{"2 * 3 + 4", int64(10)},
	{"2 + 12 / 4", int64(5)},
	{"7 - 2 - 1", int64(4)},
	{"7 - ( 2 - 1 )", int64(6)},
	{"8 / 2 / 2", int64(2)},
	{"8 / ( 2 / 2 )", int64(8)},
	{"2 - -3", int64(5)},
	{"7 / 2", int64(3)},
	{"-7 / 2", int64(-3)},
	{"7 / -2", int64(-3)},
	{"1 < 2 == true", true},
	{"1 + 2 < 4", true},
	{"2 * 3 >= 3 + 4", false},
	{"true || true && false", false},
	{"true || ( true && false )", true},
	{"false && true || true", true},
	{"1 < 2 && 3 < 4", true},
	{"1 < 2 || 1 / 1 == 2", true},
	{"! true", false},
	{"! ( 1 < 2 )", false},
	{"! false && false", false},
	{"! ( false && false )", true},
	{"true == ! false", true},
	{"9223372036854775807 + 1", int64(math.MinInt64)},
	{"-9223372036854775808 - 1", int64(math.MaxInt64)},
	{"-9223372036854775808 / -1", int64(math.MinInt64)},
	{"9223372036854775807 * 2", int64(-2)},
	{"9007199254740993 == 9007199254740992", false},
	{"9007199254740993 > 9007199254740992", true},
	{"9007199254740993 == 9007199254740992.0", true},
	{"9223372036854775807 > 9223372036854775806", true},
	{"inj:u64max > inj:i64max", true},
	{"inj:u64max == inj:gi_m1", false},
	{"inj:gi_m1 < inj:u64z", true},
	{"inj:u64p63 > inj:i64max", true},
	{"inj:u64p63m == inj:i64max", true},
	{"inj:u64max > inj:u64maxm", true},
	{"inj:u64max + inj:u64one", uint64(0)},
	{"inj:u64z - inj:u64one", uint64(math.MaxUint64)},
	{"inj:u64max + 1", int64(0)},
	{"inj:u64max / 2", int64(0)},
	{"inj:u64max / inj:u8max", uint64(math.MaxUint64 / 255)},
	{"inj:u8max + inj:u8max", uint64(510)},
	{"inj:i8min - 1", int64(-129)},
	{"inj:i8min", int8(-128)},
	{"( inj:f32half )", float32(0.5)},
	{"inj:f32half + inj:f32half", float64(1)},
	{"1 + 0.5", float64(1.5)},
	{"7 / 2.0", float64(3.5)},
	{"inj:u64max * 1.0", float64(18446744073709551615)},
	{"inj:f64nan == inj:f64nan", false},
	{"inj:f64nan != 1", true},
	{"-0.0", c01NegZero},
	{"0.0 == -0.0", true},
	{"1 / 0", ref.ErrDivZero},
	{"1 / 0.0", ref.ErrDivZero},
	{"1.5 / 0", ref.ErrDivZero},
	{"1 / -0.0", ref.ErrDivZero},
	{"inj:u8max / inj:u64z", ref.ErrDivZero},
	{`"a" + "b"`, "ab"},
	{`"a" + "b" + "c" == "abc"`, true},
	{`"a" < "b"`, true},
	{`"10" < "9"`, true},
	{`"ab" >= "b"`, false},
	{`"a" + 1`, ref.ErrIllTyped},
	{`"a" - "a"`, ref.ErrIllTyped},
	{`"a" == 1`, ref.ErrIllTyped},
	{"true + 1", ref.ErrIllTyped},
	{"1 < 2 < 3", ref.ErrIllTyped},
	{"! 5", ref.ErrIllTyped},
	{"true < false", ref.ErrIllTyped},
	{"true == true", true},
	{"1 && true", ref.ErrIllTyped},
	{"true && 1 / 0 == 1", ref.ErrDivZero},
	{"false && 1 / 0 == 1", ref.ErrUndecided},
	{"true || ! 5", ref.ErrUndecided},
	{"false || ! 5", ref.ErrIllTyped},
}

func c01GoldenToks(src string) []string {
	var toks []string
	for _, f := range strings.Fields(src) {
		if c01IsPunct(f) || strings.Contains(f, ":") {
			toks = append(toks, f)
		} else {
			toks = append(toks, "lit:"+f)
		}
	}
	return toks
}

func c01SelfTest() {
	for _, g := range c01Goldens {
		p := c01Build(&c01Case{Phase: "golden", Name: "g", Toks: c01GoldenToks(g.src)})
		if we, isErr := g.want.(error); isErr {
			if p.expErr != we {
				vsched.InternalError("c01 self-test: %s: reference gives %v / %v, hand-computed: %v", g.src, p.exp, p.expErr, we)
			}
			continue
		}
		if p.expErr != nil || !ref.SameGo(p.exp.Go(), g.want) {
			vsched.InternalError("c01 self-test: %s: reference gives %v / %v, hand-computed: %s", g.src, p.exp, p.expErr, c01Show(g.want))
		}
	}
	// @id reading
	for _, t := range []struct {
		n  string
		id int64
		ok bool
	}{{"77", 77, true}, {"abc", 0, true}, {"-5", -5, true}, {"007", 7, true}, {"0", 0, true}, {" 12 ", 0, false},
		{"9223372036854775808", 0, false}, {"9223372036854775807", math.MaxInt64, true}, {"-9223372036854775808", math.MinInt64, true},
		{"+5", 0, false}, {"1.5", 0, true}, {"-", 0, true}} {
		id, ok := c01MetaID(t.n)
		if id != t.id || ok != t.ok {
			vsched.InternalError("c01 self-test: @id of %q: got %d/%v want %d/%v", t.n, id, ok, t.id, t.ok)
		}
	}
	if n := len(c01Bracketings(2)); n != 2 {
		vsched.InternalError("c01 self-test: bracketings(2) = %d", n)
	}
	if n := len(c01Bracketings(3)); n != 6 {
		vsched.InternalError("c01 self-test: bracketings(3) = %d", n)
	}
	if n := len(c01Bracketings(4)); n != 22 {
		vsched.InternalError("c01 self-test: bracketings(4) = %d", n)
	}
}

// ---- the check ----

func c01RunAll(c *hx.Ctx) {
	c01SelfTest()
	e := &c01Emitter{c: c}
	maxK := 2
	if c.Thorough() {
		maxK = 3
	}
	// simplest first: single operators and atoms, metadata, then the larger shapes / chains
	c01PhaseA(1, e.add)
	e.flush()
	c01PhaseC(e.add, e.flush)
	e.flush()
	c01PhaseB(e.add)
	e.flush()
	for k := 2; k <= maxK; k++ {
		c01PhaseA(k, e.add)
		e.flush()
	}
	if c.Thorough() {
		c01PhaseBChains(e.add)
		e.flush()
	}
	if c.Shard == 0 {
		c.Res.AddExtra("enumerated_total", e.nCases)
	}
}

func c01Replay(v *hx.Violation) []hx.Finding {
	c01SelfTest()
	var cs c01Case
	if err := json.Unmarshal(v.Cfg, &cs); err != nil {
		vsched.InternalError("c01 replay: %v", err)
	}
	if cs.Name == "" {
		cs.Name = "r0"
	}
	p := c01Build(&cs)
	o := c01Observe(p)
	fmt.Println(p.describe())
	if o.built {
		fmt.Printf("observed: entry=%v value=%s err-nil=%v panic=%v\n", o.has, c01Show(o.val), o.err == nil, o.pan)
	} else {
		fmt.Printf("observed: rejected when built: %v\n", o.berr)
	}
	return c01Judge(p, o)
}

func init() {
	hx.Register(&hx.Prop{
		ID:          "C01",
		Workers:     func(string) int { return 16 },
		BudgetQuick: 300 * time.Second,
		BudgetThor:  15 * time.Minute,
		Kind:        "cases",
		Rule: "rule texts `return <expr>`: (A) every string of <=2 (thorough <=3) binary operators out of 12 x every well-nested parenthesisation of contiguous operand runs x every placement of ! on boolean positions x 2 valuations (literals / injected) with type-directed distinguishing leaves, untypable strings kept (expected: error); " +
			"(B) every atom of a 79-entry alphabet (literals, locals, injected values of all Go numeric kinds + string + bool at their boundaries) alone / parenthesised / negated / with negations and brackets directly nested in each other (`!(!a)`, `!((!a))`, `(!(!a))`, `!(!(!a))`, also around comparisons and logic), every operator x ordered pair of atoms, thorough: every two-operator arithmetic chain over 21 representatives; " +
			"(C) @name @id @desc @sal alone and inside arithmetic / comparison / concatenation x 13 rule names (decimal, signed, padded, leading zeros, beyond int64, alphabetic, a decimal prefix followed by other characters) x description present/absent x salience absent/negative/positive. " +
			"Each text is one distinct program, executed once on the real engine and compared with ref/expr.go: value (dynamic Go type and bits) and nil error, or error and no result entry, never a panic",
		Assume:     []string{"a text the rule builder rejects counts as failing with an error (only texts whose reference outcome is an error are affected)"},
		Run:        c01RunAll,
		ReplayCase: c01Replay,
	})
}
