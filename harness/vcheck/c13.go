package main

import (
	"encoding/json"
	"fmt"
	"os"
	"strconv"
	"strings"
	"time"

	"github.com/bilibili/gengine/builder"
	"github.com/bilibili/gengine/engine"
	"github.com/bilibili/gengine/verifrt/vsched"

	"verif/harness/gx"
	"verif/harness/hx"
)

// C13 - DAG model: layers are barriers, unknown names skipped, failure stops the rest.

type dagCfg struct {
	Layers [][]string `json:"layers"`
	Fail   []string   `json:"fail"`
	Used   bool       `json:"used"` // the engine served a sort-model call before the DAG call
	// Real: the failing rules fail by a real fault (an ill-typed store into an injected field, which
	// panics inside reflect) instead of the panicking observer
	Real bool `json:"real,omitempty"`
	// RetFail: ... or by the expression of their top-level return
	RetFail bool `json:"retfail,omitempty"`
}

type dagInj struct{ N int64 }

var dagIDs = map[string]int64{"a": 1, "b": 2, "c": 3, "d": 4}

type dagState struct {
	log    *gx.Log
	err    error
	pan    interface{}
	res    map[string]interface{}
	called bool
}

var dagCompiled = map[string]*builder.RuleBuilder{}

func dagRules(fail []string, real, retFail bool) *builder.RuleBuilder {
	key := strings.Join(fail, ",") + fmt.Sprint(real, retFail)
	if rb, ok := dagCompiled[key]; ok {
		return rb
	}
	var rs []gx.RuleSpec
	for i, n := range []string{"a", "b", "c", "d"} {
		f := false
		for _, x := range fail {
			if x == n {
				f = true
			}
		}
		sp := gx.RuleSpec{Name: n, ID: dagIDs[n], Salience: int64(10 - i), Fail: f, Ret: true}
		if f && real {
			sp.Fail, sp.After = false, `inj.N = "x"`
		}
		if f && retFail {
			sp.Fail, sp.After = false, `return nosuch(1)`
		}
		rs = append(rs, sp)
	}
	rb := gx.MustCompile(gx.RulesText(rs))
	dagCompiled[key] = rb
	return rb
}

func dagScenario(cfg dagCfg) *hx.Scenario {
	src := dagRules(cfg.Fail, cfg.Real, cfg.RetFail)
	failing := map[int64]bool{}
	for _, n := range cfg.Fail {
		failing[dagIDs[n]] = true
	}
	return &hx.Scenario{
		Name: "dag",
		Cfg:  cfg,
		New:  func() interface{} { return &dagState{log: &gx.Log{}} },
		Body: func(s interface{}) {
			st := s.(*dagState)
			rb := gx.Fresh(src, st.log, map[string]interface{}{"inj": &dagInj{}})
			g := engine.NewGengine()
			if cfg.Used {
				// a previous call in another model on the same engine (its events are dropped)
				pre := &gx.Log{}
				rb0 := gx.Fresh(src, pre, map[string]interface{}{"inj": &dagInj{}})
				_ = g.ExecuteSelectedRules(rb0, []string{"d"})
			}
			st.err, st.pan = gx.CallGuarded(func() error { return g.ExecuteDAGModel(rb, cfg.Layers) })
			st.res, _ = g.GetRulesResultMap()
			st.called = true
		},
		Check: func(s interface{}, ex *vsched.Exec) []hx.Finding {
			st := s.(*dagState)
			return dagOracle(cfg, failing, st, ex)
		},
		Outcome: func(s interface{}) string { return s.(*dagState).log.String() },
	}
}

func dagOracle(cfg dagCfg, failing map[int64]bool, st *dagState, ex *vsched.Exec) (fs []hx.Finding) {
	bad := func(sig, format string, a ...interface{}) {
		fs = append(fs, hx.Finding{Sig: sig, Msg: fmt.Sprintf(format, a...) + fmt.Sprintf("\n  layers=%v fail=%v used=%v log=[%s] err=%v", cfg.Layers, cfg.Fail, cfg.Used, st.log, st.err)})
	}
	if ex.Verdict != "" {
		bad("dag:"+ex.Verdict, "execution did not complete: %s %s", ex.Verdict, firstLine(ex.Crash))
		return
	}
	if st.pan != nil {
		bad("dag:panic", "ExecuteDAGModel panicked: %v", st.pan)
		return
	}
	// expected: layers run in order until one contains a failing existing rule
	pos := 0 // every event of the layers so far lies before pos
	failed := false
	want := map[int64]int{}
	for li, layer := range cfg.Layers {
		var ids []int64
		for _, n := range layer {
			if id, ok := dagIDs[n]; ok {
				ids = append(ids, id)
			}
		}
		if failed {
			break
		}
		// all events of this layer must lie in log[pos : pos+2*len(ids)]
		end := pos + 2*len(ids)
		if end > len(st.log.Evs) {
			bad("dag:missing-events", "layer %d: expected %d rule executions, log too short", li, len(ids))
			return
		}
		cnt := map[string]int{}
		open := map[int64]int{}
		for _, e := range st.log.Evs[pos:end] {
			cnt[e.String()]++
			if e.K == "s" {
				open[e.ID]++
			} else {
				open[e.ID]--
				if open[e.ID] < 0 {
					bad("dag:end-before-start", "layer %d: rule %d ended before it started", li, e.ID)
					return
				}
			}
		}
		exp := map[int64]int{}
		for _, id := range ids {
			exp[id]++
			want[id]++
		}
		for id, n := range exp {
			if cnt[fmt.Sprintf("s%d", id)] != n || cnt[fmt.Sprintf("e%d", id)] != n {
				bad("dag:barrier-or-count", "layer %d: rule %d should start and finish exactly %d time(s) inside the layer's window (a later layer started early, or a rule ran a wrong number of times)", li, id, n)
				return
			}
			if failing[id] {
				failed = true
			}
		}
		pos = end
	}
	if pos != len(st.log.Evs) {
		bad("dag:extra-events", "events after the last admissible layer (a layer started although an earlier one failed, or an unknown/unselected rule ran)")
		return
	}
	if failed != (st.err != nil) {
		bad("dag:error-iff-failed", "a rule failed = %v but err = %v", failed, st.err)
	}
	return
}

func firstLine(s string) string {
	if i := strings.Index(s, "\n"); i >= 0 {
		return s[:i]
	}
	return s
}

func dagConfigs(thorough bool) []dagCfg {
	layerings := [][][]string{
		{{"a"}, {"b"}},
		{{"a", "b"}, {"c"}},
		{{"a"}, {"b", "c"}},
		{{"a", "b"}, {"c", "d"}},
		{{"a", "b", "c"}},
		{{"a"}, {"b"}, {"c"}},
		{{"a"}, {}, {"b"}},
		{{"zz", "a"}, {"b"}},
		{{"a"}, {"zz"}, {"b", "zz"}},
		{{"a", "a"}, {"b"}},
		{{"zz"}},
		{},
	}
	if thorough {
		layerings = append(layerings, [][]string{{"a", "b", "c"}, {"d"}}, [][]string{{"a"}, {"b", "c", "d"}}, [][]string{{"a", "b"}, {"c"}, {"d"}}, [][]string{{"a", "b", "c", "d"}})
	}
	var out []dagCfg
	for _, l := range layerings {
		names := map[string]bool{}
		for _, ly := range l {
			for _, n := range ly {
				if _, ok := dagIDs[n]; ok {
					names[n] = true
				}
			}
		}
		fails := [][]string{nil}
		for _, n := range []string{"a", "b", "c", "d"} {
			if names[n] {
				fails = append(fails, []string{n})
			}
		}
		if thorough {
			for _, p := range [][]string{{"a", "b"}, {"a", "c"}, {"b", "c"}} {
				if names[p[0]] && names[p[1]] {
					fails = append(fails, p)
				}
			}
		}
		for _, f := range fails {
			for _, used := range []bool{false, true} {
				out = append(out, dagCfg{Layers: l, Fail: f, Used: used})
				if len(f) > 0 {
					out = append(out, dagCfg{Layers: l, Fail: f, Used: used, Real: true})
					out = append(out, dagCfg{Layers: l, Fail: f, Used: used, RetFail: true})
				}
			}
		}
	}
	return out
}

func init() {
	hx.Register(&hx.Prop{
		ID:          "C13",
		Workers:     func(string) int { return 16 },
		BudgetQuick: 300 * time.Second,
		BudgetThor:  20 * time.Minute,
		Kind:        "schedules",
		Rule: "for every DAG layering (widths 1-3, empty layers, unknown names, duplicate names) x failing subset (failing by the panicking observer / by an ill-typed store into an injected field / by the expression of the top-level return) x fresh/previously-used engine: " +
			"every schedule of ExecuteDAGModel's goroutines up to the preemption bound (quick 2, thorough unbounded with trace pruning); " +
			"distinct = distinct happens-before trace fingerprints; outcomes = distinct global event logs",
		Assume: []string{"injected observer functions terminate", "sequentially consistent memory (races are C19's subject)"},
		Run: func(c *hx.Ctx) {
			bound := 2
			if c.Thorough() {
				bound = 3
			}
			if b := os.Getenv("HX_BOUND"); b != "" {
				bound, _ = strconv.Atoi(b)
			}
			for i, cfg := range dagConfigs(c.Thorough()) {
				if !c.Mine(i) {
					continue
				}
				if c.Expired() {
					c.Res.Capped = append(c.Res.Capped, "time budget before all configurations")
					break
				}
				hx.Explore("C13", dagScenario(cfg), hx.ExploreCfg{Bound: bound, Prune: true, Deadline: c.Deadline}, c.Res)
			}
		},
		Rebuild: func(v *hx.Violation) *hx.Scenario {
			var cfg dagCfg
			json.Unmarshal(v.Cfg, &cfg)
			return dagScenario(cfg)
		},
	})
}
