package main

import (
	"bufio"
	"bytes"
	"fmt"
	"os"
	"os/exec"
	"regexp"
	"sort"
	"strings"
	"sync"
	"time"

	"github.com/bilibili/gengine/builder"
	"github.com/bilibili/gengine/context"
	"github.com/bilibili/gengine/engine"

	"verif/harness/hx"
)

// Free-running cross-check of C19 (NOT the deciding step): the instrumented tree is also built with
// `go build -race`; plain drivers (no scheduler attached: the shims fall through to the real sync
// types) hammer the engine models, conc blocks, the pool's execute methods, updates and queries from
// real goroutines for a fixed number of iterations. The cooperative scheduler's hand-offs would blind
// the detector, and the detector sees accesses the hooks do not (slice elements, reflect-reached
// state). A report is kept only if the accessing function of BOTH stacks is gengine's own code; the
// detector has no false positives, so this cannot raise a false alarm - and being a sampled run, a
// clean pass of it proves nothing (it is reported separately in the evidence).

const raceRules = `
rule "a" salience 9 begin
  t = req.Id
  resp.Id = t
  conc {
    u = t + 1
    w = t + 2
  }
  return t
end
rule "b" salience 7 begin
  M["k"] = req.Id
  return u2(req.Id)
end
rule "c" salience 5 begin
  if req.Id > 100000 {
    return 1 / req.Zero
  }
  return "c"
end
rule "d" salience 3 begin
  k2(1, 2)
  Obj.K(3, 4.5)
  Obj.Sub.K(5, 6)
  return L[0]
end
`

const raceRules2 = `
rule "a" salience 9 begin
  return "2a"
end
rule "b" salience 7 begin
  return "2b"
end
rule "c" salience 5 begin
  return "2c"
end
rule "f" salience 3 begin
  return "2f"
end
`

type raceReq struct {
	Id   int64
	Zero int64
}
type raceResp struct{ Id int64 }

// stateless callees with numeric parameters (argument conversion paths)
type raceSub struct{}

func (s *raceSub) K(a int8, b uint16) int { return int(a) }

type raceObj struct{ Sub *raceSub }

func (o *raceObj) K(a uint32, b float64) int { return int(a) }

// raceDriver is run inside the -race binary (worker mode "race").
func raceDriver(iter int) {
	apis := map[string]interface{}{"u2": func(x int64) int64 { return x * 2 }, "k2": func(a int, b float32) int { return a }, "Obj": &raceObj{Sub: &raceSub{}}}
	// 1. engine models on one shared compiled rule set, each call with its own engine + data context
	rb0 := builder.NewRuleBuilder(context.NewDataContext())
	if err := rb0.BuildRuleFromString(raceRules); err != nil {
		panic(err)
	}
	var wg sync.WaitGroup
	for gi := 0; gi < 4; gi++ {
		wg.Add(1)
		go func(gi int) {
			defer wg.Done()
			for i := 0; i < iter; i++ {
				dc := context.NewDataContext()
				dc.Add("u2", apis["u2"])
				dc.Add("k2", apis["k2"])
				dc.Add("Obj", apis["Obj"])
				dc.Add("req", &raceReq{Id: int64(gi*1000 + i)})
				dc.Add("resp", &raceResp{})
				dc.Add("M", map[string]int64{})
				dc.Add("L", []int64{1, 2})
				rb := builder.NewRuleBuilder(dc)
				rb.Kc = rb0.Kc
				g := engine.NewGengine()
				switch i % 8 {
				case 0:
					g.ExecuteConcurrent(rb)
				case 1:
					g.ExecuteMixModel(rb)
				case 2:
					g.ExecuteInverseMixModel(rb)
				case 3:
					g.ExecuteNSortMConcurrent(2, 2, rb, true)
				case 4:
					g.ExecuteNConcurrentMSort(2, 2, rb, true)
				case 5:
					g.ExecuteNConcurrentMConcurrent(2, 2, rb, false)
				case 6:
					g.ExecuteDAGModel(rb, [][]string{{"a", "b"}, {"c", "d"}})
				case 7:
					g.ExecuteSelectedRulesConcurrent(rb, []string{"d", "a", "c"})
				}
				g.GetRulesResultMap()
			}
		}(gi)
	}
	wg.Wait()
	// 2. pool: clients through many execute methods, an updater, and queries
	gp, err := engine.NewGenginePool(1, 3, engine.SortModel, raceRules, apis)
	if err != nil {
		panic(err)
	}
	stop := make(chan struct{})
	var cwg, uwg sync.WaitGroup
	for ci := 0; ci < 6; ci++ {
		cwg.Add(1)
		go func(ci int) {
			defer cwg.Done()
			names := []string{"d", "a", "b", "c"}
			dag := [][]string{{"a", "b"}, {"c", "d", "f"}}
			for i := 0; i < iter; i++ {
				data := map[string]interface{}{"req": &raceReq{Id: int64(ci*1000 + i)}, "resp": &raceResp{}, "M": map[string]int64{}, "L": []int64{1, 2}}
				switch (i + ci) % 12 {
				case 0:
					gp.Execute(data, true)
				case 1:
					gp.ExecuteConcurrent(data)
				case 2:
					gp.ExecuteMixModel(data)
				case 3:
					gp.ExecuteInverseMixModel(data)
				case 4:
					gp.ExecuteNSortMConcurrent(2, 2, true, data)
				case 5:
					gp.ExecuteNConcurrentMConcurrent(2, 2, true, data)
				case 6:
					gp.ExecuteDAGModel(dag, data)
				case 7:
					gp.ExecuteSelectedRules(data, names)
				case 8:
					gp.ExecuteRulesWithSpecifiedEM("req", data["req"], "resp", data["resp"])
				case 9:
					gp.ExecuteRulesWithMultiInputWithSpecifiedEM(data)
				case 10:
					gp.ExecuteSelectedRulesMixModel(data, names)
				case 11:
					gp.ExecuteWithStopTagDirect(data, true, &engine.Stag{})
				}
			}
		}(ci)
	}
	uwg.Add(1)
	go func() {
		defer uwg.Done()
		for i := 0; ; i++ {
			select {
			case <-stop:
				return
			default:
			}
			switch i % 7 {
			case 0:
				gp.UpdatePooledRules(raceRules2)
			case 1:
				gp.UpdatePooledRulesIncremental(`rule "e" salience 1 begin return "3e" end`)
			case 2:
				gp.RemoveRules([]string{"a"})
			case 3:
				gp.SetExecModel(1 + i%4)
			case 4:
				gp.ClearPoolRules()
			case 5:
				gp.UpdatePooledRulesIncremental(raceRules)
			case 6:
				gp.UpdatePooledRules(raceRules)
			}
			gp.IsExist([]string{"a", "zz"})
			gp.GetRulesNumber()
			gp.GetRuleSalience("a")
			gp.GetRuleDesc("b")
			gp.GetExecModel()
			time.Sleep(200 * time.Microsecond)
		}
	}()
	// wait for the clients, then stop the updater
	cwg.Wait()
	close(stop)
	uwg.Wait()
}

var raceFrame = regexp.MustCompile(`^\s+github\.com/bilibili/gengine/(engine|builder|context|internal/(base|core|iter|tool|iparser))[./]`)

// parseRaces extracts race reports whose two accessing functions are gengine's own code; the
// signature names the two functions (no line numbers).
func parseRaces(out []byte) map[string]string {
	found := map[string]string{}
	sc := bufio.NewScanner(bytes.NewReader(out))
	sc.Buffer(make([]byte, 1<<20), 1<<24)
	var block []string
	flush := func() {
		if len(block) == 0 {
			return
		}
		// the accessing function = first frame below the access header that is not the instrumentation wrapper
		var tops []string
		for i, l := range block {
			if strings.Contains(l, " at 0x") && (strings.HasPrefix(l, "Write") || strings.HasPrefix(l, "Read") || strings.HasPrefix(l, "Previous")) {
				for j := i + 1; j < len(block); j += 2 {
					f := strings.TrimSpace(block[j])
					if f == "" {
						break
					}
					if strings.Contains(f, "/verifrt/") {
						continue
					}
					tops = append(tops, f)
					break
				}
			}
		}
		if len(tops) == 2 {
			ok := true
			var fns []string
			for _, t := range tops {
				if !strings.HasPrefix(t, "github.com/bilibili/gengine/") || strings.Contains(t, "/verifrt/") {
					ok = false
				}
				fn := t
				if i := strings.Index(fn, "("); i > 0 && !strings.HasPrefix(fn[i:], "(*") {
					fn = fn[:i]
				}
				fn = strings.TrimPrefix(fn, "github.com/bilibili/gengine/")
				if i := strings.LastIndex(fn, "()"); i > 0 {
					fn = fn[:i]
				}
				fns = append(fns, fn)
			}
			if ok {
				sort.Strings(fns)
				sig := "race-detector " + fns[0] + " || " + fns[1]
				if _, dup := found[sig]; !dup {
					found[sig] = strings.Join(block, "\n")
				}
			}
		}
		block = nil
	}
	in := false
	for sc.Scan() {
		l := sc.Text()
		if strings.HasPrefix(l, "WARNING: DATA RACE") {
			flush()
			in = true
			continue
		}
		if strings.HasPrefix(l, "==================") {
			if in {
				flush()
			}
			in = false
			continue
		}
		if in {
			block = append(block, l)
		}
	}
	flush()
	return found
}

// raceCrossCheck builds (or reuses) the -race binary and runs the free-running drivers in it.
func raceCrossCheck(c *hx.Ctx) {
	if c.Shard != 0 {
		return
	}
	if os.Getenv("HX_NORACE") != "" {
		return
	}
	dir := os.Getenv("VERIF_DIR")
	if dir == "" {
		dir = "/verif"
	}
	bin, err := exec.Command(dir+"/build.sh", "race").Output()
	if err != nil {
		c.Res.Capped = append(c.Res.Capped, "race cross-check skipped: the -race binary could not be built")
		return
	}
	iter := "150"
	if c.Thorough() {
		iter = "1500"
	}
	cmd := exec.Command(strings.TrimSpace(string(bin)), "-worker", "0", "-n", "1", "C19-race-driver")
	cmd.Env = append(os.Environ(), "GORACE=halt_on_error=0 history_size=3", "HX_RACE_ITER="+iter, "GOMAXPROCS=8")
	var out bytes.Buffer
	cmd.Stdout = &out
	cmd.Stderr = &out
	start := time.Now()
	done := make(chan error, 1)
	cmd.Start()
	go func() { done <- cmd.Wait() }()
	select {
	case <-done:
	case <-time.After(4 * time.Minute):
		cmd.Process.Kill()
		c.Res.Capped = append(c.Res.Capped, "race cross-check: driver killed after 4 minutes")
	}
	races := parseRaces(out.Bytes())
	c.Res.AddExtra("race_detector_reports_in_gengine", len(races))
	c.Res.AddExtra("race_detector_driver_ms", int(time.Since(start).Milliseconds()))
	var sigs []string
	for s := range races {
		sigs = append(sigs, s)
	}
	sort.Strings(sigs)
	for _, s := range sigs {
		c.Res.Report("C19", "race-detector", map[string]string{"driver": "free-running", "iter": iter}, nil,
			[]hx.Finding{{Sig: s, Msg: "Go race detector (free-running cross-check, instrumented tree built with -race):\n" + races[s]}})
	}
	if bytes.Contains(out.Bytes(), []byte("fatal error:")) || bytes.Contains(out.Bytes(), []byte("panic:")) {
		i := bytes.Index(out.Bytes(), []byte("fatal error:"))
		if i < 0 {
			i = bytes.Index(out.Bytes(), []byte("panic:"))
		}
		tail := out.Bytes()[i:]
		if len(tail) > 1500 {
			tail = tail[:1500]
		}
		c.Res.Report("C19", "race-detector", map[string]string{"driver": "free-running", "iter": iter}, nil,
			[]hx.Finding{{Sig: "race-detector driver crashed", Msg: "the free-running driver crashed (concurrent map access or a panic on a gengine goroutine):\n" + string(tail)}})
	}
}

func init() {
	hx.Register(&hx.Prop{
		ID: "C19-race-driver",
		Run: func(c *hx.Ctx) {
			n := 150
			fmt.Sscan(os.Getenv("HX_RACE_ITER"), &n)
			raceDriver(n)
		},
	})
}
