package main

import (
	"encoding/json"
	"fmt"
	"strings"
	"time"

	"github.com/bilibili/gengine/engine"
	"github.com/bilibili/gengine/verifrt/vsched"

	"verif/harness/gx"
	"verif/harness/hx"
)

// C18 - conc blocks join before the next statement and lose no effect or error.

type concKind struct {
	Code string // statement text
	ID   int64  // id of its start/end events (0 = no events)
	Fail bool
}

var concKinds = []concKind{
	{"x = f(1)", 1, false},
	{"x = f(2)", 2, false},
	{"y = x0 + 1", 0, false},
	{"inj.F = 2", 0, false},
	{"M[\"k\"] = 3", 0, false},
	{"f(4)", 4, false},
	{"o.M(5)", 5, false},
	{"o.P.M(6)", 6, false},
	{"x = 1 / zero", 0, true},
	{"bad(7)", 7, true},
	{"o.Bad(8)", 8, true},
	{"M[kk] = 3", 0, false}, // the key is a rule local: the store looks it up in the local store
	{"lo.M(9)", 9, false},   // method call whose receiver is a rule local (looked up in the local store)
	{"lo.P.M(10)", 10, false},
}

type concCfg struct {
	Kids  []int `json:"kids"`  // indices into concKinds
	InFor bool  `json:"infor"` // the block sits in a for loop that runs twice
	Two   bool  `json:"two"`   // two rules with the same block, run by ExecuteConcurrent
}

type concSub struct{ l *gx.Log }

func (s *concSub) M(id int64) int64 { s.l.Ev("s", id); s.l.Ev("e", id); return id + 10 }

type concObj struct {
	P *concSub
	l *gx.Log
}

func (o *concObj) M(id int64) int64 { o.l.Ev("s", id); o.l.Ev("e", id); return id + 10 }
func (o *concObj) Bad(id int64)     { o.l.Ev("s", id); o.l.Ev("e", id); panic("bad method") }

type concInj struct{ F int64 }

type concState struct {
	log   *gx.Log
	err   error
	pan   interface{}
	inj   *concInj
	m     map[string]int64
	after [][4]int64
}

func concText(cfg concCfg) string {
	var sb strings.Builder
	n := 1
	if cfg.Two {
		n = 2
	}
	for r := 0; r < n; r++ {
		fmt.Fprintf(&sb, "rule \"c%d\" begin\n x = 0\n y = 0\n x0 = 5\n kk = \"k\"\n lo = mk()\n", r)
		if cfg.InFor {
			sb.WriteString(" for i = 0; i < 2; i += 1 {\n")
		}
		sb.WriteString(" conc {\n")
		for _, k := range cfg.Kids {
			sb.WriteString("   " + concKinds[k].Code + "\n")
		}
		sb.WriteString(" }\n after(x, y, inj.F, M[\"k\"])\n")
		if cfg.InFor {
			sb.WriteString(" }\n")
		}
		sb.WriteString("end\n")
	}
	return sb.String()
}

func concScenario(cfg concCfg) *hx.Scenario {
	src := compileCached(concText(cfg))
	return &hx.Scenario{
		Name: "conc",
		Cfg:  cfg,
		New: func() interface{} {
			return &concState{log: &gx.Log{}, inj: &concInj{}, m: map[string]int64{}}
		},
		Body: func(s interface{}) {
			st := s.(*concState)
			l := st.log
			inject := map[string]interface{}{
				"f":    func(id int64) int64 { l.Ev("s", id); l.Ev("e", id); return id + 10 },
				"bad":  func(id int64) { l.Ev("s", id); l.Ev("e", id); panic("bad function") },
				"o":    &concObj{P: &concSub{l}, l: l},
				"inj":  st.inj,
				"M":    st.m,
				"zero": int64(0),
				"mk":   func() *concObj { return &concObj{P: &concSub{l}, l: l} },
				"after": func(x, y, f, mk int64) {
					l.Ev("after", 0)
					if !vsched.Aborted() {
						st.after = append(st.after, [4]int64{x, y, f, mk})
					}
				},
			}
			rb := gx.Fresh(src, nil, inject)
			g := engine.NewGengine()
			st.err, st.pan = gx.CallGuarded(func() error {
				if cfg.Two {
					return g.ExecuteConcurrent(rb)
				}
				return g.Execute(rb, true)
			})
			l.Ev("ret", 0)
		},
		Check: func(s interface{}, ex *vsched.Exec) (fs []hx.Finding) {
			st := s.(*concState)
			raw, _ := json.Marshal(cfg)
			desc := fmt.Sprintf("\n  cfg=%s block={%s}\n  log=[%s] after=%v err=%v", raw, kidsText(cfg), st.log, st.after, st.err != nil)
			bad := func(sig, msg string) { fs = append(fs, hx.Finding{Sig: "c18:" + sig, Msg: msg + desc}) }
			if ex.Verdict != "" {
				bad(ex.Verdict, "execution did not complete: "+ex.Verdict+" "+firstLine(ex.Crash))
				return
			}
			if st.pan != nil {
				bad("panic", fmt.Sprintf("the call panicked: %v", st.pan))
				return
			}
			rules, iters := 1, 1
			if cfg.Two {
				rules = 2
			}
			if cfg.InFor {
				iters = 2
			}
			anyFail := false
			for _, k := range cfg.Kids {
				if concKinds[k].Fail {
					anyFail = true
				}
			}
			if anyFail {
				iters = 1 // the block fails in the first iteration, the rule ends
			}
			// the return marker is the last event: nothing of the block is still running after the call returned
			if n := len(st.log.Evs); n == 0 || st.log.Evs[n-1].K != "ret" {
				bad("runs-after-return", "a statement of the block was still running after the execute call returned")
				return
			}
			// every child with events: exactly one start and one end per block instance, start before end
			for _, k := range cfg.Kids {
				id := concKinds[k].ID
				if id == 0 {
					continue
				}
				want := rules * iters
				if st.log.Count("s", id) != want || st.log.Count("e", id) != want {
					bad("child-count", fmt.Sprintf("child `%s` must run exactly once per block instance (%d), saw %d start(s), %d end(s)", concKinds[k].Code, want, st.log.Count("s", id), st.log.Count("e", id)))
					return
				}
			}
			if anyFail {
				if st.err == nil {
					bad("error-lost", "a statement of the block failed but the call returned no error")
				}
				if len(st.after) != 0 {
					bad("after-ran-despite-failure", "the statement after a failed block ran")
				}
				return
			}
			if st.err != nil {
				bad("spurious-error", fmt.Sprintf("no statement of the block fails but the call returned an error: %v", st.err))
				return
			}
			if len(st.after) != rules*iters {
				bad("after-count", fmt.Sprintf("the statement after the block must run %d time(s), ran %d", rules*iters, len(st.after)))
				return
			}
			// join: when `after` runs, every child event of that block instance is already logged.
			// (single rule only: with two rules the instances interleave and counting suffices)
			if !cfg.Two {
				seen := map[int64]int{}
				inst := 0
				for _, e := range st.log.Evs {
					switch e.K {
					case "e":
						seen[e.ID]++
					case "after":
						inst++
						for _, k := range cfg.Kids {
							if id := concKinds[k].ID; id != 0 && seen[id] < inst {
								bad("no-join", fmt.Sprintf("the statement after the block started before child `%s` had finished", concKinds[k].Code))
								return
							}
						}
					}
				}
			}
			// effects: after observes all assignments
			has := func(code string) bool {
				for _, k := range cfg.Kids {
					if concKinds[k].Code == code {
						return true
					}
				}
				return false
			}
			for _, a := range st.after {
				okx := map[int64]bool{}
				if has("x = f(1)") {
					okx[11] = true
				}
				if has("x = f(2)") {
					okx[12] = true
				}
				if len(okx) == 0 {
					okx[0] = true
				}
				wy, wf, wm := int64(0), int64(0), int64(0)
				if has("y = x0 + 1") {
					wy = 6
				}
				if has("inj.F = 2") {
					wf = 2
				}
				if has("M[\"k\"] = 3") || has("M[kk] = 3") {
					wm = 3
				}
				if !okx[a[0]] || a[1] != wy || a[2] != wf || a[3] != wm {
					bad("effect-lost", fmt.Sprintf("the statement after the block observed x=%d y=%d inj.F=%d M[k]=%d, expected x in %v y=%d inj.F=%d M[k]=%d", a[0], a[1], a[2], a[3], keysOf(okx), wy, wf, wm))
					return
				}
			}
			if st.inj.F != map[bool]int64{true: 2, false: 0}[has("inj.F = 2")] {
				bad("host-effect-lost", fmt.Sprintf("host sees inj.F=%d", st.inj.F))
			}
			return
		},
		Outcome: func(s interface{}) string { st := s.(*concState); return st.log.String() + fmt.Sprint(st.after) },
	}
}

func keysOf(m map[int64]bool) []int64 {
	var out []int64
	for _, k := range []int64{0, 11, 12} {
		if m[k] {
			out = append(out, k)
		}
	}
	return out
}

func kidsText(cfg concCfg) string {
	var s []string
	for _, k := range cfg.Kids {
		s = append(s, concKinds[k].Code)
	}
	return strings.Join(s, "; ")
}

func concConfigs(thorough bool) []concCfg {
	var out []concCfg
	n := len(concKinds)
	for a := 0; a < n; a++ {
		out = append(out, concCfg{Kids: []int{a}})
		out = append(out, concCfg{Kids: []int{a}, InFor: true})
	}
	for a := 0; a < n; a++ {
		for b := a + 1; b < n; b++ {
			out = append(out, concCfg{Kids: []int{a, b}})
			if thorough || (a+b)%3 == 0 {
				out = append(out, concCfg{Kids: []int{a, b}, InFor: true})
			}
			if thorough && !concKinds[a].Fail && !concKinds[b].Fail {
				out = append(out, concCfg{Kids: []int{a, b}, Two: true})
			}
		}
	}
	for a := 0; a < n; a++ {
		for b := a + 1; b < n; b++ {
			for c := b + 1; c < n; c++ {
				if c >= 11 && (b >= 11 || !(a <= 3 || a == 8)) {
					continue // local-key store, local receivers: triples with representative siblings only
				}
				if !thorough && c < 11 && (a+b+c)%2 == 1 {
					continue // quick: every second triple of the first eleven kinds (all pairs are explored)
				}
				out = append(out, concCfg{Kids: []int{a, b, c}})
			}
		}
	}
	out = append(out, concCfg{Kids: []int{0, 5}, Two: true}, concCfg{Kids: []int{3, 6}, Two: true})
	return out
}

func init() {
	hx.Register(&hx.Prop{
		ID:          "C18",
		Workers:     func(string) int { return 16 },
		BudgetQuick: 400 * time.Second,
		BudgetThor:  25 * time.Minute,
		Kind:        "schedules",
		Rule: "every conc block with 1..2 distinct children, and (quick: every second; thorough: every) block with 3 distinct children, over 14 statement kinds (assignments to the same / different locals, injected field, map entry with a literal and with a rule-local key; function, method, three-level calls on injected objects and on an object held in a rule local; failing assignment / function / method), also re-entered inside a for loop, in two concurrently running rules, and evaluated by two overlapping pool requests (one rule tree shared by all instances; every schedule with <=2 (3) deviations); " +
			"every schedule of the block's goroutines (4 spawners + one per child) with <=2 preemptions for 1-2 children and <=1 for 3 children / two rules (thorough: one more for single children and every fifth pair, plus the remaining triples and more for-loop and two-rule variants); oracle: each child exactly once, every child end before the next statement, next statement observes all assignments, failure => error after all children finished and the next statement does not run, nothing still runs after the call returned",
		Assume: []string{"injected functions terminate", "sequentially consistent memory (races are C19's subject)"},
		Run: func(c *hx.Ctx) {
			b := envBound(2)
			for i, cfg := range concConfigs(c.Thorough()) {
				if !c.Mine(i) {
					continue
				}
				if c.Expired() {
					c.Res.Capped = append(c.Res.Capped, "time budget before all configurations")
					break
				}
				bb := b
				if len(cfg.Kids) >= 3 || cfg.Two {
					bb = b - 1 // 8+ threads: one preemption less
				}
				if c.Thorough() && !cfg.InFor && !cfg.Two {
					// the thorough tier's third preemption: single children and every fifth pair (measured: with
					// it everywhere the run does not finish in 25 minutes); otherwise thorough adds the
					// remaining triples and more for-loop / two-rule variants at the quick bounds
					sum := 0
					for _, k := range cfg.Kids {
						sum += k
					}
					if len(cfg.Kids) == 1 || (len(cfg.Kids) == 2 && sum%5 == 0) {
						bb = b + 1
					}
				}
				hx.Explore("C18", concScenario(cfg), hx.ExploreCfg{Bound: bb, Prune: true, Deadline: c.Deadline}, c.Res)
			}
			// the same block evaluated by two overlapping pool requests (all instances share one rule tree)
			if c.Shard == 0 {
				for _, bad := range [][2]int64{{1, 0}, {0, 1}, {0, 0}, {1, 1}} {
					hx.Explore("C18", concPoolScenario(bad), hx.ExploreCfg{Bound: envBound(delayBound(c, 2+thoroughExtra(c))), Delay: true, Prune: true, Deadline: c.Deadline}, c.Res)
				}
			}
		},
		Rebuild: func(v *hx.Violation) *hx.Scenario {
			if v.Scenario == "concpool" {
				var bad [2]int64
				json.Unmarshal(v.Cfg, &bad)
				return concPoolScenario(bad)
			}
			var cfg concCfg
			json.Unmarshal(v.Cfg, &cfg)
			return concScenario(cfg)
		},
	})
}

// ---- one conc block evaluated by two overlapping pool requests ----

type concPoolReq struct {
	Id  int64
	Bad int64
}

type concPoolState struct {
	log   *gx.Log
	errs  [2]error
	pans  [2]interface{}
	after [2]int
}

const concPoolRules = `
rule "cp" begin
  x = 0
  conc {
    x = f(req.Id)
    chk(req.Id, req.Bad)
    y = 2
  }
  after(req.Id, x)
end
`

var concPoolActive *concPoolState

func concPoolScenario(bad [2]int64) *hx.Scenario {
	apis := map[string]interface{}{
		"f": func(id int64) int64 { concPoolActive.log.Ev("f", id); return id + 10 },
		"chk": func(id, bad int64) {
			concPoolActive.log.Ev("chk", id)
			if bad == 1 {
				panic("member fails")
			}
		},
		"after": func(id, x int64) {
			concPoolActive.log.Ev3("after", id, x)
			if !vsched.Aborted() {
				concPoolActive.after[id]++
			}
		},
	}
	template, err := engine.NewGenginePool(1, 2, engine.SortModel, concPoolRules, apis)
	if err != nil {
		vsched.InternalError("pool: %v", err)
	}
	return &hx.Scenario{
		Name: "concpool",
		Cfg:  bad,
		Opts: vsched.Options{Horizon: 20000},
		New:  func() interface{} { return &concPoolState{log: &gx.Log{}} },
		Body: func(s interface{}) {
			st := s.(*concPoolState)
			concPoolActive = st
			gp := gx.DeepClone(template).(*engine.GenginePool)
			for i := 0; i < 2; i++ {
				i := i
				vsched.Go(func() {
					st.errs[i], st.pans[i] = gx.CallGuarded(func() error {
						e, _ := gp.Execute(map[string]interface{}{"req": &concPoolReq{Id: int64(i), Bad: bad[i]}}, true)
						return e
					})
				})
			}
			vsched.WaitOthersDone()
		},
		Check: func(s interface{}, ex *vsched.Exec) (fs []hx.Finding) {
			st := s.(*concPoolState)
			desc := fmt.Sprintf("\n  failing member in request 0/1: %v\n  rule:%s  log=[%s] errors=[%v %v]", bad, concPoolRules, st.log, st.errs[0] != nil, st.errs[1] != nil)
			add := func(sig, msg string) { fs = append(fs, hx.Finding{Sig: "c18:pool:" + sig, Msg: msg + desc}) }
			if ex.Verdict != "" {
				add(ex.Verdict, "execution did not complete: "+ex.Verdict+" "+firstLine(ex.Crash))
				return
			}
			for i := 0; i < 2; i++ {
				if st.pans[i] != nil {
					add("panic", fmt.Sprintf("request %d panicked: %v", i, st.pans[i]))
					continue
				}
				if (st.errs[i] != nil) != (bad[i] == 1) {
					add("error-mismatch", fmt.Sprintf("request %d: a member of its conc block failed = %v, but the call returned error = %v", i, bad[i] == 1, st.errs[i] != nil))
				}
				want := 1
				if bad[i] == 1 {
					want = 0
				}
				if st.after[i] != want {
					add("after-count", fmt.Sprintf("request %d: the statement after its conc block ran %d time(s), want %d", i, st.after[i], want))
				}
			}
			for _, e := range st.log.Evs {
				if e.K == "after" && e.A != e.ID+10 {
					add("effect-lost", fmt.Sprintf("request %d: the statement after the block saw x=%d, want %d", e.ID, e.A, e.ID+10))
				}
			}
			return
		},
		Outcome: func(s interface{}) string {
			st := s.(*concPoolState)
			return st.log.String() + fmt.Sprint(st.errs[0] != nil, st.errs[1] != nil)
		},
	}
}
