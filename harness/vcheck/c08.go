package main

import (
	"encoding/json"
	"fmt"
	"os"
	"path/filepath"
	"sort"
	"strings"
	"time"

	"github.com/bilibili/gengine/builder"
	"github.com/bilibili/gengine/context"
	"github.com/bilibili/gengine/engine"
	"github.com/bilibili/gengine/verifrt/vsched"

	"verif/harness/gx"
	"verif/harness/hx"
	"verif/harness/ref"
)

// C08 - rule-set algebra on the builder: explicit-state search to a fix-point over CONCRETE builder
// states (SortRules sequence, RuleEntities set, SortRulesIndexMap), every operation of a small
// alphabet applied in every reached state, every map-iteration order inside an operation enumerated
// as an environment choice.

type c08Rule struct {
	Name string `json:"n"`
	Sal  int64  `json:"s"`
	Tag  string `json:"t"`
}

func (r c08Rule) text() string {
	return fmt.Sprintf("rule \"%s\" \"d-%s-%d-%s\" salience %d begin\n  ev(\"x\", %d)\n  return \"%s:%d:%s\"\nend\n", r.Name, r.Name, r.Sal, r.Tag, r.Sal, c08Code(r.Name), r.Name, r.Sal, r.Tag)
}

func c08Code(name string) int64 { return int64(name[0]) }

func (r c08Rule) info() ref.RuleInfo {
	return ref.RuleInfo{Salience: r.Sal, Desc: fmt.Sprintf("d-%s-%d-%s", r.Name, r.Sal, r.Tag), BodyTag: fmt.Sprintf("%s:%d:%s", r.Name, r.Sal, r.Tag)}
}

type c08Op struct {
	Kind   string    `json:"k"` // full | incr | remove | bad-incr | bad-full | dup-incr | dup-full
	Rules  []c08Rule `json:"r,omitempty"`
	Names  []string  `json:"names,omitempty"`
	Choice []int32   `json:"choice,omitempty"` // environment answers (map iteration orders) of this application
}

func (o c08Op) String() string {
	var p []string
	for _, r := range o.Rules {
		p = append(p, fmt.Sprintf("%s:%d:%s", r.Name, r.Sal, r.Tag))
	}
	s := o.Kind + "(" + strings.Join(append(p, o.Names...), ",") + ")"
	if len(o.Choice) > 0 {
		s += fmt.Sprint(o.Choice)
	}
	return s
}

func (o c08Op) textOf() string {
	var sb strings.Builder
	for _, r := range o.Rules {
		sb.WriteString(r.text())
	}
	switch o.Kind {
	case "bad-incr", "bad-full":
		return sb.String() + "rule \"q\" begin x = = end"
	case "dup-incr", "dup-full":
		return sb.String() + o.Rules[0].text()
	}
	return sb.String()
}

func c08Alphabet(names []string, sals []int64, full bool) []c08Op {
	var ops []c08Op
	n0, n1, n2 := names[0], names[1], names[2]
	s0, s1, s2 := sals[0], sals[len(sals)/2], sals[len(sals)-1]
	ops = append(ops,
		c08Op{Kind: "full", Rules: []c08Rule{{n0, s1, "x"}}},
		c08Op{Kind: "full", Rules: []c08Rule{{n0, s1, "x"}, {n1, s1, "x"}}},
		c08Op{Kind: "full", Rules: []c08Rule{{n0, s2, "x"}, {n1, s1, "x"}, {n2, s0, "x"}}},
		c08Op{Kind: "full", Rules: []c08Rule{{n0, s0, "x"}, {n1, s1, "x"}, {n2, s2, "x"}}},
	)
	tags := []string{"x", "y"}
	for _, n := range names {
		for _, s := range sals {
			for _, t := range tags {
				ops = append(ops, c08Op{Kind: "incr", Rules: []c08Rule{{n, s, t}}})
			}
		}
	}
	for i := 0; i < len(names); i++ {
		for j := i + 1; j < len(names); j++ {
			for _, sa := range sals {
				for _, sb := range sals {
					if !full && sa != sb && sa != sals[0] {
						continue
					}
					ops = append(ops, c08Op{Kind: "incr", Rules: []c08Rule{{names[i], sa, "y"}, {names[j], sb, "y"}}})
				}
			}
		}
	}
	rm := append(append([]string{}, names...), "zz")
	for i := range rm {
		ops = append(ops, c08Op{Kind: "remove", Names: []string{rm[i]}})
		for j := i + 1; j < len(rm); j++ {
			ops = append(ops, c08Op{Kind: "remove", Names: []string{rm[i], rm[j]}})
		}
	}
	ops = append(ops,
		c08Op{Kind: "bad-incr", Rules: []c08Rule{{n0, s2, "y"}}},
		c08Op{Kind: "bad-full", Rules: []c08Rule{{n1, s2, "y"}}},
		c08Op{Kind: "dup-incr", Rules: []c08Rule{{n2, s0, "y"}}},
		c08Op{Kind: "dup-full", Rules: []c08Rule{{n0, s0, "y"}}},
	)
	return ops
}

// concrete state key: SortRules sequence + RuleEntities + index map
func c08Key(rb *builder.RuleBuilder) string {
	var sb strings.Builder
	for _, e := range rb.Kc.SortRules {
		fmt.Fprintf(&sb, "%s/%d/%s;", e.RuleName, e.Salience, e.RuleDescription)
	}
	sb.WriteString("|")
	var ks []string
	for k, e := range rb.Kc.RuleEntities {
		ks = append(ks, fmt.Sprintf("%s=%s/%d/%s", k, e.RuleName, e.Salience, e.RuleDescription))
	}
	sort.Strings(ks)
	sb.WriteString(strings.Join(ks, ";"))
	sb.WriteString("|")
	ks = ks[:0]
	for k, i := range rb.Kc.SortRulesIndexMap {
		ks = append(ks, fmt.Sprintf("%s@%d", k, i))
	}
	sort.Strings(ks)
	sb.WriteString(strings.Join(ks, ";"))
	return sb.String()
}

// identity key: the entity objects themselves (a failed operation must leave them untouched)
func c08Ident(rb *builder.RuleBuilder) string {
	var ks []string
	for k, e := range rb.Kc.RuleEntities {
		ks = append(ks, fmt.Sprintf("%s=%p", k, e))
	}
	sort.Strings(ks)
	s := strings.Join(ks, ";") + "|"
	for _, e := range rb.Kc.SortRules {
		s += fmt.Sprintf("%p;", e)
	}
	return s
}

func c08Apply(rb *builder.RuleBuilder, op c08Op) error {
	switch op.Kind {
	case "full", "bad-full", "dup-full":
		return rb.BuildRuleFromString(op.textOf())
	case "incr", "bad-incr", "dup-incr":
		return rb.BuildRuleWithIncremental(op.textOf())
	case "remove":
		return rb.RemoveRules(op.Names)
	}
	return fmt.Errorf("unknown op")
}

func c08RefApply(s ref.RuleSet, op c08Op) (ref.RuleSet, bool) {
	defs := ref.RuleSet{}
	for _, r := range op.Rules {
		defs[r.Name] = r.info()
	}
	switch op.Kind {
	case "full":
		return ref.Replace(s, defs), true
	case "incr":
		return ref.Merge(s, defs), true
	case "remove":
		return ref.Remove(s, op.Names), true
	}
	return s, false // failing operations
}

// invariant of one concrete state against the reference set
func c08Invariant(rb *builder.RuleBuilder, want ref.RuleSet, names []string) string {
	kc := rb.Kc
	if len(kc.SortRules) != len(kc.RuleEntities) {
		return fmt.Sprintf("the ordered list holds %d rules, the name table %d", len(kc.SortRules), len(kc.RuleEntities))
	}
	seen := map[string]bool{}
	for i, e := range kc.SortRules {
		if seen[e.RuleName] {
			return fmt.Sprintf("rule name %q occurs twice in the installed order", e.RuleName)
		}
		seen[e.RuleName] = true
		if i > 0 && kc.SortRules[i-1].Salience < e.Salience {
			return fmt.Sprintf("installed order is not non-increasing in salience at position %d (%s:%d after %s:%d)", i, e.RuleName, e.Salience, kc.SortRules[i-1].RuleName, kc.SortRules[i-1].Salience)
		}
		w, ok := want[e.RuleName]
		if !ok {
			return fmt.Sprintf("rule %q is installed but the operation sequence does not denote it", e.RuleName)
		}
		if e.Salience != w.Salience || e.RuleDescription != w.Desc {
			return fmt.Sprintf("rule %q installed with salience %d / description %q, the sequence denotes %d / %q", e.RuleName, e.Salience, e.RuleDescription, w.Salience, w.Desc)
		}
		if t, ok := kc.RuleEntities[e.RuleName]; !ok || t != e {
			return fmt.Sprintf("the name table and the ordered list disagree about rule %q", e.RuleName)
		}
	}
	for n := range want {
		if !seen[n] {
			return fmt.Sprintf("rule %q is denoted by the sequence but not installed", n)
		}
	}
	// existence queries
	q := append(append([]string{}, names...), "zz")
	ex := rb.IsExist(q)
	for i, n := range q {
		_, w := want[n]
		if ex[i] != w {
			return fmt.Sprintf("IsExist(%q) = %v, the set says %v", n, ex[i], w)
		}
	}
	// executing the sort model runs exactly this order and these bodies
	if len(want) > 0 {
		l := &gx.Log{}
		g := engine.NewGengine()
		run := gx.Fresh(rb, l, nil)
		if err := g.Execute(run, true); err != nil {
			return fmt.Sprintf("sort-model execution of the installed set failed: %v", err)
		}
		res, _ := g.GetRulesResultMap()
		if len(l.Evs) != len(kc.SortRules) {
			return fmt.Sprintf("sort model ran %d rules, %d are installed", len(l.Evs), len(kc.SortRules))
		}
		for i, e := range kc.SortRules {
			if l.Evs[i].ID != c08Code(e.RuleName) {
				return fmt.Sprintf("sort model ran rule code %d at position %d, installed order has %s", l.Evs[i].ID, i, e.RuleName)
			}
			if res[e.RuleName] != interface{}(want[e.RuleName].BodyTag) {
				return fmt.Sprintf("rule %q executes body %v, the sequence denotes body %s", e.RuleName, res[e.RuleName], want[e.RuleName].BodyTag)
			}
		}
	}
	return ""
}

type c08State struct {
	rb   *builder.RuleBuilder
	want ref.RuleSet
	path []c08Op
}

type c08Case struct {
	Names []string `json:"names"`
	Sals  []int64  `json:"sals"`
	Path  []c08Op  `json:"path"`
}

func c08MapSites() map[int32]bool {
	sites := map[int32]bool{}
	for i, s := range vsched.SiteTable {
		// range-over-map sites of the builder, except the loops that merely copy the installed table
		// (`range builder.Kc.RuleEntities`): their order cannot influence the result, and enumerating it
		// would multiply every operation by n! for nothing. C08_ALLSITES=1 enumerates those too.
		if strings.HasPrefix(s.File, "builder/") && strings.Contains(s.Func, "RuleBuilder.") && !s.Write &&
			(os.Getenv("C08_ALLSITES") != "" || !strings.HasPrefix(s.Expr, "builder.")) {
			// every range-over-map site of the builder; reads that are not ranges never reach SortedKeys
			sites[int32(i)] = true
		}
	}
	return sites
}

// c08Search runs the breadth-first search, level-synchronously across the worker processes: every
// worker keeps the same `seen` set; at each level worker i expands the frontier states with index
// i mod N, publishes the successors it found (concrete key + operation path) in a shared scratch
// directory, waits for the other workers' lists of that level and merges all lists in worker order.
// States found by another worker are rebuilt by replaying their path on a fresh builder.
func c08Search(c *hx.Ctx, tagName string, names []string, sals []int64, full bool, maxDepth int) {
	ops := c08Alphabet(names, sals, full)
	opts := vsched.Options{MapChoices: true, MapSites: c08MapSites()}
	dir := filepath.Join(os.TempDir(), fmt.Sprintf("verif-c08-%d-%s", os.Getppid(), tagName))
	os.MkdirAll(dir, 0o755)
	root := &c08State{rb: builder.NewRuleBuilder(context.NewDataContext()), want: ref.RuleSet{}}
	seen := map[string]bool{c08Key(root.rb): true}
	frontier := []*c08State{root}
	depth := 0
	report := func(path []c08Op, sig, msg string) {
		var ps []string
		for _, o := range path {
			ps = append(ps, o.String())
		}
		c.Res.Report("C08", "case", c08Case{names, sals, path}, nil, []hx.Finding{{Sig: "c08:" + sig, Msg: msg + "\n  sequence: " + strings.Join(ps, " ; ")}})
	}
	rebuild := func(st *c08State) {
		if st.rb != nil {
			return
		}
		st.rb = builder.NewRuleBuilder(context.NewDataContext())
		st.want = ref.RuleSet{}
		for _, op := range st.path {
			op := op
			vsched.Run(opts, op.Choice, func() { gx.CallGuarded(func() error { return c08Apply(st.rb, op) }) })
			if w, ok := c08RefApply(st.want, op); ok {
				st.want = w
			}
		}
	}
	type succ struct {
		Key  string  `json:"k"`
		Path []c08Op `json:"p"`
	}
	type levelFile struct {
		Succ   []succ `json:"succ"`
		Capped bool   `json:"capped"`
	}
	capped := false
	for len(frontier) > 0 && !capped {
		if maxDepth > 0 && depth >= maxDepth {
			c.Res.Capped = append(c.Res.Capped, fmt.Sprintf("depth cap %d with %d unexpanded states", maxDepth, len(frontier)))
			break
		}
		var out levelFile
		local := map[string]bool{}
		for si, st := range frontier {
			if si%c.NShards != c.Shard {
				continue
			}
			if c.Expired() {
				out.Capped = true
				break
			}
			rebuild(st)
			for _, op := range ops {
				wantNext, okOp := c08RefApply(st.want, op)
				var cur *builder.RuleBuilder
				var err error
				var before, beforeID string
				var pan interface{}
				hx.EnvRuns(opts, func() {
					cur = gx.DeepClone(st.rb).(*builder.RuleBuilder)
					before, beforeID = c08Key(cur), c08Ident(cur)
					err, pan = gx.CallGuarded(func() error { return c08Apply(cur, op) })
				}, func(choices []int32) {
					c.Res.Execs++
					c.Res.Steps++
					o := op
					o.Choice = append([]int32{}, choices...)
					path := append(append([]c08Op{}, st.path...), o)
					if pan != nil {
						report(path, "operation-panicked:"+op.Kind, fmt.Sprintf("the operation panicked: %v", pan))
						return
					}
					if !okOp {
						if err == nil {
							report(path, "bad-text-accepted:"+op.Kind, "a text with a syntax error / a duplicate rule name was accepted")
						} else if c08Key(cur) != before || c08Ident(cur) != beforeID {
							report(path, "failed-op-changed-state:"+op.Kind, "a failed build changed the installed rule set")
						}
						return
					}
					if err != nil {
						report(path, "valid-op-rejected:"+op.Kind, fmt.Sprintf("a valid operation was rejected: %v", err))
						return
					}
					if c := c08Invariant(cur, wantNext, names); c != "" {
						report(path, "wrong-state:"+op.Kind+":"+sigOf(c), c+"\n  installed: "+c08Key(cur)+"\n  denoted:   "+wantNext.String())
						return
					}
					k := c08Key(cur)
					if !seen[k] && !local[k] {
						local[k] = true
						out.Succ = append(out.Succ, succ{k, path})
					}
				})
			}
			st.rb = nil // expanded: the concrete object is no longer needed
		}
		// publish, then wait for everybody's list of this level
		raw, _ := json.Marshal(out)
		tmp := filepath.Join(dir, fmt.Sprintf("L%d.%d.tmp", depth, c.Shard))
		os.WriteFile(tmp, raw, 0o644)
		os.Rename(tmp, filepath.Join(dir, fmt.Sprintf("L%d.%d.json", depth, c.Shard)))
		var next []*c08State
		for i := 0; i < c.NShards; i++ {
			fn := filepath.Join(dir, fmt.Sprintf("L%d.%d.json", depth, i))
			var lf levelFile
			wait := time.Now()
			for {
				b, err := os.ReadFile(fn)
				if err == nil && json.Unmarshal(b, &lf) == nil {
					break
				}
				if time.Since(wait) > 20*time.Minute {
					vsched.InternalError("C08: worker %d never published level %d", i, depth)
				}
				time.Sleep(15 * time.Millisecond)
			}
			if lf.Capped {
				capped = true
			}
			for _, s := range lf.Succ {
				if !seen[s.Key] {
					seen[s.Key] = true
					next = append(next, &c08State{path: s.Path})
				}
			}
		}
		frontier = next
		depth++
	}
	if capped {
		c.Res.Capped = append(c.Res.Capped, fmt.Sprintf("%s: time budget at depth %d", tagName, depth))
	}
	// leave a marker; the first worker removes the scratch directory when everybody is done
	os.WriteFile(filepath.Join(dir, fmt.Sprintf("done.%d", c.Shard)), nil, 0o644)
	if c.Shard == 0 {
		for i := 0; i < c.NShards; i++ {
			for w := time.Now(); time.Since(w) < 5*time.Minute; time.Sleep(15 * time.Millisecond) {
				if _, err := os.Stat(filepath.Join(dir, fmt.Sprintf("done.%d", i))); err == nil {
					break
				}
			}
		}
		os.RemoveAll(dir)
		c.Res.States += len(seen)
		c.Res.AddExtra("cases", len(seen))
		c.Res.AddExtra("max_depth", depth)
		c.Res.Sample(map[string]interface{}{"names": names, "saliences": sals, "operations": len(ops), "states": len(seen), "depth": depth})
		c.Res.Configs++
	}
}

func init() {
	hx.Register(&hx.Prop{
		ID:          "C08",
		Workers:     func(tier string) int { return 16 },
		BudgetQuick: 300 * time.Second,
		BudgetThor:  30 * time.Minute,
		Kind:        "schedules",
		Rule: "breadth-first search from the empty builder to the fix-point over concrete builder states (ordered list, name table, index map; two states merge only if all three are identical): every operation of the alphabet (4 full builds, 18 single-rule incrementals, two-rule incrementals over every name pair x salience pair, removals of every 1-2-subset of the names + an absent one, syntax-error and duplicate-name texts for both build kinds) applied in every reached state, " +
			"every map-iteration order inside BuildRuleFromString / BuildRuleWithIncremental / RemoveRules enumerated as an environment choice; invariant in every state against the reference set: names/saliences/descriptions/bodies, unique names, non-increasing order, sort-model execution order and bodies, IsExist; failed builds leave the concrete state (incl. object identity) untouched. quick: 2 alphabets of 3 names x 3 saliences (incl. negative); thorough: 4 such alphabets incl. equal values",
		Assume: []string{"states are cloned with gx.DeepClone (compiled rules shared, they are immutable)", "names {a,b,c}, three saliences, two body tags per rule: the state space is finite and closed under the alphabet"},
		Run: func(c *hx.Ctx) {
			type alph struct {
				names []string
				sals  []int64
				full  bool
			}
			var as []alph
			if c.Thorough() {
				as = []alph{{[]string{"a", "b", "c"}, []int64{1, 2, 3}, true}, {[]string{"c", "a", "b"}, []int64{-2, 0, 7}, true}, {[]string{"b", "c", "a"}, []int64{0, 0, 5}, true}, {[]string{"a", "b", "c"}, []int64{3, 2, 1}, true}}
			} else {
				as = []alph{{[]string{"a", "b", "c"}, []int64{1, 2, 3}, true}, {[]string{"c", "a", "b"}, []int64{-2, 0, 7}, true}}
			}
			for i, a := range as {
				c08Search(c, fmt.Sprintf("a%d", i), a.names, a.sals, a.full, 0)
			}
		},
		ReplayCase: func(v *hx.Violation) []hx.Finding {
			var cs c08Case
			json.Unmarshal(v.Cfg, &cs)
			rb := builder.NewRuleBuilder(context.NewDataContext())
			want := ref.RuleSet{}
			opts := vsched.Options{MapChoices: true, MapSites: c08MapSites()}
			var fs []hx.Finding
			for i, op := range cs.Path {
				var err error
				before, beforeID := c08Key(rb), c08Ident(rb)
				vsched.Run(opts, op.Choice, func() { err = c08Apply(rb, op) })
				w, ok := c08RefApply(want, op)
				fmt.Printf("step %d %s -> err=%v\n  installed: %s\n", i+1, op, err, c08Key(rb))
				if !ok {
					if err == nil {
						fs = append(fs, hx.Finding{Sig: "c08:bad-text-accepted:" + op.Kind, Msg: "accepted"})
					} else if c08Key(rb) != before || c08Ident(rb) != beforeID {
						fs = append(fs, hx.Finding{Sig: "c08:failed-op-changed-state:" + op.Kind, Msg: "state changed"})
					}
					continue
				}
				want = w
				if err != nil {
					fs = append(fs, hx.Finding{Sig: "c08:valid-op-rejected:" + op.Kind, Msg: err.Error()})
				} else if c := c08Invariant(rb, want, cs.Names); c != "" {
					fs = append(fs, hx.Finding{Sig: "c08:wrong-state:" + op.Kind + ":" + sigOf(c), Msg: c})
				}
			}
			return fs
		},
	})
}
