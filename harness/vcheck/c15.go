package main

import (
	"encoding/json"
	"fmt"
	"strings"
	"time"

	"github.com/bilibili/gengine/builder"
	"github.com/bilibili/gengine/engine"
	"github.com/bilibili/gengine/verifrt/vsched"

	"verif/harness/gx"
	"verif/harness/hx"
	"verif/harness/ref"
)

// C15 - rule locals are private to one execution of one rule.
//
// Rule kinds over the same local name `t`:
//   W : g.N<i> += 1; t = <own id>; ev3("w", <own id>, t); return t     writes then reads its local
//   R : g.N<i> += 1; return t                                           reads a local it never assigned
//   RW: g.N<i> += 1; t = t + 1; return t                                reads before its first write
//   WP: g.N<i> += 1; t = <own id>; <rule-level panic>                   writes, then panics out of the rule body
//   WE: g.N<i> += 1; t = <own id>; <failing statement>                  writes, then fails with an error
//   WO: g.N<i> += 1; t = mk(<own id>); ev3("w", <own id>, t.Val()); return t.Val()
//                                                                        its local holds an object made for this execution; reads go through a method of it
// R and RW must fail with "not found" in every model, in every call; W must see its own value.

type c15Cfg struct {
	Kinds []string   `json:"kinds"` // per rule r0.. (saliences 9,6,3): "W" | "R" | "RW"
	Model string     `json:"model"`
	B     bool       `json:"b"`
	N     int        `json:"N,omitempty"`
	M     int        `json:"M,omitempty"`
	Names []string   `json:"names,omitempty"`
	Dag   [][]string `json:"dag,omitempty"`
	Pool  string     `json:"pool,omitempty"` // pool method: two overlapping requests on pool (1,2)
	// SameDc: the second call is made on the same builder and data context as the first, with nothing
	// added in between (the other configurations give every call a data context of its own)
	SameDc bool `json:"same_dc,omitempty"`
}

// c15Obj is what the injected mk(id) returns: an object private to one execution of one rule.
type c15Obj struct{ V int64 }

func (o *c15Obj) Val() int64 { return o.V }

func c15Mk(id int64) *c15Obj { return &c15Obj{V: id} }

func c15IsW(k string) bool { return k == "W" || k == "WO" }

type c15G struct{ N0, N1, N2, V int64 }

func (g *c15G) n(i int) int64 { return []int64{g.N0, g.N1, g.N2}[i] }

func c15Text(cfg c15Cfg) string {
	var sb strings.Builder
	for i, k := range cfg.Kinds {
		id := fmt.Sprintf("%d", 10+i)
		if cfg.Pool != "" {
			id = "req.Id"
		}
		fmt.Fprintf(&sb, "rule \"r%d\" salience %d begin\n  g.N%d += 1\n", i, 9-3*i, i)
		switch k {
		case "W":
			fmt.Fprintf(&sb, "  t = %s\n  ev3(\"w\", %s, t)\n  return t\n", id, id)
		case "WO":
			fmt.Fprintf(&sb, "  t = mk(%s)\n  ev3(\"w\", %s, t.Val())\n  return t.Val()\n", id, id)
		case "WP": // writes its local, then panics at rule level (non-boolean condition)
			fmt.Fprintf(&sb, "  t = %s\n  tt = 5\n  if tt {\n    t = 0\n  }\n  return t\n", id)
		case "WE": // writes its local, then fails with an ordinary error
			fmt.Fprintf(&sb, "  t = %s\n  zz = 1 / zero\n  return t\n", id)
		case "R":
			sb.WriteString("  return t\n")
		case "RW":
			sb.WriteString("  t = t + 1\n  return t\n")
		}
		sb.WriteString("end\n")
	}
	return sb.String()
}

type c15Call struct {
	g   *c15G
	log *gx.Log
	err error
	pan interface{}
	res map[string]interface{}
}

type c15State struct {
	calls []*c15Call
}

func c15Scenario(cfg c15Cfg) *hx.Scenario {
	text := c15Text(cfg)
	src := compileCached(text)
	var template *engine.GenginePool
	var pm *gx.PoolMethod
	if cfg.Pool != "" {
		pm = gx.PoolMethodByName(cfg.Pool)
		var err error
		template, err = engine.NewGenginePool(1, 2, engine.SortModel, text, map[string]interface{}{})
		if err != nil {
			vsched.InternalError("pool: %v", err)
		}
	}
	return &hx.Scenario{
		Name: "c15",
		Cfg:  cfg,
		Opts: vsched.Options{Horizon: 20000},
		New: func() interface{} {
			return &c15State{calls: []*c15Call{{g: &c15G{}, log: &gx.Log{}}, {g: &c15G{}, log: &gx.Log{}}}}
		},
		Body: func(s interface{}) {
			st := s.(*c15State)
			if cfg.Pool != "" {
				gp := gx.DeepClone(template).(*engine.GenginePool)
				p := gx.PoolCallParams{B: true, N: 1, M: 2, Names: cfg.Names, Dag: cfg.Dag}
				for i, c := range st.calls {
					c, id := c, int64(100*(i+1))
					vsched.Go(func() {
						data := map[string]interface{}{"req": &PoolReq{Id: id}, "g": c.g, "ev3": c.log.Ev3, "zero": int64(0), "mk": c15Mk}
						c.err, c.res, c.pan = gx.PoolCallGuarded(pm, gp, data, p)
						c.res = gx.CopyResult(c.res)
					})
				}
				vsched.WaitOthersDone()
				return
			}
			g := engine.NewGengine()
			m := gx.ModelByName(cfg.Model)
			p := gx.Params{B: cfg.B, N: cfg.N, M: cfg.M, Names: cfg.Names, Dag: cfg.Dag}
			var rb *builder.RuleBuilder
			for ci, c := range st.calls {
				if cfg.SameDc && ci > 0 {
					c.g, c.log = st.calls[0].g, st.calls[0].log
				} else {
					rb = gx.Fresh(src, c.log, map[string]interface{}{"g": c.g, "zero": int64(0), "mk": c15Mk})
				}
				c.err, c.pan = gx.CallGuarded(func() error { return m.Call(g, rb, p) })
				r, _ := g.GetRulesResultMap()
				c.res = gx.CopyResult(r)
			}
		},
		Check: func(s interface{}, ex *vsched.Exec) (fs []hx.Finding) {
			st := s.(*c15State)
			raw, _ := json.Marshal(cfg)
			what := cfg.Model
			if cfg.Pool != "" {
				what = "pool." + cfg.Pool
			}
			bad := func(sig, msg string) {
				d := fmt.Sprintf("\n  cfg=%s\n  rules:\n%s", raw, text)
				for i, c := range st.calls {
					d += fmt.Sprintf("  call %d: res=%v err=%v log=[%s] g=%+v\n", i+1, c.res, c.err != nil, c.log, *c.g)
				}
				fs = append(fs, hx.Finding{Sig: "c15:" + what + ":" + sig, Msg: msg + d})
			}
			if ex.Verdict != "" {
				bad(ex.Verdict, "execution did not complete: "+ex.Verdict+" "+firstLine(ex.Crash))
				return
			}
			model := cfg.Model
			if cfg.Pool != "" {
				model = poolModelName(cfg.Pool)
			}
			var rs []ref.RuleRef
			for i, k := range cfg.Kinds {
				rs = append(rs, ref.RuleRef{ID: int64(i), Name: ruleNames[i], Sal: int64(9 - 3*i), Fail: !c15IsW(k)})
			}
			b := cfg.B
			if cfg.Pool != "" {
				b = true
			}
			plans, _ := ref.Plans(model, rs, ref.Params{B: b, N: cfg.N, M: cfg.M, Names: cfg.Names, Dag: cfg.Dag})
			ran := map[int]bool{}
			if len(plans) > 0 && !plans[0].MustFail {
				for _, id := range ref.Executed(plans[0]) {
					ran[int(id)] = true
				}
			}
			for ci, c := range st.calls {
				if c.pan != nil {
					bad("panic", fmt.Sprintf("call %d panicked: %v", ci+1, c.pan))
					return
				}
				for i, k := range cfg.Kinds {
					name := ruleNames[i]
					own := int64(10 + i)
					if cfg.Pool != "" {
						own = int64(100 * (ci + 1))
					}
					v, has := c.res[name]
					if !ran[i] {
						continue
					}
					wantN := int64(1)
					if cfg.SameDc {
						wantN = int64(len(st.calls))
					}
					if c.g.n(i) != wantN {
						bad("shared-injected", fmt.Sprintf("call %d: rule %s ran but its update of the shared injected object is missing (g.N%d=%d)", ci+1, name, i, c.g.n(i)))
					}
					switch k {
					case "W", "WO":
						if !has || v != interface{}(own) {
							bad("own-value-lost", fmt.Sprintf("call %d: rule %s wrote %d to its local t and returned %v", ci+1, name, own, v))
						}
					default:
						if has {
							bad("local-leaked", fmt.Sprintf("call %d: rule %s never assigned its local t (or read it before assigning) yet returned %v: it saw another execution's local", ci+1, name, v))
						}
					}
				}
				for _, e := range c.log.Evs {
					if e.K == "w" && e.A != e.ID {
						bad("own-value-overwritten", fmt.Sprintf("call %d: the rule that wrote %d to its local t read back %d", ci+1, e.ID, e.A))
					}
				}
				anyFail := false
				for i, k := range cfg.Kinds {
					if ran[i] && !c15IsW(k) {
						anyFail = true
					}
				}
				if anyFail && c.err == nil && len(plans) > 0 && !plans[0].MustFail {
					bad("no-error", fmt.Sprintf("call %d: a rule read an undefined local but the call returned no error", ci+1))
				}
			}
			return
		},
		Outcome: func(s interface{}) string {
			st := s.(*c15State)
			var sb strings.Builder
			for _, c := range st.calls {
				fmt.Fprintf(&sb, "%v %v %s|", c.res, c.err != nil, c.log)
			}
			return sb.String()
		},
	}
}

// ---- a name that is a local in one call and injected in the next ----
//
// rules: r0 `t = 7`, r1 `return t`. Call 1 injects nothing under `t`: r0 writes its private local,
// r1 (another rule) must not see it. Call 2 on the same compiled rules injects `t` (pointer to an
// int64 holding 1): now the name is shared - r0's store reaches the host variable and r1 reads 7.
// Call 3 again without `t`. Run through the engine (same builder text, fresh data contexts) and
// through two sequential pool requests.

type roleCfg struct {
	Order []bool `json:"order"` // per call: is `t` injected?
	Pool  bool   `json:"pool"`
	Model string `json:"model"`
}

type roleState struct {
	hosts []*int64
	res   []map[string]interface{}
	errs  []error
	pans  []interface{}
}

const roleRules = "rule \"r0\" salience 9 begin\n  t = 7\nend\nrule \"r1\" salience 5 begin\n  return t\nend\n"

func roleScenario(cfg roleCfg) *hx.Scenario {
	src := compileCached(roleRules)
	var template *engine.GenginePool
	if cfg.Pool {
		var err error
		template, err = engine.NewGenginePool(1, 2, engine.SortModel, roleRules, map[string]interface{}{})
		if err != nil {
			vsched.InternalError("pool: %v", err)
		}
	}
	return &hx.Scenario{
		Name: "c15role",
		Cfg:  cfg,
		New:  func() interface{} { return &roleState{} },
		Body: func(s interface{}) {
			st := s.(*roleState)
			g := engine.NewGengine()
			var gp *engine.GenginePool
			if cfg.Pool {
				gp = gx.DeepClone(template).(*engine.GenginePool)
			}
			for _, inj := range cfg.Order {
				hv := new(int64)
				*hv = 1
				data := map[string]interface{}{}
				if inj {
					data["t"] = hv
				}
				var err error
				var pan interface{}
				var res map[string]interface{}
				if cfg.Pool {
					err, res, pan = gx.PoolCallGuarded(gx.PoolMethodByName(cfg.Model), gp, data, gx.PoolCallParams{B: true})
					vsched.WaitOthersDone()
				} else {
					m := gx.ModelByName(cfg.Model)
					rb := gx.Fresh(src, nil, data)
					err, pan = gx.CallGuarded(func() error { return m.Call(g, rb, gx.Params{B: true}) })
					res, _ = g.GetRulesResultMap()
				}
				st.hosts = append(st.hosts, hv)
				st.res = append(st.res, gx.CopyResult(res))
				st.errs = append(st.errs, err)
				st.pans = append(st.pans, pan)
			}
		},
		Check: func(s interface{}, ex *vsched.Exec) (fs []hx.Finding) {
			st := s.(*roleState)
			raw, _ := json.Marshal(cfg)
			bad := func(sig, msg string) {
				fs = append(fs, hx.Finding{Sig: "c15:role:" + sig, Msg: msg + fmt.Sprintf("\n  cfg=%s\n  rules:\n%s  results=%v", raw, roleRules, st.res)})
			}
			if ex.Verdict != "" {
				bad(ex.Verdict, "execution did not complete: "+ex.Verdict+" "+firstLine(ex.Crash))
				return
			}
			for i, inj := range cfg.Order {
				if st.pans[i] != nil {
					bad("panic", fmt.Sprintf("call %d panicked: %v", i+1, st.pans[i]))
					return
				}
				v, has := st.res[i]["r1"]
				if inj {
					if *st.hosts[i] != 7 {
						bad("injected-name-not-shared", fmt.Sprintf("call %d injects `t`; rule r0 assigned 7 to it but the host variable holds %d (the store went to a private local)", i+1, *st.hosts[i]))
					}
					p, ok := v.(*int64)
					if !has || !ok || *p != 7 {
						bad("injected-name-not-shared-read", fmt.Sprintf("call %d injects `t`; rule r1 must read the injected variable (7 after r0's store), it returned %v", i+1, v))
					}
				} else {
					if has {
						bad("local-leaked", fmt.Sprintf("call %d does not inject `t`; rule r1 never assigned it yet returned %v", i+1, v))
					}
					if st.errs[i] == nil {
						bad("no-error", fmt.Sprintf("call %d: rule r1 read an undefined local but the call returned no error", i+1))
					}
				}
			}
			return
		},
	}
}

func c15Configs(thorough bool) (cfgs []c15Cfg, bounds []int) {
	kinds := []string{"W", "R", "RW"}
	var sets [][]string
	for _, a := range kinds {
		sets = append(sets, []string{a})
		for _, b := range kinds {
			sets = append(sets, []string{a, b})
			for _, c := range kinds {
				sets = append(sets, []string{a, b, c})
			}
		}
	}
	// a writer that fails after writing (by a rule-level panic / by an error) followed by readers
	for _, w := range []string{"WP", "WE"} {
		sets = append(sets, []string{w, "R"}, []string{w, "RW"}, []string{"W", w, "R"}, []string{w, "R", "W"}, []string{w, w, "R"})
	}
	// locals that hold objects made for one execution (reads go through a method of the object)
	sets = append(sets, []string{"WO"}, []string{"WO", "WO"}, []string{"WO", "WO", "WO"}, []string{"WO", "W", "R"}, []string{"W", "WO", "RW"})
	nsets := len(sets)
	// every set once more with both calls on ONE builder and data context
	sets = append(sets, sets...)
	for si, set := range sets {
		for _, m := range c11Models() {
			names := m.names
			if names != nil {
				names = nil
				for i := range set {
					names = append(names, ruleNames[(i+1)%len(set)])
				}
			}
			var dag [][]string
			if m.dag != nil {
				if len(m.dag) == 2 {
					dag = [][]string{{"r0"}, {"r1", "r2"}}
				} else {
					dag = [][]string{{"r1", "r0", "r2"}}
				}
			}
			n, mm := m.n, m.m
			if n > 0 && len(set) < 3 {
				n, mm = 1, 1
			}
			cfgs = append(cfgs, c15Cfg{Kinds: set, Model: m.name, B: m.b, N: n, M: mm, Names: names, Dag: dag, SameDc: si >= nsets})
			b := 0
			if si >= nsets {
				b = -1 // the default schedule only
			} else if m.conc && len(set) >= 2 {
				b = 4 - len(set) // two rules: 2 preemptions, three rules: 1
				if thorough {
					b++
				}
			}
			bounds = append(bounds, b)
		}
	}
	for _, pmn := range []string{"Execute", "ExecuteConcurrent", "ExecuteMixModel", "ExecuteRulesWithMultiInputWithSpecifiedEM"} {
		for _, set := range [][]string{{"W", "R"}, {"W", "W", "RW"}, {"R", "W", "W"}, {"WO", "WO"}} {
			b := 2
			if thorough {
				b = 3
			}
			if pmn == "ExecuteConcurrent" || pmn == "ExecuteMixModel" {
				b--
			}
			cfgs = append(cfgs, c15Cfg{Kinds: set, Pool: pmn})
			bounds = append(bounds, b)
		}
	}
	return
}

func init() {
	hx.Register(&hx.Prop{
		ID:          "C15",
		Workers:     func(string) int { return 16 },
		BudgetQuick: 300 * time.Second,
		BudgetThor:  25 * time.Minute,
		Kind:        "schedules",
		Rule: "all rule sets of 1..3 rules over {W: writes its local t then reads it back, R: reads t without assigning, RW: reads t before first write} plus sets with WO (the local holds an object made for this execution by an injected function and is read through a method of it) plus sets with a writer that fails after writing (rule-level panic / ordinary error) followed by readers in every salience order x all 21 engine models (x policy) x two consecutive calls on one engine (each call with a data context of its own; and, under the default schedule, both calls on one builder and data context); goroutine-spawning models under every schedule with <=2 (thorough 3) deviations from the default scheduler (delay bounding); plus two overlapping pool requests running the same rules with request-unique values; plus call histories in which the same name is a rule local in one call and an injected (shared) name in the next, engine and pool; " +
			"plus rules whose only local is a forRange key (no assignment anywhere in the rule) followed by rules and calls that read that name; plus locals bound to injected values of every shape that Go copies on assignment (scalar, string, struct value, array, array element of a slice): a later store into the injected object - by the same rule or by another rule of the call - must not show through the local; oracle: R/RW never obtain a value (no result entry, error), every W returns and reads back its own value, updates of the shared injected object are all present",
		Assume: []string{"strict saliences", "each rule updates its own field of the shared injected object (a concurrent read-modify-write of one host field is the host's business)"},
		Run: func(c *hx.Ctx) {
			cfgs, bounds := c15Configs(c.Thorough())
			for i, cfg := range cfgs {
				if !c.Mine(i) {
					continue
				}
				if c.Expired() {
					c.Res.Capped = append(c.Res.Capped, "time budget before all configurations")
					break
				}
				if bounds[i] < 0 {
					hx.Explore("C15", c15Scenario(cfg), hx.ExploreCfg{Bound: 0, DefaultOnly: true}, c.Res)
					continue
				}
				db := bounds[i]
				if c.Thorough() && db > 0 {
					db = 3
				}
				hx.Explore("C15", c15Scenario(cfg), hx.ExploreCfg{Bound: envBound(delayBound(c, db)), Delay: true, Prune: true, Deadline: c.Deadline}, c.Res)
			}
			if c.Shard == 0 {
				for _, m := range []string{"Execute", "ExecuteConcurrent", "ExecuteMixModel"} {
					hx.Explore("C15", aliasScenario(m), hx.ExploreCfg{Bound: 0, DefaultOnly: true}, c.Res)
					hx.Explore("C15", keyScenario(m), hx.ExploreCfg{Bound: 0, DefaultOnly: true}, c.Res)
				}
			}
			if c.Shard == 0 {
				for _, order := range [][]bool{{false, true}, {true, false}, {false, true, false}, {true, false, true}, {false, false, true}} {
					for _, m := range []string{"Execute", "ExecuteConcurrent", "ExecuteMixModel"} {
						hx.Explore("C15", roleScenario(roleCfg{Order: order, Model: m}), hx.ExploreCfg{Bound: 0, DefaultOnly: true}, c.Res)
						hx.Explore("C15", roleScenario(roleCfg{Order: order, Model: m, Pool: true}), hx.ExploreCfg{Bound: 0, DefaultOnly: true}, c.Res)
					}
				}
			}
		},
		Rebuild: func(v *hx.Violation) *hx.Scenario {
			if v.Scenario == "c15role" {
				var rc roleCfg
				json.Unmarshal(v.Cfg, &rc)
				return roleScenario(rc)
			}
			var cfg c15Cfg
			json.Unmarshal(v.Cfg, &cfg)
			return c15Scenario(cfg)
		},
	})
}

// ---- a local holds a copy of what Go copies on assignment ----
// `t = g.Arr` binds the local to the VALUE of the injected array field (likewise scalar, string and
// struct-valued fields): later stores into the injected object must not show through the local, in
// the same rule or in another one. (Slices, maps and pointers share their target - not judged.)

type aliasIn struct{ F int64 }

type aliasG struct {
	N   int64
	S   string
	Arr [2]int64
	St  aliasIn
	Sl  [][2]int64
}

type aliasState struct {
	g    *aliasG
	seen [][]interface{}
	err  error
	pan  interface{}
}

const aliasRules = `
rule "r0" salience 9 begin
  n = g.N
  s = g.S
  a = g.Arr
  st = g.St
  e = g.Sl[0]
  g.N = 50
  g.S = "changed"
  g.Arr[0] = 42
  g.Arr[1] = 43
  g.St.F = 44
  see(0, n, s, a[0], a[1], st.F, e[0])
end
rule "r1" salience 5 begin
  a = g.Arr
  n = g.N
  see(1, n, "", a[0], a[1], 0, 0)
  g.Arr[0] = 99
  g.N = 98
  see(2, n, "", a[0], a[1], 0, 0)
end
`

func aliasScenario(model string) *hx.Scenario {
	src := compileCached(aliasRules)
	return &hx.Scenario{
		Name: "c15alias",
		Cfg:  model,
		New: func() interface{} {
			return &aliasState{g: &aliasG{N: 1, S: "orig", Arr: [2]int64{1, 2}, St: aliasIn{F: 3}, Sl: [][2]int64{{4, 5}}}}
		},
		Body: func(s interface{}) {
			st := s.(*aliasState)
			see := func(tag, n int64, str string, a0, a1, f, e0 int64) {
				vsched.Obs()
				if !vsched.Aborted() {
					st.seen = append(st.seen, []interface{}{tag, n, str, a0, a1, f, e0})
				}
			}
			rb := gx.Fresh(src, nil, map[string]interface{}{"g": st.g, "see": see})
			g := engine.NewGengine()
			m := gx.ModelByName(model)
			st.err, st.pan = gx.CallGuarded(func() error { return m.Call(g, rb, gx.Params{B: true}) })
		},
		Check: func(s interface{}, ex *vsched.Exec) (fs []hx.Finding) {
			st := s.(*aliasState)
			bad := func(sig, msg string) {
				fs = append(fs, hx.Finding{Sig: "c15:alias:" + model + ":" + sig, Msg: msg + fmt.Sprintf("\n  model=%s rules:%s  observed=%v err=%v", model, aliasRules, st.seen, st.err)})
			}
			if ex.Verdict != "" || st.pan != nil {
				bad("did-not-complete", fmt.Sprintf("verdict %q panic %v %s", ex.Verdict, st.pan, firstLine(ex.Crash)))
				return
			}
			if st.err != nil {
				bad("error", "the rules are healthy but the call failed")
				return
			}
			for _, o := range st.seen {
				switch o[0].(int64) {
				case 0:
					want := []interface{}{int64(0), int64(1), "orig", int64(1), int64(2), int64(3), int64(4)}
					if fmt.Sprint(o) != fmt.Sprint(want) {
						bad("local-aliases-injected", fmt.Sprintf("rule r0 bound its locals to the injected values, then stored into the injected object; its locals now read %v, want %v (the values at the time of the assignment)", o[1:], want[1:]))
					}
				case 2:
					// r1's locals were bound before its own stores: n and a must still hold what see(1,..) saw
					var first []interface{}
					for _, p := range st.seen {
						if p[0].(int64) == 1 {
							first = p
						}
					}
					if first != nil && fmt.Sprint(o[1:]) != fmt.Sprint(first[1:]) {
						bad("local-aliases-injected", fmt.Sprintf("rule r1's locals read %v before and %v after its stores into the injected object", first[1:], o[1:]))
					}
				}
			}
			if st.g.Arr != [2]int64{99, 43} && model == "Execute" {
				bad("host-effect", fmt.Sprintf("host array is %v, want [99 43]", st.g.Arr))
			}
			return
		},
	}
}

// ---- a rule whose only local is the key of a forRange (it contains no assignment at all) ----

const keyRules = `
rule "k0" salience 9 begin
  forRange t := L {
    see(0, t)
  }
end
rule "k1" salience 5 begin
  see(1, t)
end
rule "k2" salience 1 begin
  forRange u := L {
    see(2, u)
  }
  see(3, t)
end
`

type keyState struct {
	seen [][2]int64
	errs [2]error
	pan  interface{}
}

func keyScenario(model string) *hx.Scenario {
	src := compileCached(keyRules)
	return &hx.Scenario{
		Name: "c15key",
		Cfg:  model,
		New:  func() interface{} { return &keyState{} },
		Body: func(s interface{}) {
			st := s.(*keyState)
			see := func(tag, v int64) {
				vsched.Obs()
				if !vsched.Aborted() {
					st.seen = append(st.seen, [2]int64{tag, v})
				}
			}
			g := engine.NewGengine()
			m := gx.ModelByName(model)
			for call := 0; call < 2 && st.pan == nil; call++ {
				rb := gx.Fresh(src, nil, map[string]interface{}{"L": []int64{7, 8}, "see": see})
				st.errs[call], st.pan = gx.CallGuarded(func() error { return m.Call(g, rb, gx.Params{B: true}) })
			}
		},
		Check: func(s interface{}, ex *vsched.Exec) (fs []hx.Finding) {
			st := s.(*keyState)
			bad := func(sig, msg string) {
				fs = append(fs, hx.Finding{Sig: "c15:key:" + model + ":" + sig, Msg: msg + fmt.Sprintf("\n  model=%s rules:%s  observed (tag,value)=%v errors=[%v %v]", model, keyRules, st.seen, st.errs[0] != nil, st.errs[1] != nil)})
			}
			if ex.Verdict != "" || st.pan != nil {
				bad("did-not-complete", fmt.Sprintf("verdict %q panic %v %s", ex.Verdict, st.pan, firstLine(ex.Crash)))
				return
			}
			for _, o := range st.seen {
				if o[0] == 1 || o[0] == 3 {
					bad("key-leaked", fmt.Sprintf("a rule that never defined `t` read the value %d from it: the forRange key of another rule execution is visible", o[1]))
					return
				}
			}
			for i, e := range st.errs {
				if e == nil {
					bad("no-error", fmt.Sprintf("call %d: rules k1 and k2 read the undefined name `t`, yet the call returned no error", i+1))
				}
			}
			return
		},
	}
}
