package main

import (
	"os"
	"time"

	"github.com/bilibili/gengine/engine"

	"verif/harness/gx"
	"verif/harness/hx"
)

// C17 - pool capacity: at most max in flight, waiters proceed, instances are never lost.

func c17Configs(thorough bool) (cfgs []poolCfg, bounds []int) {
	add := func(c poolCfg, b int) {
		c.Prop = "C17"
		c.Phase2 = true
		cfgs = append(cfgs, c)
		bounds = append(bounds, b)
	}
	ok, pn, er := reqSpec{Mode: modeOK, Other: true}, reqSpec{Mode: modePanic, Other: true}, reqSpec{Mode: modeError, Other: true}
	nm := reqSpec{Mode: modeNilMap, Other: true}
	b := 2
	for _, meth := range []string{"Execute", "ExecuteRulesWithSpecifiedEM"} {
		b = 2
		if thorough && meth == "Execute" {
			b = 3 // three deviations for one method; everywhere does not finish in the budget
		}
		// M+1 clients x 1 request, fault subsets of size <= 1 (<= 2 thorough)
		for _, first := range []reqSpec{ok, pn, er} {
			add(poolCfg{Min: 1, Max: 2, EM: engine.SortModel, Method: meth, Clients: [][]reqSpec{{first}, {ok}, {ok}}}, b)
			if thorough && first != ok {
				add(poolCfg{Min: 1, Max: 2, EM: engine.SortModel, Method: meth, Clients: [][]reqSpec{{first}, {pn}, {ok}}}, b)
				add(poolCfg{Min: 1, Max: 2, EM: engine.SortModel, Method: meth, Clients: [][]reqSpec{{first}, {er}, {ok}}}, b)
			}
		}
		// M clients x 2 requests (instances are reused)
		for _, first := range []reqSpec{ok, pn, er, nm} {
			if first == nm && meth != "Execute" {
				continue
			}
			add(poolCfg{Min: 1, Max: 2, EM: engine.SortModel, Method: meth, Clients: [][]reqSpec{{first, ok}, {ok, ok}}}, b)
		}
	}
	b = 2
	// pools whose free / additional list can hold one instance while another is being handed back
	for _, sz := range [][2]int64{{2, 3}, {1, 3}} {
		add(poolCfg{Min: sz[0], Max: sz[1], EM: engine.SortModel, Method: "Execute", Clients: [][]reqSpec{{ok}, {ok}, {ok}}}, b)
		add(poolCfg{Min: sz[0], Max: sz[1], EM: engine.SortModel, Method: "Execute", Clients: [][]reqSpec{{ok, ok}, {ok, pn}}}, b)
		add(poolCfg{Min: sz[0], Max: sz[1], EM: engine.SortModel, Method: "ExecuteRulesWithSpecifiedEM", Clients: [][]reqSpec{{ok}, {er}, {ok}, {ok}}}, b)
	}
	// M+2 clients: two requests wait at the same time while instances come back
	add(poolCfg{Min: 2, Max: 3, EM: engine.SortModel, Method: "Execute", Clients: [][]reqSpec{{ok}, {ok}, {ok}, {ok}, {ok}}}, b)
	add(poolCfg{Min: 1, Max: 3, EM: engine.SortModel, Method: "Execute", Clients: [][]reqSpec{{ok}, {ok}, {ok}, {ok}, {ok}}}, b)
	if thorough {
		add(poolCfg{Min: 2, Max: 4, EM: engine.SortModel, Method: "Execute", Clients: [][]reqSpec{{ok}, {pn}, {ok}, {er}, {ok}}}, 2)
		add(poolCfg{Min: 3, Max: 4, EM: engine.SortModel, Method: "Execute", Clients: [][]reqSpec{{ok, ok}, {ok}, {ok}, {ok}}}, 2)
	}
	// stop-on-error paths of the staged models: the failing request must not come back (and hand its
	// instance on) while rules it started are still running
	for _, meth := range []string{"ExecuteNConcurrentMConcurrent", "ExecuteNConcurrentMSort", "ExecuteNSortMConcurrent", "ExecuteSelectedNConcurrentMConcurrent", "ExecuteSelectedNConcurrentMSort"} {
		add(poolCfg{Min: 1, Max: 2, EM: engine.SortModel, Method: meth, StopOnErr: true, NM: [2]int{2, 1}, Clients: [][]reqSpec{{pn}, {ok}}}, 1)
		add(poolCfg{Min: 1, Max: 2, EM: engine.SortModel, Method: meth, StopOnErr: true, NM: [2]int{2, 1}, Clients: [][]reqSpec{{er, ok}}}, 1)
	}
	// the rules are cleared (and installed again) while every instance is inside a rule and further
	// requests wait: whatever those requests return, no instance may be lost
	gt := reqSpec{Mode: modeGate, Other: true}
	add(poolCfg{Min: 1, Max: 2, EM: engine.SortModel, Method: "Execute", Clear: true, Clients: [][]reqSpec{{gt}, {gt}, {ok}}}, 2)
	add(poolCfg{Min: 1, Max: 2, EM: engine.SortModel, Method: "ExecuteRulesWithSpecifiedEM", Clear: true, Clients: [][]reqSpec{{gt}, {gt}, {ok}, {ok}}}, 2)
	// every execute method: a client issuing ok / panicking / failing requests, then the conservation phase
	for _, m := range gx.PoolMethods {
		ems := []int{engine.SortModel}
		if m.UsesEM {
			ems = []int{engine.SortModel, engine.ConcurrentModel, engine.MixModel, engine.InverseMixModel}
		}
		for _, em := range ems {
			bb := 1
			if m.Conc || em != engine.SortModel {
				bb = 0
				if thorough {
					bb = 1
				}
			}
			add(poolCfg{Min: 1, Max: 2, EM: em, Method: m.Name, Clients: [][]reqSpec{{ok, pn, er, nm, ok}}}, bb)
			add(poolCfg{Min: 1, Max: 2, EM: em, Method: m.Name, Clients: [][]reqSpec{{pn}, {er}}}, bb)
		}
	}
	return
}

func runPoolConfigs(c *hx.Ctx, prop string, cfgs []poolCfg, bounds []int) {
	// the big configurations are explored by all workers together (level-1 subtrees dealt round-robin);
	// the many small ones are dealt one per worker
	for i, cfg := range cfgs {
		if c.Expired() {
			c.Res.Capped = append(c.Res.Capped, "time budget before all configurations")
			break
		}
		ec := hx.ExploreCfg{Bound: envBound(delayBound(c, bounds[i])), Delay: os.Getenv("HX_PREEMPT") == "", Prune: true, Deadline: c.Deadline}
		cfg := cfg
		exploreShared(c, prop, i, func() *hx.Scenario { return poolScenario(cfg) }, ec)
	}
}

func init() {
	hx.Register(&hx.Prop{
		ID:          "C17",
		Workers:     func(string) int { return 16 },
		BudgetQuick: 300 * time.Second,
		BudgetThor:  30 * time.Minute,
		Kind:        "schedules",
		Rule: "pools (1,2), (2,3), (1,3) [thorough also (2,4),(3,4)]: M+1 (and M+2) clients x 1 request and M clients x 2 requests through Execute / ExecuteRulesWithSpecifiedEM with every fault subset of size <=1 (2) (injected panic, rule error, a store that panics inside reflect), every schedule with <=2 deviations from the default scheduler (delay bounding; thorough: 3 for Execute on pool (1,2), more fault pairs and pools) incl. the busy-wait loop (fair yield) and the asynchronous put goroutines; " +
			"plus every one of the 24 execute methods x applicable execution models with ok/panicking/failing requests, the stop-on-error paths of the five staged methods, and ClearPoolRules + re-installation landing while all instances are busy and requests wait; after quiescence a conservation phase holds max requests inside a rule simultaneously (a lost instance = hang verdict). Oracle: in-flight rule bodies <= max, every request returns, errors only for a request's own faults, every rule body runs once, no rule of a request is still running after the request's pool call has returned",
		Assume:  []string{"injected functions terminate", "sequentially consistent memory (races are C19's subject)", "a fresh pool is constructed per execution"},
		Run:     func(c *hx.Ctx) { cfgs, b := c17Configs(c.Thorough()); runPoolConfigs(c, "C17", cfgs, b) },
		Rebuild: rebuildPool,
	})
}
