package main

import (
	"time"

	"github.com/bilibili/gengine/engine"

	"verif/harness/gx"
	"verif/harness/hx"
)

// C06 - pool requests are isolated from each other.

func c06Configs(thorough bool) (cfgs []poolCfg, bounds []int) {
	add := func(c poolCfg, b int) {
		c.Prop = "C06"
		c.Phase2 = true
		cfgs = append(cfgs, c)
		bounds = append(bounds, b)
	}
	with, without := reqSpec{Mode: modeOK, Other: true}, reqSpec{Mode: modeOK}
	pn := reqSpec{Mode: modePanic, Other: true}
	seq := []string{"ExecuteRulesWithSpecifiedEM", "ExecuteRulesWithMultiInputWithSpecifiedEM", "Execute", "ExecuteSelectedRules"}
	conc := []string{"ExecuteConcurrent", "ExecuteMixModel", "ExecuteNSortMConcurrent", "ExecuteDAGModel"}
	bs, bc := 2, 1
	if thorough {
		bc = 2
	}
	for _, meth := range seq {
		b3 := bs
		if thorough && meth == "Execute" {
			b3 = 3 // three deviations for one representative method (does not finish for all within the budget)
		}
		add(poolCfg{Min: 1, Max: 2, EM: engine.SortModel, Method: meth, Clients: [][]reqSpec{{with}, {without}, {with}}}, b3)
		add(poolCfg{Min: 1, Max: 2, EM: engine.SortModel, Method: meth, Clients: [][]reqSpec{{with, without}, {without, with}}}, bs)
		if thorough {
			add(poolCfg{Min: 1, Max: 2, EM: engine.SortModel, Method: meth, Clients: [][]reqSpec{{pn, without}, {with, with}}}, bs)
			add(poolCfg{Min: 2, Max: 3, EM: engine.SortModel, Method: meth, Clients: [][]reqSpec{{with}, {without}, {with}, {without}}}, 2)
		}
	}
	// a request in which no rule returns anything: its (empty) result map must stay empty afterwards
	nr := reqSpec{Mode: modeNoRet, Other: true}
	for _, meth := range []string{"Execute", "ExecuteConcurrent", "ExecuteMixModel", "ExecuteInverseMixModel", "ExecuteDAGModel", "ExecuteSelectedRules"} {
		add(poolCfg{Min: 1, Max: 2, EM: engine.SortModel, Method: meth, Clients: [][]reqSpec{{nr, with, nr, without}}}, 1)
	}
	// a request parked inside its rule (gate) on an instance that was just handed back: whatever the
	// previous request still does to that instance's data context hits it
	gt := reqSpec{Mode: modeGate, Other: true}
	if thorough {
		// three deviations are needed before anything can go wrong here: thorough tier only
		add(poolCfg{Min: 1, Max: 2, EM: engine.SortModel, Method: "ExecuteRulesWithSpecifiedEM", GateAfter: 1, Clients: [][]reqSpec{{with}, {gt}, {gt}}}, 3)
	}
	for _, meth := range conc {
		add(poolCfg{Min: 1, Max: 2, EM: engine.SortModel, Method: meth, Clients: [][]reqSpec{{with, without}, {without, with}}}, bc)
		if thorough {
			add(poolCfg{Min: 1, Max: 2, EM: engine.SortModel, Method: meth, Clients: [][]reqSpec{{with}, {without}, {with}}}, bc)
		}
	}
	// stop-on-error paths of the staged models: a failing first-stage rule next to healthy ones, the
	// instance reused by the next request (a rule that is still running would see that request's data)
	er := reqSpec{Mode: modeError, Other: true}
	for _, meth := range []string{"ExecuteNConcurrentMConcurrent", "ExecuteNConcurrentMSort", "ExecuteNSortMConcurrent", "ExecuteSelectedNConcurrentMConcurrent"} {
		for _, nm := range [][2]int{{2, 1}, {1, 2}} {
			add(poolCfg{Min: 1, Max: 2, EM: engine.SortModel, Method: meth, StopOnErr: true, NM: nm, Clients: [][]reqSpec{{pn, with, er, without}}}, bc)
			add(poolCfg{Min: 1, Max: 2, EM: engine.SortModel, Method: meth, StopOnErr: true, NM: nm, Clients: [][]reqSpec{{pn}, {with}}}, bc)
		}
	}
	// every execute method x applicable execution model: sequential reuse of one instance (stale keys,
	// stale result maps) and two overlapping requests
	for _, m := range gx.PoolMethods {
		ems := []int{engine.SortModel}
		if m.UsesEM {
			ems = []int{engine.SortModel, engine.ConcurrentModel, engine.MixModel, engine.InverseMixModel}
		}
		for _, em := range ems {
			bb := 1
			if m.Conc || em != engine.SortModel {
				bb = 0
				if thorough {
					bb = 1
				}
			}
			add(poolCfg{Min: 1, Max: 2, EM: em, Method: m.Name, Clients: [][]reqSpec{{with, without, pn, without}}}, bb)
			add(poolCfg{Min: 1, Max: 2, EM: em, Method: m.Name, Clients: [][]reqSpec{{with}, {without}}}, bb)
			// a request with nothing to run (empty name list / empty DAG) after an ordinary one on the same instance
			// (one deviation from the default schedule: the hand-back goroutine of the earlier request lands in between)
			add(poolCfg{Min: 1, Max: 2, EM: em, Method: m.Name, Clients: [][]reqSpec{{with, reqSpec{Mode: modeEmpty}, without, reqSpec{Mode: modeEmpty, Other: true}}}}, 1)
		}
	}
	return
}

func init() {
	hx.Register(&hx.Prop{
		ID:          "C06",
		Workers:     func(string) int { return 16 },
		BudgetQuick: 300 * time.Second,
		BudgetThor:  30 * time.Minute,
		Kind:        "schedules",
		Rule: "pool (1,2) [thorough also (2,3)]: 3 clients x 1 request and 2 clients x 2 requests (instances reused), some requests injecting an extra key `other`, through 4 sequential-model and 4 goroutine-spawning execute methods, every schedule with <=2 deviations from the default scheduler (delay bounding; thorough: 3 for one representative method, 2 instead of 1 for the goroutine-spawning methods, more client mixes and pool (2,3)); plus all 24 execute methods x applicable execution models with sequential reuse (incl. requests with an empty name list / empty DAG after ordinary ones) and two overlapping requests; " +
			"after quiescence a deterministic probe phase sends requests that inject nothing to every instance. Oracle: every observer call inside a rule sees only its own request's ids/keys, the host response object and every result-map value are computed from the own request, a handed-back result map is never modified later, probes find no data of earlier requests",
		Assume:  []string{"injected functions terminate", "sequentially consistent memory (races are C19's subject)", "the host does not share objects between requests on purpose"},
		Run:     func(c *hx.Ctx) { cfgs, b := c06Configs(c.Thorough()); runPoolConfigs(c, "C06", cfgs, b) },
		Rebuild: rebuildPool,
	})
}
