package main

import (
	"encoding/json"
	"fmt"
	"os"
	"strings"
	"time"

	"github.com/bilibili/gengine/engine"
	"github.com/bilibili/gengine/verifrt/vsched"

	"verif/harness/gx"
	"verif/harness/hx"
	"verif/harness/ref"
)

// C07 - hot updates are atomic per execution and visible to every later execution.

type c07Rule struct {
	Name string
	Sal  int64
	Tag  string
}

func c07Text(rs []c07Rule) string {
	var sb strings.Builder
	for _, r := range rs {
		fmt.Fprintf(&sb, "rule \"%s\" salience %d begin\n  hook(\"%s\")\n  return \"%s\"\nend\n", r.Name, r.Sal, r.Name, r.Tag)
	}
	return sb.String()
}

func c07Set(rs []c07Rule) ref.RuleSet {
	s := ref.RuleSet{}
	for _, r := range rs {
		s[r.Name] = ref.RuleInfo{Salience: r.Sal, BodyTag: r.Tag}
	}
	return s
}

var (
	c07V1   = []c07Rule{{"a", 9, "1a"}, {"b", 7, "1b"}, {"c", 5, "1c"}, {"d", 3, "1d"}}
	c07Full = []c07Rule{{"a", 9, "2a"}, {"b", 7, "2b"}, {"c", 5, "2c"}, {"f", 3, "2f"}}
	c07Incr = []c07Rule{{"b", 7, "3b"}, {"e", 1, "3e"}}
	c07Move = []c07Rule{{"a", 2, "5a"}, {"c", 8, "5c"}} // one incremental call moving two existing rules past their neighbours
	c07Rm   = []string{"a"}
	c07Dag  = [][]string{{"a", "b"}, {"c", "d", "e", "f"}}
)

func c07ApplyRef(s ref.RuleSet, kind string) ref.RuleSet {
	switch kind {
	case "full":
		return ref.Replace(s, c07Set(c07Full))
	case "incr":
		return ref.Merge(s, c07Set(c07Incr))
	case "incrmove":
		return ref.Merge(s, c07Set(c07Move))
	case "remove":
		return ref.Remove(s, c07Rm)
	case "full0": // a full update with the text the pool was constructed from
		return ref.Replace(s, c07Set(c07V1))
	}
	return s
}

func c07ApplyPool(gp *engine.GenginePool, kind string) error {
	switch kind {
	case "full":
		return gp.UpdatePooledRules(c07Text(c07Full))
	case "incr":
		return gp.UpdatePooledRulesIncremental(c07Text(c07Incr))
	case "incrmove":
		return gp.UpdatePooledRulesIncremental(c07Text(c07Move))
	case "remove":
		return gp.RemoveRules(c07Rm)
	case "full0":
		return gp.UpdatePooledRules(c07Text(c07V1))
	case "badfull": // a full update that does not compile: must fail and change nothing
		return gp.UpdatePooledRules("rule \"a\" begin x = = end")
	}
	return nil
}

// pool method + parameters for the execution models offered by the pool
var c07Models = map[string]struct {
	method string
	p      gx.PoolCallParams
	model  string // engine model name for the reference plan
}{
	"sort":      {"Execute", gx.PoolCallParams{B: true}, "Execute"},
	"conc":      {"ExecuteConcurrent", gx.PoolCallParams{}, "ExecuteConcurrent"},
	"mix":       {"ExecuteMixModel", gx.PoolCallParams{}, "ExecuteMixModel"},
	"inverse":   {"ExecuteInverseMixModel", gx.PoolCallParams{}, "ExecuteInverseMixModel"},
	"nsortmc":   {"ExecuteNSortMConcurrent", gx.PoolCallParams{B: true, N: 2, M: 2}, "ExecuteNSortMConcurrent"},
	"ncmsort":   {"ExecuteNConcurrentMSort", gx.PoolCallParams{B: true, N: 2, M: 2}, "ExecuteNConcurrentMSort"},
	"ncmc":      {"ExecuteNConcurrentMConcurrent", gx.PoolCallParams{B: true, N: 2, M: 2}, "ExecuteNConcurrentMConcurrent"},
	"dag":       {"ExecuteDAGModel", gx.PoolCallParams{Dag: c07Dag}, "ExecuteDAGModel"},
	"selected":  {"ExecuteSelectedRules", gx.PoolCallParams{Names: []string{"d", "a", "e", "b"}}, "ExecuteSelectedRules"},
	"specified": {"ExecuteRulesWithMultiInputWithSpecifiedEM", gx.PoolCallParams{}, "Execute"},
}

type c07Cfg struct {
	Updates  []string `json:"updates"`            // update kinds performed by the updater thread, in order
	Execs    []string `json:"execs"`              // execution models, one client thread each
	Inside   string   `json:"inside,omitempty"`   // update kind triggered from inside rule "a" of the first execution (no updater thread)
	After    bool     `json:"after,omitempty"`    // the executions start only after the updater has finished
	Updates2 []string `json:"updates2,omitempty"` // a second updater thread running concurrently with the first; the executions start after both have finished
	Serial   bool     `json:"serial,omitempty"`   // one client thread issues the executions one after the other (instances are reused)
	Auto     bool     `json:"auto,omitempty"`     // racy access sites become scheduling points (iterated to a fix-point)
}

type c07Exec struct {
	res  map[string]interface{}
	err  error
	pan  interface{}
	call int // log positions
	ret  int
}

type c07State struct {
	log        *gx.Log
	execs      []*c07Exec
	uerr       []error
	upan       []interface{}
	uerr2      []error
	upan2      []interface{}
	gp         *engine.GenginePool
	insideDone bool
	cfg        c07Cfg
}

var c07Active *c07State

func c07Apis() map[string]interface{} {
	return map[string]interface{}{
		"hook": func(name string) {
			st := c07Active
			vsched.Obs()
			if vsched.Aborted() || st == nil {
				return
			}
			if st.cfg.Inside != "" && name == "a" && !st.insideDone {
				st.insideDone = true
				st.log.Ev("ucall", 0)
				var e error
				e, p := gx.CallGuarded(func() error { return c07ApplyPool(st.gp, st.cfg.Inside) })
				st.uerr[0], st.upan[0] = e, p
				st.log.Ev("uret", 0)
			}
		},
	}
}

func c07Scenario(cfg c07Cfg) *hx.Scenario {
	template, err := engine.NewGenginePool(1, 2, engine.SortModel, c07Text(c07V1), c07Apis())
	if err != nil {
		vsched.InternalError("pool: %v", err)
	}
	nup := len(cfg.Updates)
	if cfg.Inside != "" {
		nup = 1
	}
	return &hx.Scenario{
		Name: "c07",
		Cfg:  cfg,
		Opts: vsched.Options{Horizon: 50000},
		New: func() interface{} {
			st := &c07State{log: &gx.Log{}, cfg: cfg, uerr: make([]error, nup), upan: make([]interface{}, nup)}
			for range cfg.Execs {
				st.execs = append(st.execs, &c07Exec{call: -1, ret: -1})
			}
			return st
		},
		Body: func(s interface{}) {
			st := s.(*c07State)
			c07Active = st
			st.gp = gx.DeepClone(template).(*engine.GenginePool)
			updater := func() {
				for i, k := range cfg.Updates {
					st.log.Ev("ucall", int64(i))
					st.uerr[i], st.upan[i] = gx.CallGuarded(func() error { return c07ApplyPool(st.gp, k) })
					st.log.Ev("uret", int64(i))
				}
			}
			client := func(j int) {
				m := c07Models[cfg.Execs[j]]
				x := st.execs[j]
				st.log.Ev("xcall", int64(j))
				x.call = len(st.log.Evs) - 1
				var res map[string]interface{}
				x.err, res, x.pan = gx.PoolCallGuarded(gx.PoolMethodByName(m.method), st.gp, map[string]interface{}{"k": int64(j)}, m.p)
				x.res = gx.CopyResult(res)
				st.log.Ev("xret", int64(j))
				x.ret = len(st.log.Evs) - 1
			}
			if len(cfg.Updates2) > 0 {
				// two update calls race with each other; executions look at the outcome afterwards
				vsched.Go(updater)
				vsched.Go(func() {
					for _, k := range cfg.Updates2 {
						e, p := gx.CallGuarded(func() error { return c07ApplyPool(st.gp, k) })
						st.uerr2, st.upan2 = append(st.uerr2, e), append(st.upan2, p)
					}
				})
				vsched.WaitOthersDone()
			} else if cfg.Inside == "" {
				if cfg.After {
					updater()
				} else {
					vsched.Go(updater)
				}
			}
			if cfg.Serial {
				vsched.Go(func() {
					for j := range cfg.Execs {
						client(j)
					}
				})
			} else {
				for j := range cfg.Execs {
					j := j
					vsched.Go(func() { client(j) })
				}
			}
			vsched.WaitOthersDone()
		},
		Check: func(s interface{}, ex *vsched.Exec) (fs []hx.Finding) {
			st := s.(*c07State)
			raw, _ := json.Marshal(cfg)
			bad := func(sig, msg string) {
				d := fmt.Sprintf("\n  cfg=%s\n  log=[%s]", raw, st.log)
				for j, x := range st.execs {
					d += fmt.Sprintf("\n  execution %d (%s): result=%v err=%v", j, cfg.Execs[j], x.res, x.err)
				}
				fs = append(fs, hx.Finding{Sig: "c07:" + sig, Msg: msg + d})
			}
			if ex.Verdict != "" {
				bad(ex.Verdict, "execution did not complete: "+ex.Verdict+" "+firstLine(ex.Crash))
				return
			}
			if len(cfg.Updates2) > 0 {
				for i, p := range append(append([]interface{}{}, st.upan...), st.upan2...) {
					if p != nil {
						bad("update-panic:concurrent-updates", fmt.Sprintf("update call %d panicked while another update call was running: %v", i, p))
						return
					}
				}
				for _, e := range append(append([]error{}, st.uerr...), st.uerr2...) {
					if e != nil {
						bad("update-error:concurrent-updates", fmt.Sprintf("an update call failed while another update call was running: %v", e))
						return
					}
				}
				// every serial order of the two updaters' calls that respects each updater's own order
				finals := map[string]ref.RuleSet{}
				var rec func(s ref.RuleSet, a, b []string)
				rec = func(s ref.RuleSet, a, b []string) {
					if len(a) == 0 && len(b) == 0 {
						finals[s.String()] = s
						return
					}
					if len(a) > 0 {
						rec(c07ApplyRef(s, a[0]), a[1:], b)
					}
					if len(b) > 0 {
						rec(c07ApplyRef(s, b[0]), a, b[1:])
					}
				}
				rec(c07Set(c07V1), cfg.Updates, cfg.Updates2)
				for j, x := range st.execs {
					m := c07Models[cfg.Execs[j]]
					if x.pan != nil {
						bad(cfg.Execs[j]+":panic", fmt.Sprintf("execution %d panicked: %v", j, x.pan))
						continue
					}
					ok := false
					var wants []string
					for _, f := range finals {
						want, wantErr := c07Expect(f, m.model, m.p)
						wants = append(wants, fmt.Sprint(want))
						if sameResult(x.res, want) == "" && wantErr == (x.err != nil) {
							ok = true
						}
					}
					if !ok {
						bad(cfg.Execs[j]+":lost-update", fmt.Sprintf("execution %d, started after two concurrent update calls had both returned, ran %v: no serial order of those calls installs that (possible: %v)", j, x.res, wants))
					}
				}
				return
			}
			// reference snapshots
			kinds := cfg.Updates
			if cfg.Inside != "" {
				kinds = []string{cfg.Inside}
			}
			snaps := []ref.RuleSet{c07Set(c07V1)}
			for i, k := range kinds {
				if st.upan[i] != nil {
					bad("update-panic:"+k, fmt.Sprintf("update %d (%s) panicked: %v", i, k, st.upan[i]))
					return
				}
				if k == "badfull" {
					if st.uerr[i] == nil {
						bad("update-accepted:"+k, fmt.Sprintf("update %d (a text that does not compile) was accepted", i))
						return
					}
				} else if st.uerr[i] != nil {
					bad("update-error:"+k, fmt.Sprintf("update %d (%s) failed: %v", i, k, st.uerr[i]))
					return
				}
				snaps = append(snaps, c07ApplyRef(snaps[len(snaps)-1], k))
			}
			// positions of update call/return events
			ucall := make([]int, len(kinds))
			uret := make([]int, len(kinds))
			for i := range kinds {
				ucall[i] = st.log.Index("ucall", int64(i), 0)
				uret[i] = st.log.Index("uret", int64(i), 0)
			}
			for j, x := range st.execs {
				mname := cfg.Execs[j]
				m := c07Models[mname]
				if x.pan != nil {
					bad(mname+":panic", fmt.Sprintf("execution %d panicked: %v", j, x.pan))
					continue
				}
				lo, hi := 0, 0
				for i := range kinds {
					if uret[i] >= 0 && uret[i] < x.call {
						lo = i + 1
					}
					if ucall[i] >= 0 && ucall[i] < x.ret {
						hi = i + 1
					}
				}
				match := -1
				var wants []string
				for k := 0; k < len(snaps); k++ {
					want, wantErr := c07Expect(snaps[k], m.model, m.p)
					wants = append(wants, fmt.Sprintf("v%d:%v", k, want))
					if sameResult(x.res, want) == "" && wantErr == (x.err != nil) {
						if match < 0 || (k >= lo && k <= hi) {
							match = k
						}
					}
				}
				switch {
				case match < 0:
					bad(mname+":torn", fmt.Sprintf("execution %d ran no single installed version (all rules of one version and none of another): result %v, versions %v", j, x.res, wants))
				case match < lo:
					bad(mname+":stale", fmt.Sprintf("execution %d started after update %d had returned but ran version %d", j, lo-1, match))
				case match > hi:
					bad(mname+":from-the-future", fmt.Sprintf("execution %d returned before update %d was called but ran version %d", j, match-1, match))
				}
			}
			return
		},
		Outcome: func(s interface{}) string {
			st := s.(*c07State)
			var sb strings.Builder
			sb.WriteString(st.log.String())
			for _, x := range st.execs {
				fmt.Fprintf(&sb, "|%v,%v", x.res, x.err != nil)
			}
			return sb.String()
		},
	}
}

func c07Expect(set ref.RuleSet, model string, p gx.PoolCallParams) (map[string]interface{}, bool) {
	var rs []ref.RuleRef
	for i, n := range set.Names() {
		rs = append(rs, ref.RuleRef{ID: int64(i), Name: n, Sal: set[n].Salience})
	}
	plans, ok := ref.Plans(model, rs, ref.Params{B: p.B, N: p.N, M: p.M, Names: p.Names, Dag: p.Dag})
	if !ok || len(plans) == 0 {
		vsched.InternalError("no plan for %s", model)
	}
	want := map[string]interface{}{}
	if plans[0].MustFail {
		return want, true
	}
	names := set.Names()
	for _, id := range ref.Executed(plans[0]) {
		want[names[id]] = set[names[id]].BodyTag
	}
	return want, false
}

func c07Configs(thorough bool) (cfgs []c07Cfg, bounds []int) {
	models := []string{"sort", "conc", "mix", "inverse", "nsortmc", "ncmsort", "ncmc", "dag", "selected", "specified"}
	kinds := []string{"full", "incr", "remove"}
	for _, m := range models {
		seqModel := m == "sort" || m == "selected" || m == "specified"
		b := 2
		if thorough && m == "sort" {
			b = 3 // three deviations for the sort model; the other paths stay at 2 with more configurations (bound 3 does not finish for all of them)
		}
		for _, k := range kinds {
			// update triggered from inside the first rule of a running execution
			cfgs = append(cfgs, c07Cfg{Inside: k, Execs: []string{m}})
			bounds = append(bounds, 1)
			// one updater, one executor
			bb := b
			if !seqModel {
				bb = b - 1
			}
			cfgs = append(cfgs, c07Cfg{Updates: []string{k}, Execs: []string{m}})
			bounds = append(bounds, bb)
			// visibility on every instance: two executions that start after the update returned
			if thorough || ((m == "sort" || m == "conc" || m == "nsortmc" || m == "dag") && k != "incr") || (m == "specified" && k == "incr") {
				second := m
				if !seqModel {
					second = "sort" // one goroutine-spawning execution overlapping a sequential one keeps the space small
				}
				cfgs = append(cfgs, c07Cfg{Updates: []string{k}, Execs: []string{m, second}, After: true})
				bounds = append(bounds, 1)
			}
		}
		// an incremental call that changes the saliences of two installed rules (the sorted list is
		// rearranged while an execution may be walking it)
		if m == "sort" || m == "ncmsort" || m == "nsortmc" || m == "selected" || thorough {
			bb := b
			if !seqModel {
				bb = b - 1
			}
			cfgs = append(cfgs, c07Cfg{Updates: []string{"incrmove"}, Execs: []string{m}})
			bounds = append(bounds, bb)
			if m == "sort" {
				cfgs = append(cfgs, c07Cfg{Updates: []string{"incrmove"}, Execs: []string{m, m}, After: true})
				bounds = append(bounds, 1)
				cfgs = append(cfgs, c07Cfg{Updates: []string{"incrmove"}, Updates2: []string{"incr"}, Execs: []string{m, m}})
				bounds = append(bounds, b)
				cfgs = append(cfgs, c07Cfg{Updates: []string{"remove", "incrmove"}, Execs: []string{m}})
				bounds = append(bounds, b)
			}
		}
		// one client issuing two executions in a row against one update: the second one may start after
		// the update returned, on the instance that served the first one while the update was under way
		if m == "sort" || m == "specified" || thorough {
			for _, k := range kinds {
				cfgs = append(cfgs, c07Cfg{Updates: []string{k}, Execs: []string{m, m}, Serial: true})
				bounds = append(bounds, b)
			}
		}
		// two update calls racing with each other, executions on both instances afterwards
		if m == "sort" {
			for _, pr := range [][2]string{{"remove", "incr"}, {"incr", "remove"}, {"full", "remove"}, {"full", "incr"}, {"incr", "incr"}} {
				cfgs = append(cfgs, c07Cfg{Updates: []string{pr[0]}, Updates2: []string{pr[1]}, Execs: []string{m, m}})
				bounds = append(bounds, b)
			}
		}
		// two updates in sequence against one executor
		for _, ks := range [][]string{{"full", "incr"}, {"incr", "remove"}, {"remove", "full"}, {"remove", "incr"}, {"badfull", "incr"}, {"badfull", "remove"}, {"remove", "full0"}, {"full0", "incr"}} {
			if !thorough && m != "sort" && m != "nsortmc" && m != "dag" {
				continue
			}
			bb := b - 1
			if seqModel {
				bb = b
			}
			cfgs = append(cfgs, c07Cfg{Updates: ks, Execs: []string{m}})
			bounds = append(bounds, bb)
		}
		if thorough {
			cfgs = append(cfgs, c07Cfg{Updates: []string{"full"}, Execs: []string{m, "sort"}})
			bounds = append(bounds, 2)
		}
	}
	return
}

func init() {
	hx.Register(&hx.Prop{
		ID:          "C07",
		Workers:     func(string) int { return 16 },
		BudgetQuick: 300 * time.Second,
		BudgetThor:  30 * time.Minute,
		Kind:        "schedules",
		Rule: "pool (1,2), version-tagged rule sets whose versions differ in tags and membership; updater thread performing 1-2 updates from {full, incremental, an incremental call that changes the saliences of two installed rules, removal, a full update that does not compile (must fail and change nothing) followed by an incremental update / removal, a full update with the text the pool was built from after a removal} against 1-2 executions in each of 10 pool execution paths {sort, concurrent, mix, inverse-mix, N-sort-M-conc, N-conc-M-sort, N-conc-M-conc, DAG (2 layers), selected, configured-model}, every schedule with <=2 (thorough: 3 for the sort model, and all configurations for all ten paths) deviations from the default scheduler (delay bounding: a preemption, or running another thread than the lowest-numbered enabled one when the running thread blocks or ends); an update triggered from inside a running rule; executions started after the update returned (both instances); one client issuing two executions in a row while an update is under way (instance reuse); two update calls racing with each other, executions afterwards (they must run what some serial order of the calls installs). " +
			"Oracle (regular-register history check on the global call/return log): each execution's result map equals the reference result of exactly ONE snapshot, that snapshot is not older than the last update that returned before the execution was called and not newer than the last update called before it returned; no panic, no deadlock",
		Assume: []string{"sequentially consistent memory", "nothing is demanded about the relative order of two overlapping executions"},
		Run: func(c *hx.Ctx) {
			cfgs, bounds := c07Configs(c.Thorough())
			for i, cfg := range cfgs {
				if c.Expired() {
					c.Res.Capped = append(c.Res.Capped, "time budget before all configurations")
					break
				}
				cfg := cfg
				exploreShared(c, "C07", i, func() *hx.Scenario { return c07Scenario(cfg) }, hx.ExploreCfg{Bound: envBound(delayBound(c, bounds[i])), Delay: os.Getenv("HX_PREEMPT") == "", Prune: true, Deadline: c.Deadline})
			}
		},
		Rebuild: func(v *hx.Violation) *hx.Scenario {
			var cfg c07Cfg
			json.Unmarshal(v.Cfg, &cfg)
			return c07Scenario(cfg)
		},
	})
}
