package main

import (
	"verif/harness/ref"
)

// Callee family of C03: objects whose methods take 1..3 parameters over
// {int, int8, uint16, uint64, float32, float64, string, bool}, log exactly what they received and
// return a marker as the first of 0 / 1 / 2 results. The same methods, taken as method values, are
// the injected functions.

type c03Call struct {
	Name string
	Args []interface{}
}

type c03Log struct{ Calls []c03Call }

func (l *c03Log) add(name string, args ...interface{}) {
	l.Calls = append(l.Calls, c03Call{name, append([]interface{}{}, args...)})
}

// markers: first results of R1 / R2 by arity
var c03Marker1 = []interface{}{nil, int(4101), float64(41.5), uint16(4103)}
var c03Marker2 = []interface{}{nil, "mk1", "mk2", "mk3"}

// ---- one parameter ----

type C1[A any] struct{ L *c03Log }

func (c *C1[A]) R0(a A)               { c.L.add("R0", a) }
func (c *C1[A]) R1(a A) int           { c.L.add("R1", a); return 4101 }
func (c *C1[A]) R2(a A) (string, int) { c.L.add("R2", a); return "mk1", 9 }

type V1[A any] struct{ L *c03Log }

func (c V1[A]) R0(a A)               { c.L.add("R0", a) }
func (c V1[A]) R1(a A) int           { c.L.add("R1", a); return 4101 }
func (c V1[A]) R2(a A) (string, int) { c.L.add("R2", a); return "mk1", 9 }

// H1 is the holder for three-level calls: P pointer field, Q struct field with value-receiver
// methods, D struct field whose methods have pointer receivers.
type H1[A any] struct {
	P *C1[A]
	Q V1[A]
	D C1[A]
}

// ---- two parameters ----

type C2[A, B any] struct{ L *c03Log }

func (c *C2[A, B]) R0(a A, b B)               { c.L.add("R0", a, b) }
func (c *C2[A, B]) R1(a A, b B) float64       { c.L.add("R1", a, b); return 41.5 }
func (c *C2[A, B]) R2(a A, b B) (string, int) { c.L.add("R2", a, b); return "mk2", 9 }

type V2[A, B any] struct{ L *c03Log }

func (c V2[A, B]) R0(a A, b B)               { c.L.add("R0", a, b) }
func (c V2[A, B]) R1(a A, b B) float64       { c.L.add("R1", a, b); return 41.5 }
func (c V2[A, B]) R2(a A, b B) (string, int) { c.L.add("R2", a, b); return "mk2", 9 }

type H2[A, B any] struct {
	P *C2[A, B]
	Q V2[A, B]
	D C2[A, B]
}

// ---- three parameters ----

type C3[A, B, C any] struct{ L *c03Log }

func (c *C3[A, B, C]) R0(a A, b B, x C)               { c.L.add("R0", a, b, x) }
func (c *C3[A, B, C]) R1(a A, b B, x C) uint16        { c.L.add("R1", a, b, x); return 4103 }
func (c *C3[A, B, C]) R2(a A, b B, x C) (string, int) { c.L.add("R2", a, b, x); return "mk3", 9 }

type V3[A, B, C any] struct{ L *c03Log }

func (c V3[A, B, C]) R0(a A, b B, x C)               { c.L.add("R0", a, b, x) }
func (c V3[A, B, C]) R1(a A, b B, x C) uint16        { c.L.add("R1", a, b, x); return 4103 }
func (c V3[A, B, C]) R2(a A, b B, x C) (string, int) { c.L.add("R2", a, b, x); return "mk3", 9 }

type H3[A, B, C any] struct {
	P *C3[A, B, C]
	Q V3[A, B, C]
	D C3[A, B, C]
}

// calleeSet is one member of the family in every calling form.
type calleeSet struct {
	Obj    interface{}    // pointer object: o.R1(..)
	Val    interface{}    // value object:   v.R1(..)
	Holder interface{}    // h.P.R1(..), h.Q.R1(..), h.D.R1(..)
	F      [3]interface{} // functions f0/f1/f2 with 0/1/2 results
}

func set1[A any](l *c03Log) calleeSet {
	o := &C1[A]{l}
	return calleeSet{Obj: o, Val: V1[A]{l}, Holder: &H1[A]{P: &C1[A]{l}, Q: V1[A]{l}, D: C1[A]{l}}, F: [3]interface{}{o.R0, o.R1, o.R2}}
}

func set2[A, B any](l *c03Log) calleeSet {
	o := &C2[A, B]{l}
	return calleeSet{Obj: o, Val: V2[A, B]{l}, Holder: &H2[A, B]{P: &C2[A, B]{l}, Q: V2[A, B]{l}, D: C2[A, B]{l}}, F: [3]interface{}{o.R0, o.R1, o.R2}}
}

func set3[A, B, C any](l *c03Log) calleeSet {
	o := &C3[A, B, C]{l}
	return calleeSet{Obj: o, Val: V3[A, B, C]{l}, Holder: &H3[A, B, C]{P: &C3[A, B, C]{l}, Q: V3[A, B, C]{l}, D: C3[A, B, C]{l}}, F: [3]interface{}{o.R0, o.R1, o.R2}}
}

// c03ParamKinds are the parameter kinds of the family.
var c03ParamKinds = []ref.Kind{ref.KInt, ref.KInt8, ref.KUint16, ref.KUint64, ref.KFloat32, ref.KFloat64, ref.KString, ref.KBool}

// newCallee instantiates the family member with the given parameter kinds.
func newCallee(ks []ref.Kind, l *c03Log) calleeSet {
	switch len(ks) {
	case 1:
		return new1(ks[0], l)
	case 2:
		return new2(ks[0], ks[1], l)
	case 3:
		return new3(ks[0], ks[1], ks[2], l)
	}
	panic("c03: unsupported arity")
}

func new1(k ref.Kind, l *c03Log) calleeSet {
	switch k {
	case ref.KInt:
		return set1[int](l)
	case ref.KInt8:
		return set1[int8](l)
	case ref.KUint16:
		return set1[uint16](l)
	case ref.KUint64:
		return set1[uint64](l)
	case ref.KFloat32:
		return set1[float32](l)
	case ref.KFloat64:
		return set1[float64](l)
	case ref.KString:
		return set1[string](l)
	case ref.KBool:
		return set1[bool](l)
	}
	panic("c03: unsupported parameter kind")
}

func new2(k1, k2 ref.Kind, l *c03Log) calleeSet {
	switch k1 {
	case ref.KInt:
		return new2b[int](k2, l)
	case ref.KInt8:
		return new2b[int8](k2, l)
	case ref.KUint16:
		return new2b[uint16](k2, l)
	case ref.KUint64:
		return new2b[uint64](k2, l)
	case ref.KFloat32:
		return new2b[float32](k2, l)
	case ref.KFloat64:
		return new2b[float64](k2, l)
	case ref.KString:
		return new2b[string](k2, l)
	case ref.KBool:
		return new2b[bool](k2, l)
	}
	panic("c03: unsupported parameter kind")
}

func new2b[A any](k ref.Kind, l *c03Log) calleeSet {
	switch k {
	case ref.KInt:
		return set2[A, int](l)
	case ref.KInt8:
		return set2[A, int8](l)
	case ref.KUint16:
		return set2[A, uint16](l)
	case ref.KUint64:
		return set2[A, uint64](l)
	case ref.KFloat32:
		return set2[A, float32](l)
	case ref.KFloat64:
		return set2[A, float64](l)
	case ref.KString:
		return set2[A, string](l)
	case ref.KBool:
		return set2[A, bool](l)
	}
	panic("c03: unsupported parameter kind")
}

func new3(k1, k2, k3 ref.Kind, l *c03Log) calleeSet {
	switch k1 {
	case ref.KInt:
		return new3b[int](k2, k3, l)
	case ref.KInt8:
		return new3b[int8](k2, k3, l)
	case ref.KUint16:
		return new3b[uint16](k2, k3, l)
	case ref.KUint64:
		return new3b[uint64](k2, k3, l)
	case ref.KFloat32:
		return new3b[float32](k2, k3, l)
	case ref.KFloat64:
		return new3b[float64](k2, k3, l)
	case ref.KString:
		return new3b[string](k2, k3, l)
	case ref.KBool:
		return new3b[bool](k2, k3, l)
	}
	panic("c03: unsupported parameter kind")
}

func new3b[A any](k2, k3 ref.Kind, l *c03Log) calleeSet {
	switch k2 {
	case ref.KInt:
		return new3c[A, int](k3, l)
	case ref.KInt8:
		return new3c[A, int8](k3, l)
	case ref.KUint16:
		return new3c[A, uint16](k3, l)
	case ref.KUint64:
		return new3c[A, uint64](k3, l)
	case ref.KFloat32:
		return new3c[A, float32](k3, l)
	case ref.KFloat64:
		return new3c[A, float64](k3, l)
	case ref.KString:
		return new3c[A, string](k3, l)
	case ref.KBool:
		return new3c[A, bool](k3, l)
	}
	panic("c03: unsupported parameter kind")
}

func new3c[A, B any](k ref.Kind, l *c03Log) calleeSet {
	switch k {
	case ref.KInt:
		return set3[A, B, int](l)
	case ref.KInt8:
		return set3[A, B, int8](l)
	case ref.KUint16:
		return set3[A, B, uint16](l)
	case ref.KUint64:
		return set3[A, B, uint64](l)
	case ref.KFloat32:
		return set3[A, B, float32](l)
	case ref.KFloat64:
		return set3[A, B, float64](l)
	case ref.KString:
		return set3[A, B, string](l)
	case ref.KBool:
		return set3[A, B, bool](l)
	}
	panic("c03: unsupported parameter kind")
}

// c03Nest are the helper functions used as nested calls: n<kind>(literal) returns the literal's
// value as a value of that kind.
func c03Nest() map[string]interface{} {
	return map[string]interface{}{
		"nint":     func(x int64) int { return int(x) },
		"nint8":    func(x int64) int8 { return int8(x) },
		"nint16":   func(x int64) int16 { return int16(x) },
		"nint32":   func(x int64) int32 { return int32(x) },
		"nint64":   func(x int64) int64 { return x },
		"nuint":    func(x int64) uint { return uint(x) },
		"nuint8":   func(x int64) uint8 { return uint8(x) },
		"nuint16":  func(x int64) uint16 { return uint16(x) },
		"nuint32":  func(x int64) uint32 { return uint32(x) },
		"nuint64":  func(x int64) uint64 { return uint64(x) },
		"nfloat32": func(x float64) float32 { return float32(x) },
		"nfloat64": func(x float64) float64 { return x },
		"nstring":  func(x string) string { return x },
		"nbool":    func(x bool) bool { return x },
	}
}
