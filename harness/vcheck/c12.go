package main

import (
	"encoding/json"
	"fmt"
	"github.com/bilibili/gengine/builder"
	"github.com/bilibili/gengine/engine"
	"github.com/bilibili/gengine/verifrt/vsched"
	"time"
	"verif/harness/gx"
	"verif/harness/ref"

	"verif/harness/hx"
)

// C12 - selected-rule calls run exactly the named rules, in the promised order.

// all lists without repetition of length 0..maxLen over alphabet
func nameLists(alpha []string, maxLen int) [][]string {
	out := [][]string{{}}
	var rec func(cur []string, used []bool)
	rec = func(cur []string, used []bool) {
		if len(cur) == maxLen {
			return
		}
		for i, a := range alpha {
			if used[i] {
				continue
			}
			used[i] = true
			nxt := append(append([]string{}, cur...), a)
			out = append(out, nxt)
			rec(nxt, used)
			used[i] = false
		}
	}
	rec(nil, make([]bool, len(alpha)))
	return out
}

var selectedModels = []struct {
	name       string
	policy, nm bool
	conc       bool
}{
	{"ExecuteSelectedRules", false, false, false},
	{"ExecuteSelectedRulesWithControl", true, false, false},
	{"ExecuteSelectedRulesWithControlAsGivenSortedName", true, false, false},
	{"ExecuteSelectedRulesWithControlAndStopTag", true, false, false},
	{"ExecuteSelectedRulesWithControlAndStopTagAsGivenSortedName", true, false, false},
	{"ExecuteSelectedRulesConcurrent", false, false, true},
	{"ExecuteSelectedRulesMixModel", false, false, true},
	{"ExecuteSelectedRulesInverseMixModel", false, false, true},
	{"ExecuteSelectedNSortMConcurrent", true, true, true},
	{"ExecuteSelectedNConcurrentMSort", true, true, true},
	{"ExecuteSelectedNConcurrentMConcurrent", true, true, true},
}

func c12Configs(thorough bool) (cfgs []modelCfg, conc []bool) {
	sals := [][]int64{{9, 7, 5, 3}, {5, 7, 7, 9}} // strict; with a tie and names not in salience order
	lists := nameLists([]string{"r0", "r1", "r2", "r3", "zz"}, 4)
	for _, sal := range sals {
		for _, names := range lists {
			fails := []int{-1, 0, 1, 2, 3}
			for _, f := range fails {
				if f >= 0 {
					// only failing rules that are actually named matter
					named := false
					for _, n := range names {
						if n == ruleNames[f] {
							named = true
						}
					}
					if !named {
						continue
					}
				}
				var rules []ruleCfg
				for i := 0; i < 4; i++ {
					rules = append(rules, ruleCfg{Name: ruleNames[i], Sal: sal[i], Fail: i == f})
				}
				for _, m := range selectedModels {
					bs := []bool{false}
					if m.policy {
						bs = []bool{false, true}
					}
					nms := [][2]int{{0, 0}}
					if m.nm {
						nms = nil
						for n := 0; n <= 3; n++ {
							for mm := 0; mm <= 3; mm++ {
								d := n + mm - len(names)
								if d >= -1 && d <= 1 && (n > 0 || mm > 0) {
									nms = append(nms, [2]int{n, mm})
								}
							}
						}
						if sal[1] == sal[2] {
							// ties may straddle the selected window boundary: membership is left open by the statement
							tie := false
							for _, n := range names {
								if n == "r1" || n == "r2" {
									tie = true
								}
							}
							if tie {
								continue
							}
						}
					}
					for _, nm := range nms {
						for _, b := range bs {
							if !thorough && f >= 0 && len(names) == 4 && !m.conc {
								continue // quick: failing subsets on full-length lists only for the staged variants
							}
							cfgs = append(cfgs, modelCfg{Prop: "C12", Rules: rules, Model: m.name, B: b, N: nm[0], M: nm[1], Names: names})
							conc = append(conc, m.conc && len(names) >= 2)
						}
					}
				}
			}
		}
	}
	// name lists that repeat a name: every list of length 2..4 over {r0,r1,r2,zz} with at least one
	// repetition, every variant (no failing rule; N,M = a split of the list length)
	var rep func(cur []string)
	var repLists [][]string
	alpha := []string{"r0", "r1", "r2", "zz"}
	rep = func(cur []string) {
		if len(cur) >= 2 {
			seen := map[string]bool{}
			dup := false
			for _, n := range cur {
				if seen[n] {
					dup = true
				}
				seen[n] = true
			}
			if dup {
				repLists = append(repLists, append([]string{}, cur...))
			}
		}
		if len(cur) == 4 {
			return
		}
		for _, a := range alpha {
			rep(append(cur, a))
		}
	}
	rep(nil)
	for _, names := range repLists {
		var rules []ruleCfg
		for i := 0; i < 4; i++ {
			rules = append(rules, ruleCfg{Name: ruleNames[i], Sal: sals[0][i]})
		}
		for _, m := range selectedModels {
			n, mm := 0, 0
			if m.nm {
				n, mm = 1, len(names)-1
			}
			if !thorough && m.conc && len(names) == 4 {
				continue
			}
			cfgs = append(cfgs, modelCfg{Prop: "C12", Rules: rules, Model: m.name, B: true, N: n, M: mm, Names: names, Repeats: true})
			conc = append(conc, false)
		}
	}
	return
}

func init() {
	hx.Register(&hx.Prop{
		ID:          "C12",
		Workers:     func(string) int { return 16 },
		BudgetQuick: 300 * time.Second,
		BudgetThor:  25 * time.Minute,
		Kind:        "schedules",
		Rule: "rule set of 4 rules (strict saliences; one tie with names out of salience order) x every name list of length 0..4 without repetition over {r0,r1,r2,r3,unknown} (206 lists incl. all permutations) x all 11 selected variants x policy x (N,M) with N+M in {len-1,len,len+1} x failing subset of size <=1; plus every list of length 2..4 over {r0,r1,r2,unknown} that repeats a name; plus call histories: the same selected call on one engine and builder before and after an in-place incremental update (salience change, body replacement, a formerly unknown name added), and two different selected calls in a row on one engine (every variant with a failing rule under both policies, then every variant with another name list), and the pool's model-dispatching selected call while another thread switches the pool's execution model, and the pool's sorted selected calls while an incremental update reverses the saliences (every schedule with <=2 (3) deviations; the order must be the sorted order of ONE version); " +
			"sequential variants: one deterministic execution each; concurrent/mix/inverse/N-M variants: every schedule with <=1 (thorough 2) preemptions; oracle = staged reference plan on exactly the named existing rules (sorted / as-given order, unknown skipped, fail-without-running cases, no unselected rule ever runs)",
		Assume: []string{"injected observer functions terminate", "for name lists that repeat a name only 'no unselected rule runs / every named existing rule runs / nothing selectable fails' is judged (the statement does not say how often a repeated name runs)"},
		Run: func(c *hx.Ctx) {
			cfgs, conc := c12Configs(c.Thorough())
			bound := 1
			if c.Thorough() {
				bound = 2
			}
			bound = envBound(bound)
			for i, cfg := range cfgs {
				if !c.Mine(i) {
					continue
				}
				if c.Expired() {
					c.Res.Capped = append(c.Res.Capped, "time budget before all configurations")
					break
				}
				b := 0
				if conc[i] {
					b = bound
				}
				hx.Explore("C12", modelScenario(cfg), hx.ExploreCfg{Bound: b, Prune: true, Deadline: c.Deadline}, c.Res)
			}
			for i, hc := range selHistConfigs() {
				if c.Mine(i) {
					hx.Explore("C12", selHistScenario(hc), hx.ExploreCfg{Bound: 0, DefaultOnly: true}, c.Res)
				}
			}
			for i, pc := range selPairConfigs() {
				if c.Mine(i) {
					hx.Explore("C12", selPairScenario(pc), hx.ExploreCfg{Bound: 0, DefaultOnly: true}, c.Res)
				}
			}
			for i, uc := range selUpdConfigs() {
				if c.Mine(i) {
					hx.Explore("C12", selUpdScenario(uc), hx.ExploreCfg{Bound: envBound(delayBound(c, 2+thoroughExtra(c))), Delay: true, Prune: true, Deadline: c.Deadline}, c.Res)
				}
			}
			for i, ec := range selEMConfigs() {
				if c.Mine(i) {
					hx.Explore("C12", selEMScenario(ec), hx.ExploreCfg{Bound: envBound(delayBound(c, 2+thoroughExtra(c))), Delay: true, Prune: true, Deadline: c.Deadline}, c.Res)
				}
			}
		},
		Rebuild: func(v *hx.Violation) *hx.Scenario {
			if v.Scenario == "c12upd" {
				var uc selUpdCfg
				json.Unmarshal(v.Cfg, &uc)
				return selUpdScenario(uc)
			}
			if v.Scenario == "c12em" {
				var ec selEMCfg
				json.Unmarshal(v.Cfg, &ec)
				return selEMScenario(ec)
			}
			if v.Scenario == "c12pair" {
				var pc selPairCfg
				json.Unmarshal(v.Cfg, &pc)
				return selPairScenario(pc)
			}
			if v.Scenario == "c12hist" {
				var hc selHistCfg
				json.Unmarshal(v.Cfg, &hc)
				return selHistScenario(hc)
			}
			return rebuildModel(v)
		},
	})
}

// ---- the same selected call before and after an incremental update on one engine + builder ----

type selHistCfg struct {
	Model string   `json:"model"`
	B     bool     `json:"b"`
	Names []string `json:"names"`
	Upd   string   `json:"upd"` // resal | replace | add
}

type selHistState struct {
	log1, log2 *gx.Log
	err1, err2 error
	pan        interface{}
}

func selHistRules() []gx.RuleSpec {
	return []gx.RuleSpec{{Name: "r0", ID: 1, Salience: 9}, {Name: "r1", ID: 2, Salience: 7}, {Name: "r2", ID: 3, Salience: 5}}
}

func selHistUpdate(kind string) gx.RuleSpec {
	switch kind {
	case "resal":
		return gx.RuleSpec{Name: "r2", ID: 13, Salience: 8}
	case "replace":
		return gx.RuleSpec{Name: "r1", ID: 12, Salience: 7}
	}
	return gx.RuleSpec{Name: "zz", ID: 14, Salience: 6}
}

func selHistScenario(cfg selHistCfg) *hx.Scenario {
	template := gx.MustCompile(gx.RulesText(selHistRules()))
	upd := selHistUpdate(cfg.Upd)
	refs := func(after bool) []ref.RuleRef {
		var rs []ref.RuleRef
		for _, r := range selHistRules() {
			if after && r.Name == upd.Name {
				continue
			}
			rs = append(rs, ref.RuleRef{ID: r.ID, Name: r.Name, Sal: r.Salience})
		}
		if after {
			rs = append(rs, ref.RuleRef{ID: upd.ID, Name: upd.Name, Sal: upd.Salience})
		}
		return rs
	}
	p := ref.Params{B: cfg.B, Names: cfg.Names}
	plans1, _ := ref.Plans(cfg.Model, refs(false), p)
	plans2, _ := ref.Plans(cfg.Model, refs(true), p)
	m := gx.ModelByName(cfg.Model)
	return &hx.Scenario{
		Name: "c12hist",
		Cfg:  cfg,
		New:  func() interface{} { return &selHistState{log1: &gx.Log{}, log2: &gx.Log{}} },
		Body: func(s interface{}) {
			st := s.(*selHistState)
			rb := gx.DeepClone(template).(*builder.RuleBuilder) // private builder: the update is in place
			g := engine.NewGengine()
			run := func(l *gx.Log) (error, interface{}) {
				rb.Dc.Add("ev", l.Ev)
				rb.Dc.Add("boom", l.Boom)
				return gx.CallGuarded(func() error { return m.Call(g, rb, gx.Params{B: cfg.B, Names: cfg.Names}) })
			}
			st.err1, st.pan = run(st.log1)
			if st.pan != nil {
				return
			}
			if err := rb.BuildRuleWithIncremental(upd.Text()); err != nil {
				vsched.InternalError("incremental build: %v", err)
			}
			st.err2, st.pan = run(st.log2)
		},
		Check: func(s interface{}, ex *vsched.Exec) (fs []hx.Finding) {
			st := s.(*selHistState)
			raw, _ := json.Marshal(cfg)
			desc := fmt.Sprintf("\n  cfg=%s\n  before the update: log=[%s] err=%v\n  after the incremental update of %s (id %d, salience %d): log=[%s] err=%v", raw, st.log1, st.err1, upd.Name, upd.ID, upd.Salience, st.log2, st.err2)
			if ex.Verdict != "" || st.pan != nil {
				return []hx.Finding{{Sig: "c12:hist:" + cfg.Model + ":did-not-complete", Msg: fmt.Sprintf("verdict %q panic %v", ex.Verdict, st.pan) + desc}}
			}
			if c := ref.Judge(plans1, toRefLog(st.log1), st.err1 != nil); c != "" {
				fs = append(fs, hx.Finding{Sig: "c12:hist:" + cfg.Model + ":first:" + sigOf(c), Msg: "first call: " + c + desc})
			}
			if c := ref.Judge(plans2, toRefLog(st.log2), st.err2 != nil); c != "" {
				fs = append(fs, hx.Finding{Sig: "c12:hist:" + cfg.Model + ":after-update:" + sigOf(c), Msg: "the same selected call after an incremental update does not run the named rules of the CURRENT set: " + c + desc})
			}
			return
		},
	}
}

func selHistConfigs() []selHistCfg {
	var out []selHistCfg
	for _, m := range selectedModels {
		if m.nm {
			continue
		}
		for _, names := range [][]string{{"r2", "r0", "r1"}, {"r1", "r2"}, {"zz", "r0", "r2"}, {"r2"}} {
			for _, u := range []string{"resal", "replace", "add"} {
				bs := []bool{true}
				if m.policy {
					bs = []bool{true, false}
				}
				for _, b := range bs {
					out = append(out, selHistCfg{Model: m.name, B: b, Names: names, Upd: u})
				}
			}
		}
	}
	return out
}

// ---- two different selected calls in a row on one engine + builder ----
// (what a call selected, and whether it failed, must not leak into the next call)

type selPairCfg struct {
	M1     string   `json:"m1"`
	B1     bool     `json:"b1"`
	Names1 []string `json:"names1"`
	M2     string   `json:"m2"`
	Names2 []string `json:"names2"`
}

func selPairRules() []gx.RuleSpec {
	return []gx.RuleSpec{{Name: "r0", ID: 1, Salience: 9}, {Name: "r1", ID: 2, Salience: 7, Fail: true}, {Name: "r2", ID: 3, Salience: 5}, {Name: "r3", ID: 4, Salience: 3}}
}

func selPairScenario(cfg selPairCfg) *hx.Scenario {
	template := gx.MustCompile(gx.RulesText(selPairRules()))
	var refs []ref.RuleRef
	for _, r := range selPairRules() {
		refs = append(refs, ref.RuleRef{ID: r.ID, Name: r.Name, Sal: r.Salience, Fail: r.Fail})
	}
	nm := func(names []string) (int, int) {
		if len(names) < 2 {
			return 1, 1
		}
		return 1, len(names) - 1
	}
	n1, k1 := nm(cfg.Names1)
	n2, k2 := nm(cfg.Names2)
	plans1, _ := ref.Plans(cfg.M1, refs, ref.Params{B: cfg.B1, N: n1, M: k1, Names: cfg.Names1})
	plans2, _ := ref.Plans(cfg.M2, refs, ref.Params{B: true, N: n2, M: k2, Names: cfg.Names2})
	m1, m2 := gx.ModelByName(cfg.M1), gx.ModelByName(cfg.M2)
	return &hx.Scenario{
		Name: "c12pair",
		Cfg:  cfg,
		New:  func() interface{} { return &selHistState{log1: &gx.Log{}, log2: &gx.Log{}} },
		Body: func(s interface{}) {
			st := s.(*selHistState)
			rb := gx.DeepClone(template).(*builder.RuleBuilder)
			g := engine.NewGengine()
			rb.Dc.Add("ev", st.log1.Ev)
			rb.Dc.Add("boom", st.log1.Boom)
			st.err1, st.pan = gx.CallGuarded(func() error {
				return m1.Call(g, rb, gx.Params{B: cfg.B1, N: n1, M: k1, Names: cfg.Names1, Stag: &engine.Stag{}})
			})
			if st.pan != nil {
				return
			}
			rb.Dc.Add("ev", st.log2.Ev)
			rb.Dc.Add("boom", st.log2.Boom)
			st.err2, st.pan = gx.CallGuarded(func() error {
				return m2.Call(g, rb, gx.Params{B: true, N: n2, M: k2, Names: cfg.Names2, Stag: &engine.Stag{}})
			})
		},
		Check: func(s interface{}, ex *vsched.Exec) (fs []hx.Finding) {
			st := s.(*selHistState)
			raw, _ := json.Marshal(cfg)
			desc := fmt.Sprintf("\n  cfg=%s\n  first call: log=[%s] err=%v\n  second call: log=[%s] err=%v", raw, st.log1, st.err1, st.log2, st.err2)
			if ex.Verdict != "" || st.pan != nil {
				return []hx.Finding{{Sig: "c12:pair:" + cfg.M2 + ":did-not-complete", Msg: fmt.Sprintf("verdict %q panic %v", ex.Verdict, st.pan) + desc}}
			}
			if c := ref.Judge(plans1, toRefLog(st.log1), st.err1 != nil); c != "" {
				fs = append(fs, hx.Finding{Sig: "c12:pair:" + cfg.M1 + ":first:" + sigOf(c), Msg: "first call: " + c + desc})
			}
			if c := ref.Judge(plans2, toRefLog(st.log2), st.err2 != nil); c != "" {
				fs = append(fs, hx.Finding{Sig: "c12:pair:" + cfg.M2 + ":second:" + sigOf(c), Msg: "second selected call on the same engine does not run exactly its own named rules: " + c + desc})
			}
			return
		},
	}
}

func selPairConfigs() []selPairCfg {
	var out []selPairCfg
	for _, a := range selectedModels {
		for _, names1 := range [][]string{{"r0", "r1", "r2"}, {"r2", "r1", "r0"}, {"r1", "r2"}} {
			bs := []bool{true}
			if a.policy {
				bs = []bool{true, false}
			}
			for _, b1 := range bs {
				for _, b := range selectedModels {
					for _, names2 := range [][]string{{"r3"}, {"zz"}, {"r3", "r0"}} {
						if b.nm && len(names2) < 2 {
							continue
						}
						out = append(out, selPairCfg{M1: a.name, B1: b1, Names1: names1, M2: b.name, Names2: names2})
					}
				}
			}
		}
	}
	return out
}

// ---- the pool's selected call that dispatches on the configured execution model, while the model is switched ----

type selEMCfg struct {
	Sets  []int    `json:"sets"` // SetExecModel calls made by the other thread, in order
	Names []string `json:"names"`
}

type selEMState struct {
	log  *gx.Log
	err  error
	pan  interface{}
	serr []error
}

func selEMScenario(cfg selEMCfg) *hx.Scenario {
	rules := []gx.RuleSpec{{Name: "r0", ID: 1, Salience: 9}, {Name: "r1", ID: 2, Salience: 7}, {Name: "r2", ID: 3, Salience: 5}, {Name: "r3", ID: 4, Salience: 3}}
	template, err := engine.NewGenginePool(1, 2, engine.SortModel, gx.RulesText(rules), map[string]interface{}{})
	if err != nil {
		vsched.InternalError("pool: %v", err)
	}
	named := map[int64]bool{}
	for _, n := range cfg.Names {
		for _, r := range rules {
			if r.Name == n {
				named[r.ID] = true
			}
		}
	}
	return &hx.Scenario{
		Name: "c12em",
		Cfg:  cfg,
		Opts: vsched.Options{Horizon: 20000},
		New:  func() interface{} { return &selEMState{log: &gx.Log{}} },
		Body: func(s interface{}) {
			st := s.(*selEMState)
			gp := gx.DeepClone(template).(*engine.GenginePool)
			vsched.Go(func() {
				for _, em := range cfg.Sets {
					st.serr = append(st.serr, gp.SetExecModel(em))
				}
			})
			vsched.Go(func() {
				data := map[string]interface{}{"ev": st.log.Ev, "ev3": st.log.Ev3, "boom": st.log.Boom}
				st.err, st.pan = gx.CallGuarded(func() error {
					e, _ := gp.ExecuteSelectedWithSpecifiedEM(data, cfg.Names)
					return e
				})
				st.log.Ev("ret", 0)
			})
			vsched.WaitOthersDone()
		},
		Check: func(s interface{}, ex *vsched.Exec) (fs []hx.Finding) {
			st := s.(*selEMState)
			raw, _ := json.Marshal(cfg)
			desc := fmt.Sprintf("\n  cfg=%s\n  log=[%s] err=%v", raw, st.log, st.err)
			bad := func(sig, msg string) { fs = append(fs, hx.Finding{Sig: "c12:em:" + sig, Msg: msg + desc}) }
			if ex.Verdict != "" || st.pan != nil {
				bad("did-not-complete", fmt.Sprintf("verdict %q panic %v", ex.Verdict, st.pan))
				return
			}
			for _, e := range st.serr {
				if e != nil {
					bad("set-model-failed", fmt.Sprintf("SetExecModel failed: %v", e))
				}
			}
			if st.err != nil {
				bad("spurious-error", "the selected call failed although every named rule exists and none fails")
			}
			for _, r := range rules {
				n := st.log.Count("s", r.ID)
				switch {
				case named[r.ID] && n != 1:
					bad("named-rule-count", fmt.Sprintf("named rule %s ran %d time(s), want exactly once whichever execution model the call dispatched on", r.Name, n))
				case !named[r.ID] && n != 0:
					bad("unselected-rule-ran", fmt.Sprintf("rule %s was not named but ran %d time(s)", r.Name, n))
				}
			}
			if i := st.log.Index("ret", 0, 0); i >= 0 && i != len(st.log.Evs)-1 {
				bad("rule-still-running-after-return", "the call returned while a rule it had started was still running")
			}
			return
		},
		Outcome: func(s interface{}) string { st := s.(*selEMState); return st.log.String() + fmt.Sprint(st.err != nil) },
	}
}

func selEMConfigs() []selEMCfg {
	var out []selEMCfg
	for _, sets := range [][]int{{engine.ConcurrentModel}, {engine.InverseMixModel}, {engine.MixModel, engine.SortModel}, {engine.InverseMixModel, engine.ConcurrentModel}, {engine.ConcurrentModel, engine.MixModel, engine.InverseMixModel}} {
		for _, names := range [][]string{{"r1", "r0"}, {"r2", "r0", "r3"}} {
			out = append(out, selEMCfg{Sets: sets, Names: names})
		}
	}
	return out
}

// ---- a sorted selected pool call while an incremental update changes the saliences ----

type selUpdCfg struct {
	Method string   `json:"method"`
	Names  []string `json:"names"`
}

type selUpdState struct {
	log  *gx.Log
	err  error
	pan  interface{}
	uerr error
}

func selUpdScenario(cfg selUpdCfg) *hx.Scenario {
	old := []gx.RuleSpec{{Name: "r0", ID: 1, Salience: 30}, {Name: "r1", ID: 2, Salience: 20}, {Name: "r2", ID: 3, Salience: 10}}
	upd := []gx.RuleSpec{{Name: "r0", ID: 1, Salience: 10}, {Name: "r2", ID: 3, Salience: 30}} // same bodies, saliences reversed
	template, err := engine.NewGenginePool(1, 2, engine.SortModel, gx.RulesText(old), map[string]interface{}{})
	if err != nil {
		vsched.InternalError("pool: %v", err)
	}
	pm := gx.PoolMethodByName(cfg.Method)
	if pm == nil {
		vsched.InternalError("no pool method %s", cfg.Method)
	}
	sal := func(v int) map[int64]int64 {
		m := map[int64]int64{}
		for _, r := range old {
			m[r.ID] = r.Salience
		}
		if v == 1 {
			for _, r := range upd {
				m[r.ID] = r.Salience
			}
		}
		return m
	}
	return &hx.Scenario{
		Name: "c12upd",
		Cfg:  cfg,
		Opts: vsched.Options{Horizon: 20000},
		New:  func() interface{} { return &selUpdState{log: &gx.Log{}} },
		Body: func(s interface{}) {
			st := s.(*selUpdState)
			gp := gx.DeepClone(template).(*engine.GenginePool)
			vsched.Go(func() { st.uerr = gp.UpdatePooledRulesIncremental(gx.RulesText(upd)) })
			vsched.Go(func() {
				data := map[string]interface{}{"ev": st.log.Ev, "ev3": st.log.Ev3, "boom": st.log.Boom}
				st.err, _, st.pan = gx.PoolCallGuarded(pm, gp, data, gx.PoolCallParams{B: true, Names: cfg.Names, Stag: &engine.Stag{}})
			})
			vsched.WaitOthersDone()
		},
		Check: func(s interface{}, ex *vsched.Exec) (fs []hx.Finding) {
			st := s.(*selUpdState)
			raw, _ := json.Marshal(cfg)
			desc := fmt.Sprintf("\n  cfg=%s\n  log=[%s] err=%v update err=%v", raw, st.log, st.err, st.uerr)
			bad := func(sig, msg string) {
				fs = append(fs, hx.Finding{Sig: "c12:upd:" + cfg.Method + ":" + sig, Msg: msg + desc})
			}
			if ex.Verdict != "" || st.pan != nil {
				bad("did-not-complete", fmt.Sprintf("verdict %q panic %v", ex.Verdict, st.pan))
				return
			}
			if st.err != nil || st.uerr != nil {
				bad("error", "a healthy selected call / incremental update failed")
				return
			}
			var order []int64
			for _, e := range st.log.Evs {
				if e.K == "s" {
					order = append(order, e.ID)
				}
			}
			if len(order) != len(cfg.Names) {
				bad("count", fmt.Sprintf("%d rules ran, %d existing rules were named", len(order), len(cfg.Names)))
				return
			}
			okAny := false
			for v := 0; v < 2; v++ {
				m := sal(v)
				ok := true
				for i := 1; i < len(order); i++ {
					if m[order[i-1]] < m[order[i]] {
						ok = false
					}
				}
				okAny = okAny || ok
			}
			if !okAny {
				bad("order-of-no-version", fmt.Sprintf("the named rules ran in the order %v, which is non-increasing in the saliences of neither the old nor the updated rule set", order))
			}
			return
		},
		Outcome: func(s interface{}) string { return s.(*selUpdState).log.String() },
	}
}

func selUpdConfigs() []selUpdCfg {
	var out []selUpdCfg
	for _, m := range []string{"ExecuteSelectedRules", "ExecuteSelectedRulesWithControl", "ExecuteSelectedRulesWithControlAndStopTag"} {
		out = append(out, selUpdCfg{Method: m, Names: []string{"r1", "r0", "r2"}})
	}
	return out
}
