package main

import (
	"fmt"
	"time"

	"verif/harness/hx"
)

// C14 - stop tag: once set, no further rule starts; never set = identical to the tag-free variant.

func c14Configs(thorough bool) (cfgs []modelCfg, conc []bool) {
	variants := []struct {
		name, twin string
		policy     bool
		sel        bool
		conc       bool
	}{
		{"ExecuteWithStopTagDirect", "Execute", true, false, false},
		{"ExecuteMixModelWithStopTagDirect", "ExecuteMixModel", false, false, true},
		{"ExecuteSelectedRulesWithControlAndStopTag", "ExecuteSelectedRulesWithControl", true, true, false},
		{"ExecuteSelectedRulesWithControlAndStopTagAsGivenSortedName", "ExecuteSelectedRulesWithControlAsGivenSortedName", true, true, false},
	}
	maxFail := 2
	for _, v := range variants {
		for n := 1; n <= 4; n++ {
			for _, pat := range []string{"desc", "asc", "pairs"} {
				sal := salPattern(pat, n)
				for setter := -1; setter < n; setter++ {
					for _, fail := range subsetsUpTo(n, maxFail) {
						var rules []ruleCfg
						for i := 0; i < n; i++ {
							rules = append(rules, ruleCfg{Name: ruleNames[i], Sal: sal[i], Fail: fail[i], SetsTag: i == setter})
						}
						bs := []bool{false}
						if v.policy {
							bs = []bool{false, true}
						}
						for _, b := range bs {
							cfg := modelCfg{Prop: "C14", Rules: rules, Model: v.name, B: b}
							if v.sel {
								names := append([]string{}, ruleNames[:n]...)
								cfg.Names = append(names[1:], names[0])
							}
							if setter < 0 {
								cfg.Diff = v.twin
							}
							cfgs = append(cfgs, cfg)
							conc = append(conc, v.conc)
						}
					}
				}
			}
		}
	}
	// the pool's wrappers of the four variants (sequential use of one pool, two requests)
	for _, v := range variants {
		for n := 2; n <= 3; n++ {
			sal := salPattern("desc", n)
			for setter := -1; setter < n; setter++ {
				for _, fail := range subsetsUpTo(n, 1) {
					var rules []ruleCfg
					for i := 0; i < n; i++ {
						rules = append(rules, ruleCfg{Name: ruleNames[i], Sal: sal[i], Fail: fail[i], SetsTag: i == setter})
					}
					for _, b := range []bool{false, true} {
						if !v.policy && b {
							continue
						}
						cfg := modelCfg{Prop: "C14", Rules: rules, Model: v.name, B: b, ViaPool: true, Twice: true}
						if v.sel {
							names := append([]string{}, ruleNames[:n]...)
							cfg.Names = append(names[1:], names[0])
						}
						cfgs = append(cfgs, cfg)
						conc = append(conc, false)
					}
				}
			}
		}
	}
	// rule sets beyond the size thresholds of library sorts: 13 and 16 rules with saliences tied in
	// pairs, names given in a scattered order (a sort that is not stable shows as an order
	// that differs from the tag-free twin / as rules started after the setter)
	for _, v := range variants {
		for _, n := range []int{13, 16} {
			for _, setter := range []int{-1, 0, n / 2} {
				var rules []ruleCfg
				var names []string
				for i := 0; i < n; i++ {
					rules = append(rules, ruleCfg{Name: fmt.Sprintf("q%02d", i), Sal: int64(20 - i%((n+1)/2)), SetsTag: i == setter})
				}
				for i := 0; i < n; i++ {
					names = append(names, rules[(i*7+3)%n].Name)
				}
				cfg := modelCfg{Prop: "C14", Rules: rules, Model: v.name, B: v.policy, Large: true}
				if v.sel {
					cfg.Names = names
				}
				if setter < 0 {
					cfg.Diff = v.twin
				}
				cfgs = append(cfgs, cfg)
				conc = append(conc, false)
			}
		}
	}
	return
}

func init() {
	hx.Register(&hx.Prop{
		ID:          "C14",
		Workers:     func(string) int { return 16 },
		BudgetQuick: 300 * time.Second,
		BudgetThor:  20 * time.Minute,
		Kind:        "schedules",
		Rule: "4 stop-tag variants (engine level, and through the pool's wrappers with two requests on one pool) x 1..4 rules x 3 salience patterns x every position of the tag-setting rule (or none) x every failing subset of size <=2 (incl. the setter itself) x policy; plus rule sets of 13 and 16 rules with saliences tied in pairs and names given in scattered order (beyond the size up to which library sorts are stable by accident), default schedule; sorted variants: one deterministic execution; mix variant: every schedule with <=2 (thorough: 3 for up to three rules) preemptions; " +
			"oracle = staged reference plan with tag semantics; when no rule sets the tag: differential against the tag-free twin model on the same input (error nil-ness, result keys, event log)",
		Assume: []string{"injected observer functions terminate"},
		Run: func(c *hx.Ctx) {
			cfgs, conc := c14Configs(c.Thorough())
			bound := 2
			if c.Thorough() {
				bound = 3
			}
			bound = envBound(bound)
			for i, cfg := range cfgs {
				if !c.Mine(i) {
					continue
				}
				if c.Expired() {
					c.Res.Capped = append(c.Res.Capped, "time budget before all configurations")
					break
				}
				b := 0
				if conc[i] {
					b = bound
					if c.Thorough() && len(cfg.Rules) >= 4 {
						b = 2 // four rules: bound 3 does not finish in the budget
					}
				}
				hx.Explore("C14", modelScenario(cfg), hx.ExploreCfg{Bound: b, Prune: true, Deadline: c.Deadline, DefaultOnly: cfg.Large}, c.Res)
			}
		},
		Rebuild: rebuildModel,
	})
}
