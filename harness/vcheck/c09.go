package main

import (
	"encoding/json"
	"errors"
	"fmt"
	"strings"
	"time"

	"github.com/bilibili/gengine/engine"
	"github.com/bilibili/gengine/verifrt/vsched"

	"verif/harness/gx"
	"verif/harness/hx"
)

// C09 - rule faults are contained: execute calls never panic, crash or hang.

type FaultIn struct{ F int64 }

func (f *FaultIn) M(x int64) int64 { return f.F + x }

type FaultObj struct {
	F   int64
	I   int64
	B   bool
	Str string
	In  *FaultIn
	Nil *FaultIn
	NM  map[string]int64 // never made
	L   []int64
	MP  map[string]int64
}

// Push / Put grow the container a forRange loop of the rule is ranging over.
func (o *FaultObj) Push(x int64) { o.L = append(o.L, x) }
func (o *FaultObj) Put(k string) { o.MP[k+"'"] = 1 }

func (o *FaultObj) M(x int64) int64 { return o.F + x + 1 }

func faultData() map[string]interface{} {
	var nilp *FaultObj
	return map[string]interface{}{
		"p":     nilp,
		"s":     &FaultObj{In: &FaultIn{}, L: []int64{1, 2, 3}, MP: map[string]int64{"a": 1, "b": 2}},
		"nm":    map[string]int64(nil),
		"m":     map[string]int64{},
		"l":     []int64{},
		"l2":    []int64{4, 5},
		"arr":   &[2]int64{1, 2},
		"n5":    int64(5),
		"zero":  int64(0),
		"fzero": float64(0),
		"v7":    int64(7),
		"neg":   int64(-1),
		"str":   "abc",
		"fint":  func(x int64) int64 { return x },
		"fvoid": func() {},
		"pval":  func() { panic("a value") },
		"perr":  func() { panic(errors.New("an error")) },
		"prt":   func() { var a []int; _ = a[3] },
	}
}

// statement-position faults (each must make the rule fail with an error)
var faultStmts = []string{
	// arithmetic / comparison / logic / not type mismatches
	`x = 1 + "a"`, `x = "a" - 1`, `x = true * 2`, `x = n5 / str`,
	`x = 1 > "a"`, `x = "a" == 1`, `x = true > false`,
	`x = 1 && true`, `x = "a" || false`,
	`x = !5`, `x = !"a"`, `x = !(n5)`,
	// division by zero
	`x = 1 / zero`, `x = 1.5 / fzero`, "x = n5\n  x /= zero", `x = 1 / 0`,
	// missing names
	`x = nope`, `x = nope.F`, `x = nope.A.B`, `nofn(1)`, `x = nofn(1)`, `s.Nope(1)`, `nope.M(1)`, `s.In.Nope(1)`, `s.Nope.M(1)`,
	// value of another class stored
	`s.B = 5`, `s.I = "a"`, `s.I = true`, `m["k"] = "a"`, `l2[0] = "a"`, `n5 = 6`, `s.Nope = 1`, `nope.F = 1`,
	// stores into maps that were never made
	`s.NM["k"] = 1`, `nm["k"] = 1`,
	// nil pointers
	`x = p.F`, `p.F = 1`, `p.M(1)`, `x = p.In.F`, `x = s.Nil.F`, `s.Nil.M(1)`, `s.Nil.F = 2`,
	// indexes
	`x = l[3]`, `x = l[v7]`, `x = l2[neg]`, `x = arr[5]`, `x = l2[-1]`, `l[0] = 1`, `l2[v7] = 1`, `arr[2] = 1`,
	// wrong key type / key faults
	`x = m[1]`, `x = m[nope]`, `m[nope] = 1`, `x = n5[1]`, `x = l2["k"]`,
	// non-boolean conditions
	`if 5 {
    x = 1
  }`, `if "a" {
    x = 1
  }`, `if s {
    x = 1
  }`, `if false {
    x = 1
  } else if 5 {
    x = 2
  }`, `for i = 0; 7; i += 1 {
    x = 1
  }`, `if nope {
    x = 1
  }`,
	// calls
	`fint("a")`, `fint()`, `fint(1, 2)`, `fint(nope)`, `fint(1 / zero)`, `fint(p.F)`, `s.M("a")`, `s.M()`, `s.In.M(true)`,
	`pval()`, `perr()`, `prt()`, `x = pval()`,
	`x = fvoid()
  y = x + 1`,
	// loops
	`for i = 0; i < 3; i += "a" {
    x = 1
  }`, `for i = nope; i < 3; i += 1 {
    x = 1
  }`, `forRange k := n5 {
    x = 1
  }`, `forRange k := nope {
    x = 1
  }`,
	// inside conc
	`conc {
    x = 1 / zero
    nofn(1)
  }`, `conc {
    p.M(1)
    y = 2
  }`, `conc {
    pval()
    s.In.Nope(1)
  }`,
	// a fault while evaluating the ARGUMENTS of a call that is a direct member of a conc block
	`conc {
    fint(p.F)
  }`, `conc {
    fint(l[3])
    y = 2
  }`, `conc {
    fint(nope)
  }`, `conc {
    x = fint(1 / zero)
    fint(2)
  }`, `conc {
    s.M(p.F)
  }`, `conc {
    s.In.M(l[3])
  }`, `conc {
    fint(!5)
  }`, `conc {
    l[3] = 1
    fint(s.Nil.F)
  }`,
}

// faults in return position (must be the last statement of their block)
var faultReturns = []string{`return 1 / zero`, `return nope`, `return p.F`, `return !5`, `return m[1]`, `return l[3]`, `return 1 + "a"`, `return pval()`, `return s.Nil.F`}

// for loops that never end (cut off by the engine after 10000 iterations), whatever way their
// iterations end: normally, through continue (direct or nested), or mixed
const faultEndless = `for i = 0; i < 5; i = 0 {
    x = 1
  }`

var faultEndlessMore = []string{
	`for i = 0; i < 5; i = 0 {
    x = 1
    continue
  }`,
	`for i = 0; i < 5; i = 0 {
    if true {
      continue
    }
    x = 1
  }`,
	`x = 0
  for i = 0; i < 5; i = 0 {
    x += 1
    if x > 3 {
      continue
    }
    y = 1
  }`,
	`for i = 0; i < 5; i = 0 {
    forRange w := l2 {
      continue
    }
  }`,
	`for i = 0; true; i += 1 {
    if i < 0 {
      break
    }
  }`,
}

func nestFault(f string, nesting int) string {
	ind := strings.ReplaceAll(f, "\n", "\n  ")
	switch nesting {
	case 1:
		return "if true {\n    " + ind + "\n  }"
	case 2:
		return "for q = 0; q < 2; q += 1 {\n    " + ind + "\n  }"
	case 3:
		return "forRange w := l2 {\n    " + ind + "\n  }"
	}
	return f
}

func c09ModelList() []c11ModelP { return c11Models() }

func c09Configs(thorough bool) (cfgs []modelCfg, bounds []int) {
	type fl struct {
		text string
		rep  bool // representative: also explored under preemptions in the fan-out models
	}
	var faults []fl
	for i, f := range faultStmts {
		for n := 0; n < 4; n++ {
			if !thorough && n > 0 && (i+n)%3 != 0 {
				continue // quick: every fault at top level, nestings rotated
			}
			faults = append(faults, fl{nestFault(f, n), n == 0 && i%10 == 0})
		}
	}
	for i, f := range faultReturns {
		for n := 0; n < 4; n++ {
			if !thorough && n > 0 && (i+n)%2 != 0 {
				continue
			}
			faults = append(faults, fl{nestFault(f, n), n == 0 && i%4 == 0})
		}
	}
	faults = append(faults, fl{faultEndless, false})
	for _, f := range faultEndlessMore {
		faults = append(faults, fl{f, false})
	}
	models := c09ModelList()
	for fi, f := range faults {
		for pos := 0; pos < 2; pos++ {
			for mi, m := range models {
				if strings.HasPrefix(strings.TrimPrefix(f.text, "x = 0\n  "), "for i = 0;") && strings.Contains(f.text, "i = 0 {") || strings.Contains(f.text, "true; i += 1") {
					// endless loops: 10000 iterations each, so quick tries them in every fifth model, first position
					if (pos == 1 || (mi+fi)%5 != 0) && !thorough {
						continue
					}
				}
				if !thorough && !f.rep && (fi+mi+pos)%2 != 0 {
					continue // quick: each fault meets every second model per position (all models over both positions)
				}
				var rules []ruleCfg
				for i := 0; i < 3; i++ {
					r := ruleCfg{Name: ruleNames[i], Sal: int64(9 - 3*i)}
					if i == pos {
						r.Fault = f.text
					}
					rules = append(rules, r)
				}
				cfg := modelCfg{Prop: "C09", Rules: rules, Model: m.name, B: m.b, N: m.n, M: m.m, Names: m.names, Twice: true, SameDc: (fi+mi)%2 == 0}
				if m.dag != nil {
					continue // the DAG model is driven through its own config below
				}
				cfgs = append(cfgs, cfg)
				b := 0
				if f.rep && m.conc {
					b = 1
					if thorough {
						b = 2
					}
					// explored under preemptions once; the two-call history is covered by the default schedule
					c2 := cfg
					cfgs = append(cfgs, c2)
					bounds = append(bounds, 0)
					cfgs[len(cfgs)-2].Twice = false
				}
				bounds = append(bounds, b)
			}
		}
	}
	// programs that must simply complete, in every model: loops whose body grows what they range over
	for _, tk := range []string{"forRange i := s.L {\n    s.Push(i)\n  }", "forRange k := s.MP {\n    s.Put(k)\n  }", "for i = 0; i < 3; i += 1 {\n    s.Push(i)\n  }"} {
		for _, m := range models {
			if m.dag != nil {
				continue
			}
			rules := []ruleCfg{{Name: ruleNames[0], Sal: 9}, {Name: ruleNames[1], Sal: 6, Tricky: tk}, {Name: ruleNames[2], Sal: 3}}
			cfgs = append(cfgs, modelCfg{Prop: "C09", Rules: rules, Model: m.name, B: m.b, N: m.n, M: m.m, Names: m.names, Twice: true})
			bounds = append(bounds, 0)
		}
	}
	// a rule that assigns locals and then fails at rule level, followed by a rule that reads those names
	// without defining them: the second one must fail too (its leak probe must never be reached)
	for _, first := range []string{"x = 5\n  y = 6\n  if x {\n    y = 1\n  }", "x = 5\n  y = 6\n  for i = 0; y; i += 1 {\n    y = 1\n  }", "x = 5\n  y = 1 / zero"} {
		for _, m := range models {
			if m.dag != nil || m.conc {
				continue
			}
			rules := []ruleCfg{{Name: ruleNames[0], Sal: 9, Fault: first}, {Name: ruleNames[1], Sal: 6, Fault: "ev3(\"leak\", 2, x + y)"}, {Name: ruleNames[2], Sal: 3}}
			cfgs = append(cfgs, modelCfg{Prop: "C09", Rules: rules, Model: m.name, B: true, N: m.n, M: m.m, Names: m.names, Twice: true})
			bounds = append(bounds, 0)
		}
	}
	// conc blocks start goroutines in every model: every fault inside a conc block (and blocks with
	// several members of the kind that fails) once more in the sort model under real schedule exploration
	concFaults := []string{
		`conc {
    x = 1 / zero
    y = 2
    z = 3
  }`, `conc {
    nofn(1)
    fint(2)
    fint(3)
  }`, `conc {
    p.M(1)
    s.M(2)
    s.M(3)
  }`, `conc {
    s.In.Nope(1)
    s.In.M(2)
    s.In.M(3)
  }`, `conc {
    y = 2
    x = 1 / zero
    fint(2)
    s.M(3)
  }`}
	for _, f := range faultStmts {
		if strings.HasPrefix(f, "conc {") {
			concFaults = append(concFaults, f)
		}
	}
	for _, f := range concFaults {
		for _, b := range []bool{true, false} {
			rules := []ruleCfg{{Name: ruleNames[0], Sal: 9, Fault: f}, {Name: ruleNames[1], Sal: 6}}
			cfgs = append(cfgs, modelCfg{Prop: "C09", Rules: rules, Model: "Execute", B: b})
			bb := 1
			if thorough {
				bb = 2
			}
			bounds = append(bounds, bb)
		}
	}
	return
}

// ---- pool: a faulty rule set behind every execute method ----

type c09PoolCfg struct {
	Fault  string `json:"fault"`
	Pos    int    `json:"pos"`
	Method string `json:"method"`
	EM     int    `json:"em"`
}

type c09PoolState struct {
	logs [3]*gx.Log
	errs [3]error
	pans [3]interface{}
}

var c09Active *c09PoolState
var c09ActiveIdx int

func c09PoolScenario(cfg c09PoolCfg) *hx.Scenario {
	var rules []ruleCfg
	for i := 0; i < 3; i++ {
		r := ruleCfg{Name: ruleNames[i], Sal: int64(9 - 3*i)}
		if i == cfg.Pos {
			r.Fault = cfg.Fault
		}
		rules = append(rules, r)
	}
	mc := modelCfg{Prop: "C09", Rules: rules}
	text := gx.RulesText(mc.specs())
	apis := map[string]interface{}{
		"ev":   func(k string, id int64) { c09Active.logs[c09ActiveIdx].Ev(k, id) },
		"boom": func(id int64) { c09Active.logs[c09ActiveIdx].Boom(id) },
	}
	template, err := engine.NewGenginePool(1, 2, cfg.EM, text, apis)
	if err != nil {
		vsched.InternalError("pool: %v\n%s", err, text)
	}
	pm := gx.PoolMethodByName(cfg.Method)
	return &hx.Scenario{
		Name: "c09pool",
		Cfg:  cfg,
		Opts: vsched.Options{Horizon: 400000},
		New: func() interface{} {
			return &c09PoolState{logs: [3]*gx.Log{{}, {}, {}}}
		},
		Body: func(s interface{}) {
			st := s.(*c09PoolState)
			c09Active = st
			gp := gx.DeepClone(template).(*engine.GenginePool)
			p := gx.PoolCallParams{B: true, N: 1, M: 2, Names: []string{"r1", "r0", "r2"}, Dag: [][]string{{"r0"}, {"r1", "r2"}}}
			for i := 0; i < 3; i++ {
				c09ActiveIdx = i
				data := faultData()
				data["cnt"] = &Counters{}
				data["stag"] = &engine.Stag{}
				if pm.ReqResp {
					data = map[string]interface{}{}
				}
				st.errs[i], _, st.pans[i] = gx.PoolCallGuarded(pm, gp, data, p)
				vsched.WaitOthersDone()
			}
		},
		Check: func(s interface{}, ex *vsched.Exec) (fs []hx.Finding) {
			st := s.(*c09PoolState)
			raw, _ := json.Marshal(cfg)
			bad := func(sig, msg string) {
				fs = append(fs, hx.Finding{Sig: "c09:pool." + cfg.Method + ":" + sig, Msg: msg + fmt.Sprintf("\n  cfg=%s\n  rules:\n%s  logs=[%s] [%s] [%s] errs=%v", raw, text, st.logs[0], st.logs[1], st.logs[2], st.errs)})
			}
			if ex.Verdict != "" {
				bad(ex.Verdict, "execution did not complete: "+ex.Verdict+" "+firstLine(ex.Crash))
				return
			}
			for i := 0; i < 3; i++ {
				if st.pans[i] != nil {
					bad("panic", fmt.Sprintf("request %d: the pool call panicked: %v", i+1, st.pans[i]))
					return
				}
				if st.errs[i] == nil {
					bad("no-error", fmt.Sprintf("request %d: a rule of the set is faulty but the call returned no error", i+1))
				}
				if st.logs[i].String() != st.logs[0].String() && !pm.Conc && cfg.EM == engine.SortModel {
					bad("later-call-differs", fmt.Sprintf("request %d behaved differently from request 1 on the same pool", i+1))
				}
			}
			return
		},
	}
}

func c09PoolConfigs(thorough bool) []c09PoolCfg {
	reps := []string{`x = !5`, `if 5 {
    x = 1
  }`, `x = p.F`, `return nope`, `pval()`, `x = l[3]`, `conc {
    p.M(1)
    y = 2
  }`, `x = 1 / zero`}
	if thorough {
		reps = append(reps, `return !5`, `fint("a")`, `x = m[1]`, `s.Nil.M(1)`, `forRange k := n5 {
    x = 1
  }`, `return pval()`)
	}
	var out []c09PoolCfg
	for fi, f := range reps {
		for _, m := range gx.PoolMethods {
			ems := []int{engine.SortModel}
			if m.UsesEM {
				ems = []int{engine.SortModel, engine.ConcurrentModel, engine.MixModel, engine.InverseMixModel}
			}
			for _, em := range ems {
				out = append(out, c09PoolCfg{Fault: f, Pos: fi % 2, Method: m.Name, EM: em})
			}
		}
	}
	return out
}

func init() {
	hx.Register(&hx.Prop{
		ID:          "C09",
		Workers:     func(string) int { return 16 },
		BudgetQuick: 300 * time.Second,
		BudgetThor:  30 * time.Minute,
		Kind:        "schedules",
		Rule: fmt.Sprintf("%d statement faults + %d return-position faults (type mismatches in arithmetic/comparison/logic/!, division by zero, unknown variable/function/method, wrong-class stores, stores into maps that were never made, nil pointers, out-of-range / negative / wrong-type indexes and keys, non-boolean conditions, bad call arguments and arities, panicking injected functions (value, error, runtime error), void result used as value, failing loop step, non-iterable forRange, faults inside conc) x nesting {top, if, for, forRange} [quick: rotated] + 6 endless for loops (iterations ending normally, through continue - direct, nested, mixed -, with an unreachable break), ", len(faultStmts), len(faultReturns)) +
			"as rule 1-of-3 and 2-of-3 next to healthy observer rules x every engine model (x policy) [quick: every second], each called twice on the same engine (alternately with a fresh data context and on the same builder and data context) under the default schedule; representatives under every schedule with <=1 (2) deviations from the default scheduler (delay bounding) in the goroutine-spawning models; every fault inside a conc block, and conc blocks with several members of the failing kind, in the sort model under every schedule with <=1 (2) deviations; plus loops whose body grows the slice / map they range over (must complete, in every model); plus a rule that assigns locals and then fails, followed by a rule that reads those names undefined (must fail as well); plus representatives behind all 24 pool execute methods x execution models, three requests each. " +
			"Oracle: the call returns (no panic in the caller, no panic on any gengine goroutine, no deadlock, step horizon not exceeded), error non-nil, the other rules run exactly as the model's reference plan prescribes, the second call behaves the same",
		Assume: []string{"injected functions terminate", "one level of unbounded loop (the engine's 10000-iteration cut-off)"},
		Run: func(c *hx.Ctx) {
			cfgs, bounds := c09Configs(c.Thorough())
			for i, cfg := range cfgs {
				if !c.Mine(i) {
					continue
				}
				if i%32 == 0 && c.Expired() {
					c.Res.Capped = append(c.Res.Capped, "time budget before all configurations")
					break
				}
				hx.Explore("C09", modelScenario(cfg), hx.ExploreCfg{Bound: envBound(bounds[i]), DefaultOnly: bounds[i] == 0, Delay: true, Prune: true, Deadline: c.Deadline}, c.Res)
			}
			for i, cfg := range c09PoolConfigs(c.Thorough()) {
				if !c.Mine(i) {
					continue
				}
				if c.Expired() {
					c.Res.Capped = append(c.Res.Capped, "time budget before all pool configurations")
					break
				}
				hx.Explore("C09", c09PoolScenario(cfg), hx.ExploreCfg{Bound: 0, DefaultOnly: true, Deadline: c.Deadline}, c.Res)
			}
		},
		Rebuild: func(v *hx.Violation) *hx.Scenario {
			if v.Scenario == "c09pool" {
				var cfg c09PoolCfg
				json.Unmarshal(v.Cfg, &cfg)
				return c09PoolScenario(cfg)
			}
			return rebuildModel(v)
		},
	})
}
