package main

import (
	"encoding/json"
	"fmt"
	"strings"
	"time"

	"github.com/bilibili/gengine/engine"
	"github.com/bilibili/gengine/verifrt/vsched"

	"verif/harness/gx"
	"verif/harness/hx"
)

// C19 - gengine's own state is free of data races under its concurrent contract.
//
// Decided by the happens-before (vector clock) monitor over the shared-memory accesses hooked by the
// instrumenter (fields of gengine's own struct types, map operations, captured locals, package-level
// variables) on EVERY explored execution of the concurrency scenarios of C05, C18, C06/C17, C07 plus
// "management call || execution". Racy sites found become scheduling points and the exploration is
// repeated until no new racy site appears, so that control paths behind a race are reached too.

type c19Cfg struct {
	Kind  string          `json:"kind"`
	Inner json.RawMessage `json:"inner"`
}

func c19Wrap(kind string, inner *hx.Scenario) *hx.Scenario {
	raw, _ := json.Marshal(inner.Cfg)
	sc := *inner
	sc.Name = "c19"
	sc.Cfg = c19Cfg{Kind: kind, Inner: raw}
	sc.Check = func(s interface{}, ex *vsched.Exec) []hx.Finding { return nil } // races only (reported by the explorer)
	sc.Outcome = nil
	return &sc
}

// management operation || one execution
type mgmtCfg struct {
	Op    string `json:"op"`
	Model string `json:"model"`
}

var mgmtOps = map[string]func(gp *engine.GenginePool){
	"full":       func(gp *engine.GenginePool) { gp.UpdatePooledRules(c07Text(c07Full)) },
	"incr":       func(gp *engine.GenginePool) { gp.UpdatePooledRulesIncremental(c07Text(c07Incr)) },
	"remove":     func(gp *engine.GenginePool) { gp.RemoveRules(c07Rm) },
	"clear":      func(gp *engine.GenginePool) { gp.ClearPoolRules() },
	"clear+incr": func(gp *engine.GenginePool) { gp.ClearPoolRules(); gp.UpdatePooledRulesIncremental(c07Text(c07Incr)) },
	"setmodel":   func(gp *engine.GenginePool) { gp.SetExecModel(engine.ConcurrentModel) },
	"isexist":    func(gp *engine.GenginePool) { gp.IsExist([]string{"a", "zz"}) },
	"number":     func(gp *engine.GenginePool) { gp.GetRulesNumber() },
	"salience":   func(gp *engine.GenginePool) { gp.GetRuleSalience("a") },
	"desc":       func(gp *engine.GenginePool) { gp.GetRuleDesc("a") },
	"getmodel":   func(gp *engine.GenginePool) { gp.GetExecModel() },
}

var mgmtOpNames = []string{"full", "incr", "remove", "clear", "clear+incr", "setmodel", "isexist", "number", "salience", "desc", "getmodel"}

func mgmtScenario(cfg mgmtCfg) *hx.Scenario {
	template, err := engine.NewGenginePool(1, 2, engine.SortModel, c07Text(c07V1), map[string]interface{}{"hook": func(string) { vsched.Obs() }})
	if err != nil {
		vsched.InternalError("pool: %v", err)
	}
	m := c07Models[cfg.Model]
	return &hx.Scenario{
		Name: "mgmt",
		Cfg:  cfg,
		Opts: vsched.Options{Horizon: 50000},
		New:  func() interface{} { return new(int) },
		Body: func(s interface{}) {
			gp := gx.DeepClone(template).(*engine.GenginePool)
			vsched.Go(func() { gx.CallGuarded(func() error { mgmtOps[cfg.Op](gp); return nil }) })
			vsched.Go(func() {
				gx.PoolCallGuarded(gx.PoolMethodByName(m.method), gp, map[string]interface{}{"k": int64(1)}, m.p)
			})
			vsched.Go(func() {
				gx.PoolCallGuarded(gx.PoolMethodByName("ExecuteRulesWithMultiInputWithSpecifiedEM"), gp, map[string]interface{}{"k": int64(2)}, gx.PoolCallParams{})
			})
			vsched.WaitOthersDone()
		},
		Check: func(s interface{}, ex *vsched.Exec) []hx.Finding { return nil },
	}
}

// two management calls against each other (no execution)
type mgmt2Cfg struct {
	A string `json:"a"`
	B string `json:"b"`
}

func mgmt2Scenario(cfg mgmt2Cfg) *hx.Scenario {
	template, err := engine.NewGenginePool(1, 2, engine.SortModel, c07Text(c07V1), map[string]interface{}{"hook": func(string) { vsched.Obs() }})
	if err != nil {
		vsched.InternalError("pool: %v", err)
	}
	return &hx.Scenario{
		Name: "mgmt2",
		Cfg:  cfg,
		New:  func() interface{} { return new(int) },
		Body: func(s interface{}) {
			gp := gx.DeepClone(template).(*engine.GenginePool)
			vsched.Go(func() { gx.CallGuarded(func() error { mgmtOps[cfg.A](gp); return nil }) })
			vsched.Go(func() { gx.CallGuarded(func() error { mgmtOps[cfg.B](gp); return nil }) })
			vsched.WaitOthersDone()
		},
		Check: func(s interface{}, ex *vsched.Exec) []hx.Finding { return nil },
	}
}

func c19Scenarios(thorough bool) (out []*hx.Scenario, bounds []int) {
	add := func(kind string, sc *hx.Scenario, b int) {
		out = append(out, c19Wrap(kind, sc))
		bounds = append(bounds, b)
	}
	// engine models: 4 rules, the second one failing, all returning
	rules := []ruleCfg{{Name: "r0", Sal: 9}, {Name: "r1", Sal: 7, Fail: true}, {Name: "r2", Sal: 5}, {Name: "r3", Sal: 3}}
	for _, m := range gx.Models {
		if !(strings.Contains(m.Name, "Conc") || strings.Contains(m.Name, "Mix") || m.Name == "ExecuteDAGModel") {
			continue
		}
		if m.Name == "ExecuteDAGModel" {
			continue // driven below through the pool (gx.Params carries no DAG in modelCfg)
		}
		cfg := modelCfg{Prop: "C19", Rules: rules, Model: m.Name, B: true, Twice: true}
		if m.NM {
			cfg.N, cfg.M = 2, 2
		}
		if m.Selected {
			cfg.Names = []string{"r3", "r0", "r1", "r2"}
		}
		add("model", modelScenario(cfg), 1)
	}
	// conc blocks
	for _, kids := range [][]int{{0, 1}, {0, 3, 4}, {2, 5, 6}, {7, 8}, {1, 9, 10}, {0, 2}, {2, 1, 4}, {2, 3}} {
		add("conc", concScenario(concCfg{Kids: kids}), 1)
	}
	// every pair of statement kinds that touches the local store or a local receiver
	for _, a := range []int{0, 2, 11, 12, 13} {
		for b := 0; b < len(concKinds); b++ {
			if b != a && !(b < a && (b == 0 || b == 2 || b >= 11)) {
				add("conc", concScenario(concCfg{Kids: []int{a, b}}), 1)
			}
		}
	}
	add("conc", concScenario(concCfg{Kids: []int{0, 5}, Two: true}), 1)
	add("conc", concScenario(concCfg{Kids: []int{0, 3}, InFor: true}), 1)
	// pool requests
	ok, pn := reqSpec{Mode: modeOK, Other: true}, reqSpec{Mode: modePanic}
	nr := reqSpec{Mode: modeNoRet, Other: true}
	for _, meth := range []string{"Execute", "ExecuteConcurrent", "ExecuteMixModel", "ExecuteDAGModel", "ExecuteSelectedRules"} {
		// a request whose result map stays empty, the client keeps (and re-reads) it while the instance serves the next ones
		add("pool", poolScenario(poolCfg{Prop: "C17", Min: 1, Max: 2, EM: engine.SortModel, Method: meth, Clients: [][]reqSpec{{nr, ok}, {ok, nr}}}), 1)
	}
	for _, meth := range []string{"Execute", "ExecuteRulesWithSpecifiedEM", "ExecuteConcurrent", "ExecuteDAGModel", "ExecuteNSortMConcurrent"} {
		add("pool", poolScenario(poolCfg{Prop: "C17", Min: 1, Max: 2, EM: engine.SortModel, Method: meth, Clients: [][]reqSpec{{ok}, {pn}, {ok}}, Phase2: true}), 1)
		add("pool", poolScenario(poolCfg{Prop: "C17", Min: 1, Max: 2, EM: engine.SortModel, Method: meth, Clients: [][]reqSpec{{ok, ok}, {ok, pn}}}), 1)
	}
	// updates || executions
	for _, m := range []string{"sort", "conc", "mix", "inverse", "nsortmc", "ncmsort", "ncmc", "dag", "selected", "specified"} {
		for _, k := range []string{"full", "incr", "remove"} {
			add("update", c07Scenario(c07Cfg{Updates: []string{k}, Execs: []string{m}}), 1)
		}
		add("update", c07Scenario(c07Cfg{Inside: "incr", Execs: []string{m}}), 0)
	}
	// every management call || executions
	for _, op := range mgmtOpNames {
		models := []string{"sort", "conc", "nsortmc", "dag"}
		if thorough {
			models = []string{"sort", "conc", "mix", "inverse", "nsortmc", "ncmsort", "ncmc", "dag", "selected", "specified"}
		}
		for _, m := range models {
			add("mgmt", mgmtScenario(mgmtCfg{Op: op, Model: m}), 1)
		}
	}
	// every query / update against every update
	for _, a := range mgmtOpNames {
		for _, b := range []string{"full", "incr", "remove", "clear", "clear+incr", "setmodel"} {
			add("mgmt2", mgmt2Scenario(mgmt2Cfg{A: a, B: b}), 1)
		}
	}
	return
}

func c19Rebuild(v *hx.Violation) *hx.Scenario {
	var cfg c19Cfg
	if json.Unmarshal(v.Cfg, &cfg) != nil {
		return nil
	}
	iv := &hx.Violation{Cfg: cfg.Inner}
	switch cfg.Kind {
	case "model":
		return c19Wrap("model", rebuildModel(iv))
	case "conc":
		var c concCfg
		json.Unmarshal(cfg.Inner, &c)
		return c19Wrap("conc", concScenario(c))
	case "pool":
		return c19Wrap("pool", rebuildPool(iv))
	case "update":
		var c c07Cfg
		json.Unmarshal(cfg.Inner, &c)
		return c19Wrap("update", c07Scenario(c))
	case "mgmt2":
		var c mgmt2Cfg
		json.Unmarshal(cfg.Inner, &c)
		return c19Wrap("mgmt2", mgmt2Scenario(c))
	case "mgmt":
		var c mgmtCfg
		json.Unmarshal(cfg.Inner, &c)
		return c19Wrap("mgmt", mgmtScenario(c))
	}
	return nil
}

func init() {
	hx.Register(&hx.Prop{
		ID:          "C19",
		Workers:     func(string) int { return 16 },
		BudgetQuick: 300 * time.Second,
		BudgetThor:  30 * time.Minute,
		Kind:        "schedules",
		Rule: "happens-before race monitor (vector clocks; edges: unlock->lock, RUnlock->Lock, WaitGroup.Done->Wait, go statement) over the hooked shared-memory accesses of every explored execution of: all goroutine-spawning engine models (4 rules, one failing, called twice), conc blocks (incl. every pair of statement kinds in which one touches the local store or calls a method of an object held in a local), pool request scenarios (3 clients / reuse / panicking request / a request whose result map stays empty / conservation phase; the client's own reads of the result map it was handed are accesses too) through 5 execute methods, every update kind || every pool execution model, update from inside a rule, every management call (5 updates incl. clear, SetExecModel, 5 queries) || two executions, and every management call || every update; " +
			"each scenario explored under every schedule with <=2 (thorough: 3 for every twelfth scenario, and the larger scenario list) deviations from the default scheduler (delay bounding), then re-explored with every racy access site turned into a scheduling point until no new racy site appears. Observer calls create NO happens-before edges. " + fmt.Sprint("Oracle: no two conflicting accesses unordered by happens-before"),
		Assume: []string{"accesses the instrumenter does not hook (arrays, strings, state reached only through reflect) are seen only by the free-running `go test -race`-style cross-check, not by this check", "sequential consistency for the explored control flow"},
		Run: func(c *hx.Ctx) {
			raceCrossCheck(c)
			scs, bounds := c19Scenarios(c.Thorough())
			for i, sc := range scs {
				if c.Expired() {
					c.Res.Capped = append(c.Res.Capped, "time budget before all scenarios")
					break
				}
				b := bounds[i]
				if b > 0 {
					b = delayBound(c, b)
					if c.Thorough() && i%12 == 0 {
						b = 3 // the third deviation for every twelfth scenario (measured: every third does not finish in 25 minutes)
					}
				}
				if !c.Mine(i) {
					continue // not split across workers: the racy-site fix-point must see the whole schedule tree
				}
				hx.Explore("C19", sc, hx.ExploreCfg{Bound: envBound(b), Delay: true, Prune: true, Races: true, AutoSites: true, Deadline: c.Deadline}, c.Res)
			}
		},
		Rebuild: c19Rebuild,
	})
}
