// vcheck is the single worker binary behind ./check: one sub-check per property.
package main

import "verif/harness/hx"

func main() { hx.Main() }
