package main

// C02 - statements follow the reference control-flow and assignment semantics.
//
// Bounded-exhaustive enumeration of statement trees (generator below), each rendered to rule text,
// executed on the real engine and compared in lock-step with the structural reference interpreter
// harness/ref/stmt.go on: the observer trace, the final injected state, the result-map entry and
// error nil-ness. forRange over a map: the reference enumerates every visiting order and the real
// run has to equal one of them.

import (
	"encoding/json"
	"fmt"
	"os"
	"reflect"
	"runtime/debug"
	"sort"
	"strings"
	"time"

	"github.com/bilibili/gengine/builder"
	"github.com/bilibili/gengine/verifrt/vsched"

	"verif/harness/gx"
	"verif/harness/hx"
	"verif/harness/ref"
)

type (
	c02S = ref.SStmt
	c02B = ref.SBlock
)

// ---------------------------------------------------------------------------------------------
// alphabet

// locals in the canonical order in which observers receive them
var c02Locals = []string{"x", "y", "i", "j", "h", "k", "m", "n"}
var c02ForVars = []string{"i", "j", "h"}   // by loop nesting level
var c02RangeVars = []string{"k", "m", "n"} // by loop nesting level

type c02Leaf struct {
	Target, Op string
	E          ref.SExpr
}

func c02C(c int64) ref.SExpr  { return ref.SExpr{C: c} }
func c02V(v string) ref.SExpr { return ref.SExpr{Var: v} }

// c02Family is one enumerated sub-space: all trees over (obs + Leaves + break/continue inside
// loops + if/else-if/else + for + forRange) with at most K nodes and compound nesting <= 3.
type c02Family struct {
	Name      string
	K         int
	Leaves    []c02Leaf
	Rets      []*ref.SReturn // admissible trailing returns (besides none)
	Conds     []ref.SCond    // conditions available everywhere
	LoopConds []ref.SCond    // additional conditions inside a loop (Var is replaced by the innermost loop variable)
	ForBounds []int64
	Colls     []string
	MaxElif   int  // else-if clauses per if: 0..MaxElif
	NoPrelude bool // the rule body does not start with `x = X0` (no local besides loop variables)
}

var c02RetBare = &ref.SReturn{}
var c02RetX = &ref.SReturn{E: &ref.SExpr{Var: "x"}}
var c02Ret7 = &ref.SReturn{E: &ref.SExpr{C: 7}}

// control-flow families: few simple statements
var c02LeavesA = []c02Leaf{
	{"x", "+=", c02C(1)},
	{"y", ":=", c02V("x")},
	{"S.F", "=", c02V("x")},
}

// assignment family: every form of plain / compound assignment on local and injected targets
var c02LeavesB = []c02Leaf{
	{"x", "=", c02C(5)},
	{"x", ":=", c02V("y")},
	{"x", "=", c02V("S.F")},
	{"x", "+=", c02C(2)},
	{"x", "-=", c02C(1)},
	{"x", "*=", c02C(3)},
	{"x", "/=", c02C(2)},
	{"x", "+=", c02V("y")},
	{"y", ":=", c02V("x")},
	{"y", "=", c02C(7)},
	{"y", "+=", c02C(1)},
	{"y", "*=", c02V("x")},
	{"S.F", "=", c02V("x")},
	{"S.F", ":=", c02C(7)},
	{"S.F", "+=", c02C(2)},
	{"S.F", "-=", c02V("x")},
	{"S.F", "*=", c02C(3)},
	{"S.F", "/=", c02C(2)},
}

var (
	c02CondT    = ref.SCond{Op: "true"}
	c02CondF    = ref.SCond{Op: "false"}
	c02CondFlag = ref.SCond{Op: "var", Var: "flag"}
	c02CondXPos = ref.SCond{Op: ">", Var: "x", C: 0}
	c02CondEq1  = ref.SCond{Op: "==", C: 1}
	c02CondLt1  = ref.SCond{Op: "<", C: 1}
	c02CondTick = ref.SCond{Op: "tick"}
)

// bounds (see the counts printed by VERIF_C02_COUNT=1). Compiling a generated rule costs about
// 1.6 ms of CPU (the grammar is ambiguous, ANTLR falls back to full LL prediction for every
// assignment and argument list), executing and judging it a few microseconds; quick is about
// 270 k trees (430 CPU-s), thorough 1.57 M trees (2600 CPU-s). skel at 6 nodes would add 2.9 M
// trees (4600 CPU-s): left out to stay inside the 10 minute budget on a busy machine.
var c02K = map[string][2]int{ // family -> {quick, thorough}
	"skel":   {5, 5},
	"deep":   {4, 5},
	"flow":   {3, 4},
	"assign": {3, 4},
	"tick":   {4, 5},
}

func c02Families(thorough bool) []c02Family {
	fams := []c02Family{
		// control skeletons only: observer calls are the only simple statement
		{Name: "skel", NoPrelude: true, Leaves: nil, Rets: []*ref.SReturn{c02Ret7},
			Conds: []ref.SCond{c02CondT, c02CondF}, LoopConds: []ref.SCond{c02CondEq1},
			ForBounds: []int64{3}, Colls: []string{"L2"}},
		// narrow alphabet, deep trees: nesting and interplay of the control constructs with locals
		{Name: "deep", Leaves: c02LeavesA[:2], Rets: []*ref.SReturn{c02RetX},
			Conds: []ref.SCond{c02CondT, c02CondF}, LoopConds: []ref.SCond{c02CondEq1},
			ForBounds: []int64{3}, Colls: []string{"L2", "M2"}},
		// the whole control-flow alphabet
		{Name: "flow", Leaves: c02LeavesA, Rets: []*ref.SReturn{c02RetBare, c02RetX},
			Conds: []ref.SCond{c02CondT, c02CondF, c02CondFlag, c02CondXPos}, LoopConds: []ref.SCond{c02CondEq1, c02CondLt1},
			ForBounds: []int64{0, 2, 3}, Colls: []string{"L0", "L2", "A2", "M2"}},
		// every form of assignment inside a reduced set of control constructs
		{Name: "assign", Leaves: c02LeavesB, Rets: []*ref.SReturn{c02RetBare, c02RetX, c02Ret7},
			Conds: []ref.SCond{c02CondFlag, c02CondXPos}, LoopConds: nil,
			ForBounds: []int64{2}, Colls: []string{"M2"}},
	}
	// conditions with a side effect (an injected function that records its call and answers true,
	// false, true, ...): which conditions are evaluated, how often and in which order is observable
	fams = append(fams, c02Family{Name: "tick", NoPrelude: true, Leaves: nil, Rets: []*ref.SReturn{c02Ret7},
		Conds: []ref.SCond{c02CondTick, c02CondF}, LoopConds: nil, ForBounds: []int64{2}, Colls: []string{"L2"}})
	for i := range fams {
		if fams[i].MaxElif == 0 {
			fams[i].MaxElif = 2
		}
		fams[i].K = c02K[fams[i].Name][0]
		if thorough {
			fams[i].K = c02K[fams[i].Name][1]
		}
	}
	return fams
}

// ---------------------------------------------------------------------------------------------
// generator: all blocks with exactly n nodes (continuation passing; the block handed to the
// continuation is only valid during the call - consumers clone what they keep)
//
// node count: every statement, every `else if` clause, every `else` clause and every `return` = 1.

type c02Ctx struct {
	depth   int    // number of enclosing compound statements
	level   int    // number of enclosing loops
	loopVar string // variable of the innermost enclosing loop, "" outside loops
}

type c02Gen struct {
	fam   *c02Family
	memo  map[string]int64
	nodes int64
}

func (g *c02Gen) conds(ctx c02Ctx) []ref.SCond {
	cs := append([]ref.SCond{}, g.fam.Conds...)
	if ctx.loopVar != "" {
		for _, c := range g.fam.LoopConds {
			c.Var = ctx.loopVar
			cs = append(cs, c)
		}
	}
	return cs
}

func (g *c02Gen) block(ctx c02Ctx, n int, k func(b *c02B)) {
	b := &c02B{}
	var rec func(idx, rem int)
	rec = func(idx, rem int) {
		if rem == 0 {
			b.Ret = nil
			k(b)
			return
		}
		if rem == 1 {
			for _, r := range g.fam.Rets {
				b.Ret = r
				k(b)
			}
			b.Ret = nil
		}
		if idx < 2 {
			for s1 := 1; s1 <= rem; s1++ {
				g.stmt(ctx, s1, func(s *c02S) {
					b.Stmts = append(b.Stmts[:idx], s)
					rec(idx+1, rem-s1)
					b.Stmts = b.Stmts[:idx]
				})
			}
		}
	}
	rec(0, n)
}

func (g *c02Gen) stmt(ctx c02Ctx, n int, k func(s *c02S)) {
	if n == 1 {
		k(&c02S{Kind: ref.SObs})
		for i := range g.fam.Leaves {
			l := &g.fam.Leaves[i]
			k(&c02S{Kind: ref.SAssign, Target: l.Target, Op: l.Op, E: &l.E})
		}
		if ctx.level > 0 {
			k(&c02S{Kind: ref.SBreak})
			k(&c02S{Kind: ref.SContinue})
		}
	}
	if ctx.depth >= 3 {
		return
	}
	inner := ctx
	inner.depth++
	// if c {B} (else if c {B})^{0..2} (else {B})?
	conds := g.conds(ctx)
	for ci := range conds {
		s := &c02S{Kind: ref.SIf, Cond: &conds[ci]}
		for t := 0; t <= n-1; t++ {
			g.block(inner, t, func(then *c02B) {
				s.Then = then
				g.elifs(ctx, inner, s, 0, n-1-t, k)
			})
		}
	}
	// loops
	loop := inner
	loop.level++
	if ctx.level < len(c02ForVars) {
		for _, bound := range g.fam.ForBounds {
			s := &c02S{Kind: ref.SFor, Var: c02ForVars[ctx.level], N: bound}
			loop.loopVar = s.Var
			g.block(loop, n-1, func(body *c02B) {
				s.Body = body
				k(s)
			})
		}
		for _, coll := range g.fam.Colls {
			s := &c02S{Kind: ref.SRange, Var: c02RangeVars[ctx.level], Coll: coll}
			loop.loopVar = s.Var
			g.block(loop, n-1, func(body *c02B) {
				s.Body = body
				k(s)
			})
		}
	}
}

// elifs extends s with ne.. else-if clauses and an optional else using exactly rem nodes.
func (g *c02Gen) elifs(ctx, inner c02Ctx, s *c02S, ne int, rem int, k func(s *c02S)) {
	if rem == 0 {
		s.Else = nil
		k(s)
		return
	}
	// else {B}: 1 + |B| = rem
	g.block(inner, rem-1, func(eb *c02B) {
		s.Else = eb
		k(s)
	})
	s.Else = nil
	if ne < g.fam.MaxElif {
		conds := g.conds(ctx)
		for ci := range conds {
			for t := 0; t <= rem-1; t++ {
				g.block(inner, t, func(eb *c02B) {
					s.Elifs = append(s.Elifs[:ne], ref.SElif{Cond: conds[ci], Body: eb})
					g.elifs(ctx, inner, s, ne+1, rem-1-t, k)
					s.Elifs = s.Elifs[:ne]
				})
			}
		}
	}
}

// count* compute the same numbers in closed form (memoised); used to cross-check the generator.
func (g *c02Gen) countBlock(ctx c02Ctx, n int) int64 {
	key := fmt.Sprintf("b%d/%d/%v/%d", ctx.depth, ctx.level, ctx.loopVar != "", n)
	if v, ok := g.memo[key]; ok {
		return v
	}
	// seq[j][r]: number of ways to write j statements with r nodes
	var total int64
	var rec func(idx, rem int) int64
	rec = func(idx, rem int) int64 {
		var t int64
		if rem == 0 {
			return 1
		}
		if rem == 1 {
			t += int64(len(g.fam.Rets))
		}
		if idx < 2 {
			for s1 := 1; s1 <= rem; s1++ {
				t += g.countStmt(ctx, s1) * rec(idx+1, rem-s1)
			}
		}
		return t
	}
	total = rec(0, n)
	g.memo[key] = total
	return total
}

func (g *c02Gen) countStmt(ctx c02Ctx, n int) int64 {
	key := fmt.Sprintf("s%d/%d/%v/%d", ctx.depth, ctx.level, ctx.loopVar != "", n)
	if v, ok := g.memo[key]; ok {
		return v
	}
	var t int64
	if n == 1 {
		t += 1 + int64(len(g.fam.Leaves))
		if ctx.level > 0 {
			t += 2
		}
	}
	if ctx.depth < 3 {
		inner := ctx
		inner.depth++
		nc := int64(len(g.conds(ctx)))
		// tail(ne, rem): ways to finish an if with rem nodes after ne else-ifs
		var tail func(ne, rem int) int64
		tail = func(ne, rem int) int64 {
			if rem == 0 {
				return 1
			}
			v := g.countBlock(inner, rem-1)
			if ne < g.fam.MaxElif {
				for tt := 0; tt <= rem-1; tt++ {
					v += nc * g.countBlock(inner, tt) * tail(ne+1, rem-1-tt)
				}
			}
			return v
		}
		for tt := 0; tt <= n-1; tt++ {
			t += nc * g.countBlock(inner, tt) * tail(0, n-1-tt)
		}
		if ctx.level < len(c02ForVars) {
			loop := inner
			loop.level++
			loop.loopVar = "v"
			t += int64(len(g.fam.ForBounds)+len(g.fam.Colls)) * g.countBlock(loop, n-1)
		}
	}
	g.memo[key] = t
	return t
}

// ---------------------------------------------------------------------------------------------
// valuations of the injected data

type c02Val struct {
	Flag bool
	X0   int64 // read-only injected integer the prelude copies into x
	F    int64 // S.F
	MK   [2]int64
	L2   [2]int64
	A2   [2]int64
}

// quick runs every tree under the first two, thorough under all four
var c02Vals = []c02Val{
	{Flag: false, X0: 0, F: 0, MK: [2]int64{1, 2}, L2: [2]int64{7, 8}, A2: [2]int64{1, 2}},
	{Flag: true, X0: 4, F: 5, MK: [2]int64{0, 1}, L2: [2]int64{3, 4}, A2: [2]int64{5, 6}},
	{Flag: false, X0: 4, F: 5, MK: [2]int64{0, 1}, L2: [2]int64{7, 8}, A2: [2]int64{1, 2}},
	{Flag: true, X0: 0, F: 3, MK: [2]int64{1, 2}, L2: [2]int64{3, 4}, A2: [2]int64{5, 6}},
}

func c02NVals(thorough bool) int {
	if thorough {
		return 4
	}
	return 2
}

func (v c02Val) host() ref.SHost {
	return ref.SHost{
		Bools: map[string]bool{"flag": v.Flag},
		Ints:  map[string]int64{"S.F": v.F, "X0": v.X0},
		Colls: map[string]ref.SColl{
			"L0": {Keys: nil},
			"L2": {Keys: []int64{0, 1}},
			"A2": {Keys: []int64{0, 1}},
			"M2": {Map: true, Keys: []int64{v.MK[0], v.MK[1]}},
		},
	}
}

type c02Struct struct{ F int64 }

// c02Rec is the injected observer. An observer call with id N and arguments a, b, c is written
//
//	aN(a)   v(b)   v(c)        (tN() when there is no argument)
//
// because one-argument calls are by far the cheapest thing to compile: tN / aN start event N,
// v appends a value to the event just started.
type c02Rec struct{ evs []ref.SEvent }

const c02MaxObs = 12

var c02ObsNames = func() (n [2][c02MaxObs + 1]string) {
	for id := 1; id <= c02MaxObs; id++ {
		n[0][id], n[1][id] = fmt.Sprintf("t%d", id), fmt.Sprintf("a%d", id)
	}
	return
}()

func (r *c02Rec) start0(id int64) func() {
	return func() { r.evs = append(r.evs, ref.SEvent{ID: id}) }
}
func (r *c02Rec) start1(id int64) func(int64) {
	return func(a int64) { r.evs = append(r.evs, ref.SEvent{ID: id, Vals: []int64{a}}) }
}
func (r *c02Rec) V(a int64) {
	if n := len(r.evs); n > 0 {
		r.evs[n-1].Vals = append(r.evs[n-1].Vals, a)
	} else {
		r.evs = append(r.evs, ref.SEvent{ID: -1, Vals: []int64{a}})
	}
}

type c02Live struct {
	rec *c02Rec
	s   *c02Struct
	l0  []int64
	l2  []int64
	a2  [2]int64
	m2  map[int64]int64
	inj map[string]interface{}
}

// fresh host objects for one execution
func (v c02Val) live() *c02Live {
	lv := &c02Live{rec: &c02Rec{}, s: &c02Struct{F: v.F}, l0: []int64{}, l2: []int64{v.L2[0], v.L2[1]},
		a2: v.A2, m2: map[int64]int64{v.MK[0]: 10, v.MK[1]: 20}}
	lv.inj = map[string]interface{}{
		"S": lv.s, "flag": v.Flag, "X0": v.X0, "L0": lv.l0, "L2": lv.l2, "A2": lv.a2, "M2": lv.m2,
		"v": lv.rec.V,
	}
	ticks := 0
	lv.inj["tick"] = func() bool {
		lv.rec.evs = append(lv.rec.evs, ref.SEvent{ID: 99})
		ticks++
		return ticks%2 == 1
	}
	for id := int64(1); id <= c02MaxObs; id++ {
		lv.inj[c02ObsNames[0][id]] = lv.rec.start0(id)
		lv.inj[c02ObsNames[1][id]] = lv.rec.start1(id)
	}
	return lv
}

// collections must come out as they went in (nothing in the alphabet writes to them)
func (lv *c02Live) collsIntact(v c02Val) bool {
	return len(lv.l0) == 0 && len(lv.l2) == 2 && lv.l2[0] == v.L2[0] && lv.l2[1] == v.L2[1] &&
		len(lv.m2) == 2 && lv.m2[v.MK[0]] == 10 && lv.m2[v.MK[1]] == 20
}

// ---------------------------------------------------------------------------------------------
// framing, annotation, rendering

func c02CloneBlock(b *c02B) *c02B {
	if b == nil {
		return nil
	}
	nb := &c02B{Ret: b.Ret}
	for _, s := range b.Stmts {
		ns := *s
		ns.Args = append([]string(nil), s.Args...)
		ns.Then, ns.Else, ns.Body = c02CloneBlock(s.Then), c02CloneBlock(s.Else), c02CloneBlock(s.Body)
		ns.Elifs = nil
		for _, e := range s.Elifs {
			ns.Elifs = append(ns.Elifs, ref.SElif{Cond: e.Cond, Body: c02CloneBlock(e.Body)})
		}
		nb.Stmts = append(nb.Stmts, &ns)
	}
	return nb
}

// c02Frame turns a generated tree into a whole rule body: prelude `x = X0`, the tree, and - when
// the top-level block does not end in a return - a final observer call (neither counts as a node).
func c02Frame(tree *c02B, prelude bool) *c02B {
	t := c02CloneBlock(tree)
	x0 := c02V("X0")
	p := &c02B{Ret: t.Ret}
	if prelude {
		p.Stmts = append(p.Stmts, &c02S{Kind: ref.SAssign, Target: "x", Op: "=", E: &x0})
	}
	p.Stmts = append(p.Stmts, t.Stmts...)
	if t.Ret == nil {
		p.Stmts = append(p.Stmts, &c02S{Kind: ref.SObs})
	}
	return p
}

func c02Walk(b *c02B, parent string, f func(s *c02S, parent string)) {
	if b == nil {
		return
	}
	for _, s := range b.Stmts {
		f(s, parent)
		switch s.Kind {
		case ref.SIf:
			c02Walk(s.Then, "if", f)
			for _, e := range s.Elifs {
				c02Walk(e.Body, "elseif", f)
			}
			c02Walk(s.Else, "else", f)
		case ref.SFor:
			c02Walk(s.Body, "for", f)
		case ref.SRange:
			c02Walk(s.Body, "forRange-"+s.Coll, f)
		}
	}
}

// c02Annotate numbers the observer calls in text order and gives each one the locals that the
// reference semantics defines at every visit of it (in canonical order).
func c02Annotate(p *c02B, h ref.SHost) {
	id := int64(0)
	c02Walk(p, "top", func(s *c02S, _ string) {
		if s.Kind == ref.SObs {
			id++
			s.ID = id
			s.Args = nil
		}
	})
	if id > c02MaxObs {
		vsched.InternalError("C02: more than %d observer calls in a generated program", c02MaxObs)
	}
	def, ok := ref.SObsDefined(p, h, c02OrderLimit)
	if !ok {
		vsched.InternalError("C02: more than %d map orders in a generated program", c02OrderLimit)
	}
	for s, d := range def {
		for _, l := range c02Locals {
			for _, x := range d {
				if x == l {
					s.Args = append(s.Args, l)
				}
			}
		}
	}
}

const c02OrderLimit = 1 << 14

func c02ExprText(e *ref.SExpr) string {
	if e.Var == "" {
		return fmt.Sprintf("%d", e.C)
	}
	return e.Var
}

func c02CondText(c *ref.SCond) string {
	switch c.Op {
	case "true", "false":
		return c.Op
	case "var":
		return c.Var
	case "tick":
		return "tick()"
	}
	return fmt.Sprintf("%s %s %d", c.Var, c.Op, c.C)
}

func c02Render(sb *strings.Builder, b *c02B, ind string) {
	if b == nil {
		return
	}
	for _, s := range b.Stmts {
		sb.WriteString(ind)
		switch s.Kind {
		case ref.SObs:
			if len(s.Args) == 0 {
				fmt.Fprintf(sb, "t%d()\n", s.ID)
			}
			for i, a := range s.Args {
				if i == 0 {
					fmt.Fprintf(sb, "a%d(%s)\n", s.ID, a)
				} else {
					fmt.Fprintf(sb, "%sv(%s)\n", ind, a)
				}
			}
		case ref.SAssign:
			fmt.Fprintf(sb, "%s %s %s\n", s.Target, s.Op, c02ExprText(s.E))
		case ref.SBreak:
			sb.WriteString("break\n")
		case ref.SContinue:
			sb.WriteString("continue\n")
		case ref.SIf:
			fmt.Fprintf(sb, "if %s {\n", c02CondText(s.Cond))
			c02Render(sb, s.Then, ind+"  ")
			for i := range s.Elifs {
				fmt.Fprintf(sb, "%s} else if %s {\n", ind, c02CondText(&s.Elifs[i].Cond))
				c02Render(sb, s.Elifs[i].Body, ind+"  ")
			}
			if s.Else != nil {
				fmt.Fprintf(sb, "%s} else {\n", ind)
				c02Render(sb, s.Else, ind+"  ")
			}
			sb.WriteString(ind + "}\n")
		case ref.SFor:
			fmt.Fprintf(sb, "for %s = 0; %s < %d; %s += 1 {\n", s.Var, s.Var, s.N, s.Var)
			c02Render(sb, s.Body, ind+"  ")
			sb.WriteString(ind + "}\n")
		case ref.SRange:
			fmt.Fprintf(sb, "forRange %s := %s {\n", s.Var, s.Coll)
			c02Render(sb, s.Body, ind+"  ")
			sb.WriteString(ind + "}\n")
		}
	}
	if b.Ret != nil {
		sb.WriteString(ind + "return")
		if b.Ret.E != nil {
			sb.WriteString(" " + c02ExprText(b.Ret.E))
		}
		sb.WriteString("\n")
	}
}

func c02Body(p *c02B) string {
	var sb strings.Builder
	c02Render(&sb, p, "  ")
	return strings.TrimRight(sb.String(), "\n")
}

// ---------------------------------------------------------------------------------------------
// one case = one framed + annotated program and one valuation

type c02Case struct {
	Family string `json:"family"`
	Nodes  int    `json:"nodes"`
	Val    int    `json:"valuation"`
	Body   string `json:"rule_body"` // what gengine compiles
	Prog   *c02B  `json:"program"`   // the same program as the reference reads it
	name   string
}

type c02Actual struct {
	trace    []ref.SEvent
	f        int64
	intact   bool
	has      bool
	val      interface{}
	err      error
	panicked interface{}
}

func c02Exec(src *builder.RuleBuilder, name string, v c02Val) c02Actual {
	lv := v.live()
	val, has, err, p := gx.RunRule(src, name, lv.inj)
	return c02Actual{trace: lv.rec.evs, f: lv.s.F, intact: lv.collsIntact(v), has: has, val: val, err: err, panicked: p}
}

func c02SameTrace(a, b []ref.SEvent) bool { return ref.STraceString(a) == ref.STraceString(b) }

func c02IntVal(v interface{}) (int64, bool) {
	if v == nil {
		return 0, false
	}
	rv := reflect.ValueOf(v)
	switch rv.Kind() {
	case reflect.Int, reflect.Int8, reflect.Int16, reflect.Int32, reflect.Int64:
		return rv.Int(), true
	}
	return 0, false
}

func c02ResultOK(o ref.SOutcome, a c02Actual) bool {
	if a.has != o.Returned {
		return false
	}
	if !o.Returned {
		return true
	}
	if !o.HasVal {
		return a.val == nil
	}
	n, ok := c02IntVal(a.val)
	return ok && n == o.Val
}

func c02Match(o ref.SOutcome, a c02Actual) bool {
	if a.panicked != nil || !a.intact || !c02SameTrace(o.Trace, a.trace) || a.f != o.Ints["S.F"] {
		return false
	}
	if o.Err != "" {
		// what the result map holds after a failed rule is not C02's business
		return a.err != nil
	}
	return a.err == nil && c02ResultOK(o, a)
}

func c02ActualString(a c02Actual) string {
	res := "no-entry"
	if a.has {
		res = fmt.Sprintf("entry=%v", a.val)
	}
	e := "nil"
	if a.err != nil {
		e = c02FirstLine(a.err.Error(), 300)
	}
	s := fmt.Sprintf("trace[%s] host[S.F=%d] %s err=%s", ref.STraceString(a.trace), a.f, res, e)
	if !a.intact {
		s += " (an injected collection was modified)"
	}
	if a.panicked != nil {
		s += fmt.Sprintf(" PANIC: %v", a.panicked)
	}
	return s
}

func c02FirstLine(s string, max int) string {
	if i := strings.IndexByte(s, '\n'); i >= 0 {
		s = s[:i]
	}
	if len(s) > max {
		s = s[:max] + "..."
	}
	return s
}

// c02Judge compares one real execution with the admissible reference outcomes.
func c02Judge(cs *c02Case, a c02Actual) []hx.Finding {
	outs, ok := ref.SRunAll(cs.Prog, c02Vals[cs.Val].host(), c02OrderLimit)
	if !ok {
		vsched.InternalError("C02: too many map orders")
	}
	for _, o := range outs {
		if c02Match(o, a) {
			return nil
		}
	}
	// classify against the admissible outcome with the longest common trace prefix
	best, bestLen := outs[0], -1
	for _, o := range outs {
		n := 0
		for n < len(o.Trace) && n < len(a.trace) && c02SameTrace(o.Trace[n:n+1], a.trace[n:n+1]) {
			n++
		}
		if n > bestLen {
			best, bestLen = o, n
		}
	}
	parents := map[int64]string{}
	c02Walk(cs.Prog, "top", func(s *c02S, parent string) {
		if s.Kind == ref.SObs {
			parents[s.ID] = parent
		}
	})
	site := func(id int64) string {
		if p, ok := parents[id]; ok {
			return p
		}
		return "unknown"
	}
	sig := ""
	byRef, _ := ref.SRunAllVariant(cs.Prog, c02Vals[cs.Val].host(), c02OrderLimit, ref.SVariantByRef)
	explained := false
	for _, o := range byRef {
		explained = explained || c02Match(o, a)
	}
	switch {
	case explained:
		// the run is exactly what the reference gives when `v = S.F` binds v to the field itself
		sig = "c02:local-assigned-from-injected-field-aliases-it"
	case a.panicked != nil:
		sig = "c02:panic-escapes-execute"
	case best.Err == "" && a.err != nil:
		sig = "c02:unexpected-error"
	case best.Err != "" && a.err == nil:
		sig = "c02:missing-error:" + strings.SplitN(best.Err, ":", 2)[0]
	case !c02SameTrace(best.Trace, a.trace):
		n := bestLen
		switch {
		case n == len(a.trace):
			sig = "c02:trace-step-missing@" + site(best.Trace[n].ID)
		case n == len(best.Trace):
			sig = "c02:trace-step-extra@" + site(a.trace[n].ID)
		case best.Trace[n].ID != a.trace[n].ID:
			sig = "c02:trace-wrong-step@" + site(best.Trace[n].ID)
		default:
			sig = "c02:trace-wrong-values@" + site(best.Trace[n].ID)
		}
	case a.f != best.Ints["S.F"]:
		sig = "c02:injected-field-final-value"
	case !a.intact:
		sig = "c02:injected-collection-modified"
	case a.has && !best.Returned:
		sig = "c02:result-entry-without-return"
	case !a.has && best.Returned:
		sig = "c02:result-entry-missing"
	default:
		sig = "c02:result-entry-value"
	}
	var exp []string
	for i, o := range outs {
		if i == 4 {
			exp = append(exp, fmt.Sprintf("... (%d admissible outcomes: forRange order over a map is free)", len(outs)))
			break
		}
		exp = append(exp, o.String())
	}
	msg := fmt.Sprintf("statement semantics differ from the reference (family %s, %d nodes, valuation %d: %+v)\nrule body:\n%s\nexpected: %s\nactual:   %s",
		cs.Family, cs.Nodes, cs.Val, c02Vals[cs.Val], cs.Body, strings.Join(exp, "\n       or "), c02ActualString(a))
	return []hx.Finding{{Sig: sig, Msg: msg}}
}

// ---------------------------------------------------------------------------------------------
// self-test of the reference interpreter (golden cases) and of the generator (two counts agree)

func c02SelfTest() {
	type S = c02S
	type B = c02B
	obs := func(id int64, args ...string) *S { return &S{Kind: ref.SObs, ID: id, Args: args} }
	asg := func(t, op string, e ref.SExpr) *S { return &S{Kind: ref.SAssign, Target: t, Op: op, E: &e} }
	blk := func(ss ...*S) *B { return &B{Stmts: ss} }
	ret := func(b *B, e *ref.SExpr) *B { b.Ret = &ref.SReturn{E: e}; return b }
	cT, cF := ref.SCond{Op: "true"}, ref.SCond{Op: "false"}
	eq := func(v string, c int64) ref.SCond { return ref.SCond{Op: "==", Var: v, C: c} }
	gt := func(v string, c int64) ref.SCond { return ref.SCond{Op: ">", Var: v, C: c} }
	iff := func(c ref.SCond, then *B, rest ...interface{}) *S {
		s := &S{Kind: ref.SIf, Cond: &c, Then: then}
		for i := 0; i < len(rest); i++ {
			switch r := rest[i].(type) {
			case ref.SCond:
				s.Elifs = append(s.Elifs, ref.SElif{Cond: r, Body: rest[i+1].(*B)})
				i++
			case *B:
				s.Else = r
			}
		}
		return s
	}
	forr := func(v string, n int64, body *B) *S { return &S{Kind: ref.SFor, Var: v, N: n, Body: body} }
	rng := func(v, coll string, body *B) *S { return &S{Kind: ref.SRange, Var: v, Coll: coll, Body: body} }
	brk, cont := &S{Kind: ref.SBreak}, &S{Kind: ref.SContinue}
	cs, vr := c02C, c02V
	ei, e7 := vr("i"), cs(7)

	host := func() ref.SHost {
		return ref.SHost{Bools: map[string]bool{"flag": true}, Ints: map[string]int64{"S.F": 5},
			Colls: map[string]ref.SColl{"L0": {}, "L2": {Keys: []int64{0, 1}}, "A2": {Keys: []int64{0, 1}}, "M2": {Map: true, Keys: []int64{1, 2}}}}
	}
	golden := []struct {
		name string
		p    *B
		want []string // all admissible outcomes
	}{
		{"source order", blk(asg("x", "=", cs(0)), obs(1, "x"), asg("x", "+=", cs(2)), obs(2, "x")),
			[]string{"trace[1(0) 2(2)] host[S.F=5] no-entry"}},
		{"first true else-if only", blk(iff(cF, blk(obs(1)), cT, blk(obs(2)), cT, blk(obs(3)), blk(obs(4))), obs(5)),
			[]string{"trace[2() 5()] host[S.F=5] no-entry"}},
		{"if true skips all the rest", blk(iff(cT, blk(obs(1)), cT, blk(obs(2)), blk(obs(4))), obs(5)),
			[]string{"trace[1() 5()] host[S.F=5] no-entry"}},
		{"else when nothing is true", blk(iff(cF, blk(obs(1)), cF, blk(obs(2)), blk(obs(3)))),
			[]string{"trace[3()] host[S.F=5] no-entry"}},
		{"no branch taken, no else", blk(iff(cF, blk(obs(1)), cF, blk(obs(2))), obs(9)),
			[]string{"trace[9()] host[S.F=5] no-entry"}},
		{"injected bool and comparison conditions", blk(asg("x", "=", cs(1)), iff(ref.SCond{Op: "var", Var: "flag"}, blk(obs(1)), blk(obs(2))), iff(gt("x", 1), blk(obs(3)), gt("x", 0), blk(obs(4)))),
			[]string{"trace[1() 4()] host[S.F=5] no-entry"}},
		{"for: cond before, step after every iteration", blk(forr("i", 3, blk(obs(1, "i"))), obs(2, "i")),
			[]string{"trace[1(0) 1(1) 1(2) 2(3)] host[S.F=5] no-entry"}},
		{"for with bound 0 only initialises", blk(forr("i", 0, blk(obs(1))), obs(2, "i")),
			[]string{"trace[2(0)] host[S.F=5] no-entry"}},
		{"empty body still iterates", blk(forr("i", 3, blk()), obs(1, "i")),
			[]string{"trace[1(3)] host[S.F=5] no-entry"}},
		{"continue runs the step", blk(forr("i", 3, blk(iff(eq("i", 1), blk(cont)), obs(1, "i"))), obs(2, "i")),
			[]string{"trace[1(0) 1(2) 2(3)] host[S.F=5] no-entry"}},
		{"break leaves without step", blk(forr("i", 3, blk(iff(eq("i", 1), blk(brk)), obs(1, "i"))), obs(2, "i")),
			[]string{"trace[1(0) 2(1)] host[S.F=5] no-entry"}},
		{"break in nested loop leaves only the inner loop", blk(forr("i", 2, blk(forr("j", 3, blk(iff(eq("j", 1), blk(brk)), obs(1, "i", "j"))), obs(2, "i", "j")))),
			[]string{"trace[1(0,0) 2(0,1) 1(1,0) 2(1,1)] host[S.F=5] no-entry"}},
		{"continue in nested loop acts on the inner loop", blk(forr("i", 2, blk(forr("j", 2, blk(cont, obs(1))), obs(2, "i", "j")))),
			[]string{"trace[2(0,2) 2(1,2)] host[S.F=5] no-entry"}},
		{"return inside if inside for inside if ends the rule", blk(iff(cT, blk(forr("i", 3, blk(iff(eq("i", 1), ret(blk(), &ei)), obs(1, "i"))))), obs(2)),
			[]string{"trace[1(0)] host[S.F=5] entry=1"}},
		{"bare return", ret(blk(obs(1)), nil),
			[]string{"trace[1()] host[S.F=5] entry=nil"}},
		{"nothing after a nested return runs", blk(iff(cT, ret(blk(), &e7)), obs(1), asg("S.F", "=", cs(9))),
			[]string{"trace[] host[S.F=5] entry=7"}},
		{"return inside forRange inside for", blk(forr("i", 2, blk(rng("k", "L2", blk(iff(eq("k", 1), ret(blk(), nil)), obs(1, "i", "k"))))), obs(2)),
			[]string{"trace[1(0,0)] host[S.F=5] entry=nil"}},
		{"forRange over a slice: every index once, in order", blk(rng("k", "L2", blk(obs(1, "k"))), obs(2, "k")),
			[]string{"trace[1(0) 1(1) 2(1)] host[S.F=5] no-entry"}},
		{"forRange over an empty slice binds nothing", blk(rng("k", "L0", blk(obs(1))), obs(2), obs(3, "k"), obs(4)),
			[]string{"trace[2()] host[S.F=5] error"}},
		{"forRange over a map: every key once, any order", blk(rng("k", "M2", blk(obs(1, "k")))),
			[]string{"trace[1(1) 1(2)] host[S.F=5] no-entry", "trace[1(2) 1(1)] host[S.F=5] no-entry"}},
		{"two map loops choose independently", blk(rng("k", "M2", blk(obs(1, "k"))), rng("k", "M2", blk(obs(2, "k")))),
			[]string{"trace[1(1) 1(2) 2(1) 2(2)] host[S.F=5] no-entry", "trace[1(1) 1(2) 2(2) 2(1)] host[S.F=5] no-entry",
				"trace[1(2) 1(1) 2(1) 2(2)] host[S.F=5] no-entry", "trace[1(2) 1(1) 2(2) 2(1)] host[S.F=5] no-entry"}},
		{"break / continue in forRange", blk(rng("k", "A2", blk(iff(eq("k", 0), blk(cont)), obs(1, "k"), brk)), obs(2)),
			[]string{"trace[1(1) 2()] host[S.F=5] no-entry"}},
		{"break through else inside forRange inside for", blk(forr("i", 2, blk(rng("k", "L2", blk(iff(cF, blk(), blk(brk)), obs(1))), obs(2, "i", "k")))),
			[]string{"trace[2(0,0) 2(1,0)] host[S.F=5] no-entry"}},
		{"local first assigned three blocks deep is visible afterwards", blk(iff(cT, blk(forr("i", 2, blk(iff(cT, blk(asg("y", ":=", vr("i")))))))), obs(1, "y", "i")),
			[]string{"trace[1(1,2)] host[S.F=5] no-entry"}},
		{"reading an undefined local fails at that point", blk(obs(1), asg("x", "=", vr("y")), obs(2), asg("S.F", "=", cs(1))),
			[]string{"trace[1()] host[S.F=5] error"}},
		{"compound assignment on an undefined local fails", blk(asg("y", "+=", cs(1)), obs(1)),
			[]string{"trace[] host[S.F=5] error"}},
		{"compound assignments read-modify-write local and injected targets", blk(asg("x", "=", cs(7)), asg("x", "-=", cs(1)), asg("x", "*=", cs(3)), asg("x", "/=", cs(4)),
			asg("S.F", "+=", vr("x")), asg("S.F", "/=", cs(2)), asg("S.F", "-=", cs(1)), asg("S.F", "*=", cs(5)), asg("y", ":=", vr("S.F")), obs(1, "x", "y")),
			[]string{"trace[1(4,15)] host[S.F=15] no-entry"}},
		{"division by zero fails", blk(asg("x", "=", cs(1)), asg("x", "/=", cs(0)), obs(1)),
			[]string{"trace[] host[S.F=5] error"}},
		{"return value is read at the return", ret(blk(asg("x", "=", cs(3)), forr("i", 2, blk(asg("x", "*=", cs(2))))), &ref.SExpr{Var: "x"}),
			[]string{"trace[] host[S.F=5] entry=12"}},
	}
	for _, g := range golden {
		outs, ok := ref.SRunAll(g.p, host(), 1000)
		var got []string
		for _, o := range outs {
			got = append(got, o.String())
		}
		sort.Strings(got)
		want := append([]string{}, g.want...)
		sort.Strings(want)
		if !ok || strings.Join(got, " | ") != strings.Join(want, " | ") {
			vsched.InternalError("C02 self-test: reference interpreter fails golden case %q:\n got  %s\n want %s", g.name, strings.Join(got, " | "), strings.Join(want, " | "))
		}
	}
	// annotation: an observer gets exactly the locals defined at every visit
	{
		p := blk(asg("x", "=", cs(0)), forr("i", 2, blk(obs(0), iff(eq("i", 0), blk(asg("y", ":=", cs(1)))), obs(0))), obs(0), iff(cF, blk(obs(0))))
		c02Annotate(p, host())
		if got := c02Body(p); got != "  x = 0\n  for i = 0; i < 2; i += 1 {\n    a1(x)\n    v(i)\n    if i == 0 {\n      y := 1\n    }\n    a2(x)\n    v(y)\n    v(i)\n  }\n  a3(x)\n  v(y)\n  v(i)\n  if false {\n    t4()\n  }" {
			vsched.InternalError("C02 self-test: annotation/rendering:\n%s", got)
		}
	}
	// generator: streamed enumeration and closed-form count agree
	for _, fam := range c02Families(false) {
		fam := fam
		g := &c02Gen{fam: &fam, memo: map[string]int64{}}
		k := fam.K
		if k > 4 {
			k = 4
		}
		for n := 0; n <= k; n++ {
			var cnt int64
			g.block(c02Ctx{}, n, func(*c02B) { cnt++ })
			if want := g.countBlock(c02Ctx{}, n); cnt != want {
				vsched.InternalError("C02 self-test: generator produced %d trees with %d nodes (family %s), closed form says %d", cnt, n, fam.Name, want)
			}
		}
	}
}

// ---------------------------------------------------------------------------------------------
// run

// c02Member: the tree (n nodes) is also produced by family f.
func c02Member(f *c02Family, b *c02B, n int) bool {
	if n > f.K {
		return false
	}
	ok := true
	condOK := func(c *ref.SCond) {
		for _, x := range f.Conds {
			if x == *c {
				return
			}
		}
		for _, x := range f.LoopConds {
			if x.Op == c.Op && x.C == c.C && c.Op != "var" && c.Var != "x" {
				return
			}
		}
		ok = false
	}
	var chk func(b *c02B)
	chk = func(b *c02B) {
		if b == nil {
			return
		}
		if b.Ret != nil {
			in := false
			for _, r := range f.Rets {
				in = in || r == b.Ret
			}
			ok = ok && in
		}
		for _, s := range b.Stmts {
			in := true
			switch s.Kind {
			case ref.SAssign:
				in = false
				for _, l := range f.Leaves {
					in = in || (l.Target == s.Target && l.Op == s.Op && l.E == *s.E)
				}
			case ref.SIf:
				condOK(s.Cond)
				for i := range s.Elifs {
					condOK(&s.Elifs[i].Cond)
				}
			case ref.SFor:
				in = false
				for _, x := range f.ForBounds {
					in = in || x == s.N
				}
			case ref.SRange:
				in = false
				for _, x := range f.Colls {
					in = in || x == s.Coll
				}
			}
			ok = ok && in
			chk(s.Then)
			chk(s.Else)
			chk(s.Body)
			for _, e := range s.Elifs {
				chk(e.Body)
			}
		}
	}
	chk(b)
	return ok
}

func c02Enumerate(thorough bool, f func(fam *c02Family, n int, tree *c02B) bool) {
	fams := c02Families(thorough)
	stop := false
	for fi := range fams {
		fam := &fams[fi]
		g := &c02Gen{fam: fam, memo: map[string]int64{}}
		for n := 0; n <= fam.K && !stop; n++ {
			g.block(c02Ctx{}, n, func(b *c02B) {
				if stop {
					return
				}
				for fj := 0; fj < fi; fj++ {
					if c02Member(&fams[fj], b, n) {
						return // already enumerated by an earlier family
					}
				}
				if !f(fam, n, b) {
					stop = true
				}
			})
		}
	}
}

const c02BatchRules = 150 // distinct rule texts per compiled batch

func c02Run(c *hx.Ctx) {
	// almost all time goes into compiling the generated rule texts (ANTLR allocates heavily while
	// the live heap stays small): a lazier collector nearly halves the run time at about 150 MB per worker
	debug.SetGCPercent(1000)
	c02SelfTest()
	if os.Getenv("VERIF_C02_COUNT") != "" && c.Shard == 0 {
		for _, fam := range c02Families(true) {
			fam := fam
			g := &c02Gen{fam: &fam, memo: map[string]int64{}}
			var cum int64
			for n := 0; n <= 8; n++ {
				cum += g.countBlock(c02Ctx{}, n)
				fmt.Fprintf(os.Stderr, "C02 count: family %s nodes=%d trees=%d cumulative=%d\n", fam.Name, n, g.countBlock(c02Ctx{}, n), cum)
			}
		}
	}
	var batch []*c02Case
	flush := func() {
		if len(batch) == 0 {
			return
		}
		// one compiled rule per distinct text (the valuations of a tree mostly share theirs)
		var sb strings.Builder
		names := map[string]string{}
		for _, cs := range batch {
			if n, ok := names[cs.Body]; ok {
				cs.name = n
				continue
			}
			cs.name = fmt.Sprintf("p%d", len(names))
			names[cs.Body] = cs.name
			sb.WriteString(gx.RuleText(cs.name, cs.Body))
		}
		c.Res.AddExtra("rules_compiled", len(names))
		src := gx.MustCompile(sb.String())
		for _, cs := range batch {
			a := c02Exec(src, cs.name, c02Vals[cs.Val])
			c.Res.Execs++
			c.Res.AddExtra("cases", 1)
			c.Res.AddExtra("cases_"+cs.Family, 1)
			if a.err != nil {
				c.Res.AddExtra("runs_ending_in_error", 1)
			}
			if a.has {
				c.Res.AddExtra("runs_with_result_entry", 1)
			}
			c.Res.AddExtra("observer_calls", len(a.trace))
			if c.Res.Execs%997 == 1 {
				c.Res.Sample(map[string]interface{}{"rule_body": cs.Body, "valuation": c02Vals[cs.Val], "observed": c02ActualString(a)})
			}
			if fs := c02Judge(cs, a); len(fs) > 0 {
				c.Res.Report("C02", "case", cs, nil, fs)
			}
		}
		batch = batch[:0]
	}
	idx, mine, trees := 0, 0, 0
	c02Enumerate(c.Thorough(), func(fam *c02Family, n int, tree *c02B) bool {
		i := idx
		idx++
		if !c.Mine(i) {
			return true
		}
		mine++
		if mine%256 == 0 && c.Expired() {
			c.Res.Capped = append(c.Res.Capped, "time budget")
			return false
		}
		c.Res.AddExtra("trees", 1)
		for vi := 0; vi < c02NVals(c.Thorough()); vi++ {
			p := c02Frame(tree, !fam.NoPrelude)
			c02Annotate(p, c02Vals[vi].host())
			batch = append(batch, &c02Case{Family: fam.Name, Nodes: n, Val: vi, Body: c02Body(p), Prog: p})
		}
		if trees++; trees >= c02BatchRules {
			flush()
			trees = 0
		}
		return true
	})
	flush()
	// extra hand-built family: for loops whose COUNTER IS INJECTED (S.F), so that a step evaluated once
	// too often - after a return, a break, a failed body - shows in the host state; worker 0 only
	if c.Shard == 0 {
		for _, tree := range c02InjectedLoops() {
			for vi := 0; vi < c02NVals(c.Thorough()); vi++ {
				p := c02Frame(tree, true)
				c02Annotate(p, c02Vals[vi].host())
				batch = append(batch, &c02Case{Family: "injloop", Nodes: 0, Val: vi, Body: c02Body(p), Prog: p})
			}
			c.Res.AddExtra("trees", 1)
		}
		flush()
	}
}

// c02InjectedLoops builds the loop bodies of the "injloop" family.
func c02InjectedLoops() []*c02B {
	type S = c02S
	type B = c02B
	obs := func() *S { return &S{Kind: ref.SObs} }
	asg := func(t, op string, e ref.SExpr) *S { return &S{Kind: ref.SAssign, Target: t, Op: op, E: &e} }
	blk := func(ss ...*S) *B { return &B{Stmts: ss} }
	ret := func(b *B, e *ref.SExpr) *B { b.Ret = &ref.SReturn{E: e}; return b }
	eq := func(v string, c int64) ref.SCond { return ref.SCond{Op: "==", Var: v, C: c} }
	gt := func(v string, c int64) ref.SCond { return ref.SCond{Op: ">", Var: v, C: c} }
	iff := func(c ref.SCond, then *B) *S { return &S{Kind: ref.SIf, Cond: &c, Then: then} }
	forr := func(v string, n int64, body *B) *S { return &S{Kind: ref.SFor, Var: v, N: n, Body: body} }
	rng := func(v, coll string, body *B) *S { return &S{Kind: ref.SRange, Var: v, Coll: coll, Body: body} }
	brk, cont := &S{Kind: ref.SBreak}, &S{Kind: ref.SContinue}
	ef, ex, e7 := c02V("S.F"), c02V("x"), c02C(7)
	const F = "S.F"
	var out []*B
	for _, n := range []int64{0, 1, 3} {
		out = append(out,
			blk(forr(F, n, blk(obs()))),
			blk(forr(F, n, blk())),
			blk(forr(F, n, blk(iff(eq(F, 1), ret(blk(), &ef)), obs()))),
			blk(forr(F, n, blk(iff(eq(F, 1), ret(blk(), nil))))),
			blk(forr(F, n, blk(iff(eq(F, 0), ret(blk(), &e7))))),
			blk(forr(F, n, ret(blk(obs()), &ef))),
			blk(forr(F, n, blk(iff(eq(F, 1), blk(cont)), obs()))),
			blk(forr(F, n, blk(iff(eq(F, 1), blk(brk)), obs()))),
			blk(forr(F, n, blk(asg("x", "+=", c02C(1)), iff(gt("x", 1), ret(blk(), &ex))))),
			blk(forr("i", 2, blk(forr(F, n, blk(iff(eq(F, 1), ret(blk(), &ef))))))),
			blk(forr(F, n, blk(forr("j", 2, blk(iff(eq("j", 1), ret(blk(), &ef))))))),
			blk(forr(F, n, blk(rng("k", "L2", blk(iff(eq("k", 1), ret(blk(), &ef))))))),
			blk(rng("k", "L2", blk(forr(F, n, blk(iff(eq(F, 1), blk(brk)))), obs()))),
			blk(forr(F, n, blk(asg("y", ":=", ef), iff(eq("y", 2), ret(blk(), &ex))))),
		)
	}
	return out
}

func c02Replay(v *hx.Violation) []hx.Finding {
	var cs c02Case
	if err := json.Unmarshal(v.Cfg, &cs); err != nil || cs.Prog == nil || cs.Val < 0 || cs.Val >= len(c02Vals) {
		return []hx.Finding{{Sig: "c02:replay-file-unreadable", Msg: fmt.Sprint(err)}}
	}
	cs.Body = c02Body(cs.Prog) // the stored text is informative; the program is rebuilt from the tree
	cs.name = "p0"
	fmt.Printf("rule body:\n%s\nvaluation: %+v\n", cs.Body, c02Vals[cs.Val])
	src, err := gx.Compile(gx.RuleText(cs.name, cs.Body))
	if err != nil {
		return []hx.Finding{{Sig: "c02:generated-rule-does-not-compile", Msg: err.Error()}}
	}
	a := c02Exec(src, cs.name, c02Vals[cs.Val])
	fmt.Printf("observed: %s\n", c02ActualString(a))
	return c02Judge(&cs, a)
}

func c02RuleText() string {
	var fs []string
	for _, name := range []string{"skel", "deep", "flow", "assign", "tick"} {
		fs = append(fs, fmt.Sprintf("%s<=%d/%d", name, c02K[name][0], c02K[name][1]))
	}
	return "every statement tree with at most K nodes (node = statement, else-if clause, else clause or return; a block = 0..2 statements + optional trailing return; compound nesting <= 3) " +
		"built from: observer call | assignment | break | continue (only inside a loop) | if c {B} (else if c {B})^0..2 (else {B})? | for v=0; v<n; v+=1 {B} | forRange v := coll {B}; " +
		"five families of alphabets, K quick/thorough: " + strings.Join(fs, ", ") + ". " +
		"skel: observer calls only, c in {true,false, v==1}, n=3, coll = slice of 2, return 7. " +
		"deep: + x += 1, y := x, coll in {slice of 2, map of 2}, return x. " +
		"flow: + S.F = x, c in {true,false,flag,x>0,v==1,v<1}, n in {0,2,3}, coll in {empty slice, slice of 2, array of 2, map of 2}, return | return x. " +
		"tick: observer calls only, c in {tick(), false} where tick() is an injected function that records its call and answers true, false, true, ... (a condition with a side effect), n=2, coll = slice of 2, return 7. " +
		"assign: 18 assignments (= := += -= *= /= on locals x,y and injected S.F; constant, local, injected and not-yet-assigned right-hand sides), c in {flag, x>0}, n=2, coll = map of 2, return | return x | return 7. " +
		"(v = variable of the innermost enclosing loop; a tree produced by an earlier family is not repeated.) " +
		"Each tree is framed by `x = X0` (not in skel) and, when the top block has no return, a final observer call; every observer call passes all locals the reference semantics defines there; " +
		"each tree runs under 2 (quick) / 4 (thorough) valuations of the injected data (flag, X0, S.F, map keys, slice/array contents). " +
		"A case = closed program + valuation, executed once on the real engine and compared with the structural reference interpreter (harness/ref/stmt.go) on the observer trace, final S.F and collections, " +
		"result-map entry and error nil-ness; forRange over a map may visit in any order (the reference enumerates all orders). " +
		"K = 5 / 7 of the design for the whole alphabet is not reachable: even the skel alphabet has 214k trees at 5 nodes, 3.1M at 6 and 43M at 7 (flow: 16k at 3, 575k at 4, 19.8M at 5)"
}

func init() {
	hx.Register(&hx.Prop{
		ID:          "C02",
		Workers:     func(string) int { return 16 },
		BudgetQuick: 300 * time.Second,
		BudgetThor:  20 * time.Minute,
		Kind:        "cases",
		Rule:        c02RuleText(),
		Assume: []string{
			"break / continue outside a loop, the result-map entry of a rule that failed, and the text of error messages are not judged",
			"integer values only (expression evaluation is C01's subject); loops stay far below the engine's 10000-iteration cut-off",
		},
		Run:        c02Run,
		ReplayCase: c02Replay,
	})
}
