package main

import (
	"encoding/json"
	"fmt"
	"github.com/bilibili/gengine/builder"
	"github.com/bilibili/gengine/context"
	"strings"
	"time"

	"github.com/bilibili/gengine/engine"
	"github.com/bilibili/gengine/verifrt/vsched"

	"verif/harness/gx"
	"verif/harness/hx"
	"verif/harness/ref"
)

// C11 - the result map is exactly the set of rules that returned in this call.

type retBeh struct {
	Body string
	// outcome for data valuation k (0/1): returns?, value (nil for bare return / "inj" marker), fails?
	Ret  func(k int64) bool
	Val  func(k int64) interface{}
	Fail func(k int64) bool
}

type c11Inj struct{ X int64 }

var c11Marker = "INJ-POINTER" // stands for "the injected pointer itself" in expectations

func always(b bool) func(int64) bool            { return func(int64) bool { return b } }
func val(v interface{}) func(int64) interface{} { return func(int64) interface{} { return v } }

var retBehaviours = []retBeh{
	{"x = 1", always(false), val(nil), always(false)},
	{"x = 1\n  return", always(true), val(nil), always(false)},
	{"return 7", always(true), val(int64(7)), always(false)},
	{"return \"s\"", always(true), val("s"), always(false)},
	{"return inj", always(true), val(c11Marker), always(false)},
	{"if d.K == 1 {\n    return 11\n  }", func(k int64) bool { return k == 1 }, val(int64(11)), always(false)},
	{"for i = 0; i < 3; i += 1 {\n    if i == 1 {\n      return 12\n    }\n  }", always(true), val(int64(12)), always(false)},
	{"forRange q := d.L {\n    return 13\n  }", always(true), val(int64(13)), always(false)},
	{"x = 1 / d.Z\n  return 14", always(false), val(nil), always(true)},
	{"return 1 / d.Z", always(false), val(nil), always(true)},
	{"if true {\n    return 1 / d.Z\n  }", always(false), val(nil), always(true)},
	{"if d.K == 1 {\n    return 15\n  }\n  x = 1 / d.Z", func(k int64) bool { return k == 1 }, val(int64(15)), func(k int64) bool { return k != 1 }},
	// a `break` / `continue` outside any loop: whatever the engine makes of it (today: the rule fails),
	// the rule reached no `return`, so it has no entry. Error nil-ness is not judged for these two.
	{"x = 1\n  break", always(false), val(nil), always(true)},
	{"if d.K == 1 {\n    continue\n  }\n  x = 2", always(false), val(nil), func(k int64) bool { return k == 1 }},
}

// behaviours whose failing is not specified by any statement (only their missing result entry is judged)
var c11ErrUnjudged = map[int]bool{12: true, 13: true}

type c11Data struct {
	K int64
	Z int64
	L []int64
}

type c11Cfg struct {
	Beh    []int      `json:"beh"` // behaviour per rule r0,r1,r2 (saliences 9,6,3)
	Model  string     `json:"model"`
	B      bool       `json:"b"`
	N      int        `json:"N,omitempty"`
	M      int        `json:"M,omitempty"`
	Names  []string   `json:"names,omitempty"`
	Dag    [][]string `json:"dag,omitempty"`
	K1     int64      `json:"k1"`
	Model2 string     `json:"model2,omitempty"` // second call on the same engine ("" = none)
	K2     int64      `json:"k2"`
	Pool   string     `json:"pool,omitempty"` // pool method: two sequential requests on pool (1,2)
	// Empty: the second call runs on an EMPTY rule set (engine: a builder without rules; pool: every
	// rule removed between the two requests): it runs nothing, so its result map must be empty
	Empty bool `json:"empty,omitempty"`
}

func c11Text(beh []int) string {
	var sb strings.Builder
	for i, b := range beh {
		fmt.Fprintf(&sb, "rule \"r%d\" salience %d begin\n  %s\nend\n", i, 9-3*i, retBehaviours[b].Body)
	}
	return sb.String()
}

func c11Expect(cfg c11Cfg, model string, k int64, inj *c11Inj) (map[string]interface{}, bool) {
	var rs []ref.RuleRef
	for i, b := range cfg.Beh {
		rs = append(rs, ref.RuleRef{ID: int64(i), Name: ruleNames[i], Sal: int64(9 - 3*i), Fail: retBehaviours[b].Fail(k)})
	}
	plans, ok := ref.Plans(model, rs, ref.Params{B: cfg.B, N: cfg.N, M: cfg.M, Names: cfg.Names, Dag: cfg.Dag})
	if !ok || len(plans) == 0 {
		vsched.InternalError("no plan for %s", model)
	}
	want := map[string]interface{}{}
	if plans[0].MustFail {
		return want, true
	}
	anyFail := false
	for _, id := range ref.Executed(plans[0]) {
		b := retBehaviours[cfg.Beh[id]]
		if b.Fail(k) {
			anyFail = true
		}
		if b.Ret(k) && !b.Fail(k) {
			v := b.Val(k)
			if v == interface{}(c11Marker) {
				v = inj
			}
			want[ruleNames[id]] = v
		}
	}
	return want, anyFail
}

func sameResult(got, want map[string]interface{}) string {
	for k, w := range want {
		g, ok := got[k]
		if !ok {
			return fmt.Sprintf("missing entry %s (rule returned %v)", k, w)
		}
		if g != w {
			return fmt.Sprintf("entry %s = %#v, rule returned %#v", k, g, w)
		}
	}
	for k, g := range got {
		if _, ok := want[k]; !ok {
			return fmt.Sprintf("entry %s = %#v although that rule did not return in this call", k, g)
		}
	}
	return ""
}

type c11State struct {
	inj1, inj2 *c11Inj
	res1       map[string]interface{}
	res1Copy   map[string]interface{}
	res2       map[string]interface{}
	err1, err2 error
	pan        interface{}
}

var c11PoolTemplates = map[string]*engine.GenginePool{}

func c11Scenario(cfg c11Cfg) *hx.Scenario {
	text := c11Text(cfg.Beh)
	src := compileCached(text)
	var template *engine.GenginePool
	var pm *gx.PoolMethod
	if cfg.Pool != "" {
		pm = gx.PoolMethodByName(cfg.Pool)
		template = c11PoolTemplates[text]
		if template == nil {
			var err error
			template, err = engine.NewGenginePool(1, 2, engine.SortModel, text, map[string]interface{}{})
			if err != nil {
				vsched.InternalError("pool: %v", err)
			}
			if len(c11PoolTemplates) > 2000 {
				c11PoolTemplates = map[string]*engine.GenginePool{}
			}
			c11PoolTemplates[text] = template
		}
	}
	data := func(k int64, inj *c11Inj) map[string]interface{} {
		return map[string]interface{}{"d": &c11Data{K: k, Z: 0, L: []int64{5, 6}}, "inj": inj}
	}
	return &hx.Scenario{
		Name: "c11",
		Cfg:  cfg,
		New:  func() interface{} { return &c11State{inj1: &c11Inj{1}, inj2: &c11Inj{2}} },
		Body: func(s interface{}) {
			st := s.(*c11State)
			if cfg.Pool != "" {
				gp := gx.DeepClone(template).(*engine.GenginePool)
				p := gx.PoolCallParams{B: cfg.B, N: cfg.N, M: cfg.M, Names: cfg.Names, Dag: cfg.Dag}
				st.err1, st.res1, st.pan = gx.PoolCallGuarded(pm, gp, data(cfg.K1, st.inj1), p)
				st.res1Copy = gx.CopyResult(st.res1)
				if st.pan == nil {
					vsched.WaitOthersDone() // the instance is handed back asynchronously
					if cfg.Empty {
						if err := gp.RemoveRules([]string{"r0", "r1", "r2"}); err != nil {
							vsched.InternalError("RemoveRules: %v", err)
						}
					}
					st.err2, st.res2, st.pan = gx.PoolCallGuarded(pm, gp, data(cfg.K2, st.inj2), p)
				}
				return
			}
			g := engine.NewGengine()
			m := gx.ModelByName(cfg.Model)
			p := gx.Params{B: cfg.B, N: cfg.N, M: cfg.M, Names: cfg.Names, Dag: cfg.Dag}
			st.err1, st.pan = gx.CallGuarded(func() error { return m.Call(g, gx.Fresh(src, nil, data(cfg.K1, st.inj1)), p) })
			st.res1, _ = g.GetRulesResultMap()
			st.res1Copy = gx.CopyResult(st.res1)
			if cfg.Model2 != "" && st.pan == nil {
				m2 := gx.ModelByName(cfg.Model2)
				src2 := src
				if cfg.Empty {
					src2 = builder.NewRuleBuilder(context.NewDataContext())
				}
				st.err2, st.pan = gx.CallGuarded(func() error { return m2.Call(g, gx.Fresh(src2, nil, data(cfg.K2, st.inj2)), p) })
				st.res2, _ = g.GetRulesResultMap()
			}
		},
		Check: func(s interface{}, ex *vsched.Exec) (fs []hx.Finding) {
			st := s.(*c11State)
			raw, _ := json.Marshal(cfg)
			what := cfg.Model
			if cfg.Pool != "" {
				what = "pool." + cfg.Pool
			}
			desc := fmt.Sprintf("\n  cfg=%s\n  rules:\n%s  res1=%v err1=%v res2=%v err2=%v", raw, text, st.res1Copy, st.err1 != nil, st.res2, st.err2 != nil)
			bad := func(sig, msg string) { fs = append(fs, hx.Finding{Sig: "c11:" + what + ":" + sig, Msg: msg + desc}) }
			if ex.Verdict != "" {
				bad(ex.Verdict, "execution did not complete: "+ex.Verdict+" "+firstLine(ex.Crash))
				return
			}
			if st.pan != nil {
				bad("panic", fmt.Sprintf("the call panicked: %v", st.pan))
				return
			}
			model1 := cfg.Model
			if cfg.Pool != "" {
				model1 = poolModelName(cfg.Pool)
			}
			want1, fail1 := c11Expect(cfg, model1, cfg.K1, st.inj1)
			if c := sameResult(st.res1Copy, want1); c != "" {
				bad("first-call", "result map of the call: "+c)
			}
			unjudgedErr := false
			for _, b := range cfg.Beh {
				if c11ErrUnjudged[b] {
					unjudgedErr = true
				}
			}
			if fail1 != (st.err1 != nil) && !isMustFail(cfg, model1) && !unjudgedErr {
				bad("first-call-error", fmt.Sprintf("some executed rule failed = %v but error = %v", fail1, st.err1))
			}
			second := cfg.Model2
			if cfg.Pool != "" {
				second = model1
			}
			if second != "" && cfg.Empty {
				if len(st.res2) != 0 {
					bad("empty-set-call-keeps-entries", fmt.Sprintf("the second call ran on an empty rule set (nothing ran) but its result map is %v: entries of the earlier call survive", renderRes(st.res2)))
				}
				if k, v := mapDiff(st.res1, st.res1Copy); k != "" {
					bad("first-map-modified", fmt.Sprintf("the result map of the first call was modified by the second call (key %s now %v)", k, v))
				}
			} else if second != "" {
				want2, _ := c11Expect(cfg, second, cfg.K2, st.inj2)
				if c := sameResult(st.res2, want2); c != "" {
					bad("second-call", "result map of the second call on the same engine: "+c)
				}
				if k, v := mapDiff(st.res1, st.res1Copy); k != "" {
					bad("first-map-modified", fmt.Sprintf("the result map of the first call was modified by the second call (key %s now %v)", k, v))
				}
			}
			return
		},
		Outcome: func(s interface{}) string {
			st := s.(*c11State)
			return fmt.Sprint(renderRes(st.res1Copy), st.err1 != nil, renderRes(st.res2), st.err2 != nil)
		},
	}
}

func isMustFail(cfg c11Cfg, model string) bool {
	plans, _ := ref.Plans(model, []ref.RuleRef{{ID: 0, Name: "r0", Sal: 9}, {ID: 1, Name: "r1", Sal: 6}, {ID: 2, Name: "r2", Sal: 3}}, ref.Params{B: cfg.B, N: cfg.N, M: cfg.M, Names: cfg.Names, Dag: cfg.Dag})
	return len(plans) > 0 && plans[0].MustFail
}

// poolModelName maps a pool execute method (pool configured with the sort model) to the engine model it runs.
func poolModelName(pm string) string {
	switch pm {
	case "ExecuteRulesWithSpecifiedEM", "ExecuteRulesWithMultiInputWithSpecifiedEM":
		return "Execute"
	case "ExecuteSelectedWithSpecifiedEM":
		return "ExecuteSelectedRules"
	}
	return pm
}

type c11ModelP struct {
	name  string
	b     bool
	n, m  int
	names []string
	dag   [][]string
	conc  bool
}

func c11Models() []c11ModelP {
	all := []string{"r2", "r0", "r1"}
	var out []c11ModelP
	for _, m := range gx.Models {
		bs := []bool{true}
		if m.Policy {
			bs = []bool{true, false}
		}
		for _, b := range bs {
			p := c11ModelP{name: m.Name, b: b}
			if m.Selected {
				p.names = all
			}
			if m.NM {
				p.n, p.m = 1, 2
			}
			p.conc = strings.Contains(m.Name, "Conc") || strings.Contains(m.Name, "Mix") || m.Name == "ExecuteDAGModel"
			if m.Name == "ExecuteDAGModel" {
				p.dag = [][]string{{"r0"}, {"r1", "r2"}}
				out = append(out, p)
				p.dag = [][]string{{"r1", "r0", "r2"}}
			}
			out = append(out, p)
		}
	}
	return out
}

func c11Configs(thorough bool) (cfgs []c11Cfg, bounds []int) {
	nb := len(retBehaviours)
	models := c11Models()
	idx := 0
	for a := 0; a < nb; a++ {
		for b := 0; b < nb; b++ {
			for c := 0; c < nb; c++ {
				beh := []int{a, b, c}
				for mi, m := range models {
					idx++
					base := c11Cfg{Beh: beh, Model: m.name, B: m.b, N: m.n, M: m.m, Names: m.names, Dag: m.dag, K1: int64((a + b + c + mi) % 2)}
					bound := 0
					// single call, every behaviour triple x every model
					if thorough || idx%3 == 0 {
						cfgs = append(cfgs, base)
						bounds = append(bounds, bound)
					}
					// two-call histories: a subset closed under "every behaviour pair occurs" (c == (a+b) mod nb)
					if c == (a+b)%nb || thorough && c == (a+2*b+1)%nb {
						m2 := models[(mi*7+a+b)%len(models)]
						if m2.n == m.n && fmt.Sprint(m2.names) == fmt.Sprint(m.names) && fmt.Sprint(m2.dag) == fmt.Sprint(m.dag) && m2.b == m.b {
							h := base
							h.Model2 = m2.name
							h.K2 = 1 - h.K1
							cfgs = append(cfgs, h)
							bounds = append(bounds, 0)
						}
						h := base
						h.Model2 = m.name
						h.K2 = 1 - h.K1
						cfgs = append(cfgs, h)
						bb := 0
						if m.conc && a >= 1 && a <= 7 && b >= 1 && b <= 7 {
							bb = 1 // concurrent publication of several returning rules under every schedule with one preemption
						}
						bounds = append(bounds, bb)
					}
				}
			}
		}
	}
	// second call on an empty rule set, every model (first call: all three rules return)
	for _, m := range models {
		cfgs = append(cfgs, c11Cfg{Beh: []int{2, 3, 6}, Model: m.name, B: m.b, N: m.n, M: m.m, Names: m.names, Dag: m.dag, K1: 1, Model2: m.name, K2: 0, Empty: true})
		bounds = append(bounds, 0)
		for _, m2 := range []string{"Execute", "ExecuteConcurrent", "ExecuteMixModel"} {
			if m.n == 0 && m.names == nil && m.dag == nil {
				cfgs = append(cfgs, c11Cfg{Beh: []int{2, 1, 4}, Model: m.name, B: m.b, K1: 1, Model2: m2, K2: 0, Empty: true})
				bounds = append(bounds, 0)
			}
		}
	}
	for _, pm := range gx.PoolMethods {
		if pm.ReqResp {
			continue
		}
		cfgs = append(cfgs, c11Cfg{Beh: []int{2, 3, 6}, Pool: pm.Name, B: true, N: 1, M: 2, Names: []string{"r2", "r0", "r1"}, Dag: [][]string{{"r0"}, {"r1", "r2"}}, K1: 1, K2: 0, Empty: true})
		bounds = append(bounds, 0)
	}
	// pool: two sequential requests through every execute method
	for a := 0; a < nb; a++ {
		for b := 0; b < nb; b++ {
			c := (a + b) % nb
			for pi, pm := range gx.PoolMethods {
				if !thorough && (a+b+pi)%4 != 0 {
					continue
				}
				if pm.ReqResp {
					continue // cannot inject the data keys these rules use
				}
				cfg := c11Cfg{Beh: []int{a, b, c}, Pool: pm.Name, B: true, N: 1, M: 2, Names: []string{"r2", "r0", "r1"}, Dag: [][]string{{"r0"}, {"r1", "r2"}}, K1: 1, K2: 0}
				cfgs = append(cfgs, cfg)
				bounds = append(bounds, 0)
			}
		}
	}
	return
}

func init() {
	hx.Register(&hx.Prop{
		ID:          "C11",
		Workers:     func(string) int { return 16 },
		BudgetQuick: 300 * time.Second,
		BudgetThor:  25 * time.Minute,
		Kind:        "schedules",
		Rule: "12 rule behaviours (no return, bare return, return of int/string/injected pointer, return nested in if/for/forRange, return after a failing statement, top-level and nested `return <failing expr>`, data-dependent return-or-fail) -> all 1728 triples x all 21 engine models (x policy, two DAG shapes) [quick: every third], " +
			"two-call histories on one engine (same / different model, other data valuation) for a subset in which every behaviour pair occurs, concurrent models with several returning rules under every schedule with <=1 preemption, two sequential requests through every pool execute method, and a second call on an EMPTY rule set (builder without rules; pool after removing every rule) in every model / pool method; oracle: result map == exactly the rules that the reference says returned in THIS call with their values (pointer identity for injected objects), error iff an executed rule failed, first call's map untouched by the second",
		Assume: []string{"strict saliences (the executed set is then schedule independent)"},
		Run: func(c *hx.Ctx) {
			cfgs, bounds := c11Configs(c.Thorough())
			for i, cfg := range cfgs {
				if !c.Mine(i) {
					continue
				}
				if i%64 == 0 && c.Expired() {
					c.Res.Capped = append(c.Res.Capped, "time budget before all configurations")
					break
				}
				hx.Explore("C11", c11Scenario(cfg), hx.ExploreCfg{Bound: envBound(bounds[i]), Prune: true, Deadline: c.Deadline, AutoSites: bounds[i] > 0}, c.Res)
			}
		},
		Rebuild: func(v *hx.Violation) *hx.Scenario {
			var cfg c11Cfg
			json.Unmarshal(v.Cfg, &cfg)
			return c11Scenario(cfg)
		},
	})
}

func renderRes(m map[string]interface{}) string {
	var sb strings.Builder
	for _, k := range gx.ResultKeys(m) {
		v := m[k]
		if p, ok := v.(*c11Inj); ok {
			fmt.Fprintf(&sb, "%s=inj%d ", k, p.X)
		} else {
			fmt.Fprintf(&sb, "%s=%#v ", k, v)
		}
	}
	return sb.String()
}
