package main

import (
	"encoding/json"
	"fmt"
	"github.com/bilibili/gengine/builder"
	"github.com/bilibili/gengine/context"
	"github.com/bilibili/gengine/engine"
	"regexp"
	"strconv"
	"strings"
	"time"

	"github.com/bilibili/gengine/verifrt/vsched"

	"verif/harness/gx"
	"verif/harness/hx"
)

// C20 - error messages point at the line of the construct that failed.
//
// Every case is one compiled text (three rules, or the faulty rule alone) with exactly one faulty
// construct (thorough: optionally a second one further down). The generator emits the text line by
// line and records, while emitting, the 1-based line of the first token and the white-space free
// token text of every positioned AST construct on the path to the fault:
//   primary   = the reporting construct (binary (math-)expression node, call node, assignment node)
//   enclosing = assignment / call / parenthesised or binary expression nodes that contain it and
//               therefore fail with it (gengine may legitimately prefix their position first)
//
// Oracle (lines only; columns are skipped, never compared):
//   * every `line N` in the error of the faulty rule (stack traces of recover handlers cut off) must
//     be the start line of the primary or of an enclosing construct; `line 0` gets its own signature;
//   * if the message attributes the line to a construct by its code text (gengine's
//     `line N, column M, code: C,` prefix) and C is the text of a construct on the path, N must be the
//     start line of exactly that construct (kills "line taken from the parent context");
//   * fault classes the statement lists (arithmetic, comparison/logic type faults, failing calls,
//     failing assignments) must cite at least one line.
// Enumerated but not judged: a missing position for classes the statement does not list (unknown
// variable, map-var read, forRange operand), whether the first cited construct is the innermost or
// an enclosing one (counted in the evidence), the column, the wording, and a panic that escapes
// Execute instead of an error (C09's subject; does not occur in this space).

// ---------------------------------------------------------------------------------------------
// text builder with line bookkeeping

type c20Piece struct {
	s     string
	mark  int // 0 none, 1 first token of the reporting construct, 2 first token of an enclosing positioned construct
	brk   int // 0 stay on the line, 1 line break after it in spread layout only, 2 always line break after it
	close int // number of marked constructs whose last token this piece is
}

func c20S(s string) c20Piece { return c20Piece{s: s, brk: 1} } // break after it when spread
func c20L(s string) c20Piece { return c20Piece{s: s, brk: 2} } // a line of its own end

var c20NL = c20Piece{brk: 2}

// c20Node is one positioned construct on the path to the fault, as the generator knows it.
type c20Node struct {
	Line    int    `json:"line"`    // 1-based line of its first token within the whole text
	Code    string `json:"code"`    // its tokens without white space (what gengine prints after "code:")
	Primary bool   `json:"primary"` // the reporting construct itself
}

type c20Builder struct {
	lines   []string  // finished lines (without terminator)
	cur     []string  // tokens of the line being assembled
	pending []int     // nodes whose first token is on the line being assembled
	nodes   []c20Node // every marked construct, in order of its first token
	open    []int     // stack of nodes still collecting tokens
	indent  string
}

func (b *c20Builder) flush() {
	if len(b.cur) == 0 {
		return
	}
	ln := len(b.lines) + 1
	for _, n := range b.pending {
		b.nodes[n].Line = ln
	}
	b.pending = b.pending[:0]
	b.lines = append(b.lines, b.indent+strings.Join(b.cur, " "))
	b.cur = b.cur[:0]
}

// raw appends a complete line that carries no construct of interest.
func (b *c20Builder) raw(s string) {
	b.flush()
	b.lines = append(b.lines, s)
}

var c20Gaps = [][]string{
	{},
	{""},
	{"// note a", ""},
	{"", "// note a", "  // note b"},
}

func (b *c20Builder) add(ps []c20Piece, spread bool, gap int) {
	for _, p := range ps {
		if p.mark == 1 {
			// the blank / comment lines go directly in front of the line holding the construct's first
			// token; tokens already collected for that line (single-line layout) stay on it
			b.lines = append(b.lines, c20Gaps[gap]...)
		}
		if p.mark != 0 {
			b.nodes = append(b.nodes, c20Node{Primary: p.mark == 1})
			b.pending = append(b.pending, len(b.nodes)-1)
			b.open = append(b.open, len(b.nodes)-1)
		}
		if p.s != "" {
			b.cur = append(b.cur, p.s)
			for _, n := range b.open {
				b.nodes[n].Code += strings.Join(strings.Fields(p.s), "")
			}
		}
		for k := 0; k < p.close; k++ {
			b.open = b.open[:len(b.open)-1]
		}
		if p.brk == 2 || (p.brk == 1 && spread) {
			b.flush()
		}
	}
	b.flush()
	if len(b.open) != 0 {
		vsched.InternalError("C20 builder: %d constructs left open", len(b.open))
	}
}

func (b *c20Builder) result() (primary int, accept []int) {
	for _, n := range b.nodes {
		if n.Primary {
			primary = n.Line
		}
		accept = append(accept, n.Line)
	}
	return primary, c20Uniq(accept)
}

// c20Wrap makes head+x+tail an enclosing positioned construct: it starts with head's first token and
// ends with the last token of tail (or of x).
func c20Wrap(head string, x []c20Piece, tail ...c20Piece) []c20Piece {
	out := append([]c20Piece{{s: head, mark: 2, brk: 1}}, x...)
	out = append(out, tail...)
	out[len(out)-1].close++
	return out
}

// ---------------------------------------------------------------------------------------------
// fault classes

type c20Fault struct {
	Class    string // fault class of the property statement (signature component)
	Variant  string
	Kind     string // "math" | "bool" (expression valued), "call" (expression or statement), "assign", "stmt"
	MustCite bool
	X        []c20Piece // tokens of the reporting construct; X[0] carries mark 1
}

func c20X(parts ...string) []c20Piece {
	var ps []c20Piece
	for i, s := range parts {
		p := c20S(s)
		if i == 0 {
			p.mark = 1
		}
		ps = append(ps, p)
	}
	ps[len(ps)-1].close = 1
	return ps
}

func c20Faults() []c20Fault {
	fr := func(over string) []c20Piece {
		return []c20Piece{{s: "forRange", mark: 1, brk: 1}, c20S("kx :="), c20S(over), c20L("{"), c20L("okf(1)"), {s: "}", brk: 2, close: 1}}
	}
	return []c20Fault{
		{"arith", "str-minus-int", "math", true, c20X("SV", "-", "1")},
		{"arith", "int-plus-strlit", "math", true, c20X("1", "+", `"a"`)},
		{"arith", "int-times-str", "math", true, c20X("3", "*", "SV")},
		{"divzero", "literal", "math", true, c20X("8", "/", "0")},
		{"divzero", "injected", "math", true, c20X("8", "/", "ZI")},
		{"divzero", "uint64", "math", true, c20X("8", "/", "ZU64")},
		{"divzero", "uint8", "math", true, c20X("8", "/", "ZU8")},
		{"divzero", "float64", "math", true, c20X("8", "/", "ZF")},
		{"cmp", "int-lt-str", "bool", true, c20X("3", "<", "SV")},
		{"cmp", "str-eq-int", "bool", true, c20X("SV", "==", "3")},
		{"logic", "int-and-bool", "bool", true, c20X("5", "&&", "true")},
		{"logic", "bool-or-str", "bool", true, c20X("true", "||", "SV")},
		{"func", "unknown", "call", true, c20X("nof", "(", "1)")},
		{"func", "panics", "call", true, c20X("boomf", "(", "1)")},
		{"func", "ill-typed-arg", "call", true, c20X("okf", "(", `"a")`)},
		{"method", "panics", "call", true, c20X("PS.Boom", "(", "1)")},
		{"method", "unknown-method", "call", true, c20X("PS.Nope", "(", "1)")},
		{"method", "unknown-object", "call", true, c20X("QQ.Run", "(", "1)")},
		{"threelevel", "panics", "call", true, c20X("PS.Sub.Kaboom", "(", "1)")},
		{"threelevel", "unknown-method", "call", true, c20X("PS.Sub.Nope", "(", "1)")},
		{"threelevel", "unknown-field", "call", true, c20X("PS.Nix.Run", "(", "1)")},
		{"assign", "non-pointer-scalar", "assign", true, c20X("NI", "=", "5")},
		{"assign", "unknown-field", "assign", true, c20X("PS.Nope", "=", "5")},
		{"assign", "kind-mismatch", "assign", true, c20X("PI", "=", `"a"`)},
		{"compound", "int-pluseq-str", "assign", true, c20X("ix", "+=", `"a"`)},
		{"compound", "diveq-zero", "assign", true, c20X("ix", "/=", "0")},
		{"compound", "unknown-target", "assign", true, c20X("zq", "+=", "1")},
		{"mapvar-assign", "set-non-container", "assign", true, c20X("MI[1]", "=", "5")},
		{"mapvar-assign", "compound-non-container", "assign", true, c20X("MI[1]", "+=", "1")},
		// classes the statement does not list: a missing position is allowed, a wrong one is not
		{"mapvar-read", "non-container", "math", false, c20X("MI", "[", "1]")},
		{"mapvar-read", "string-index-of-slice", "math", false, c20X("LS", "[", `"k"]`)},
		{"unknown-var", "read", "math", false, c20X("zz")},
		{"forrange", "non-iterable", "stmt", false, fr("NI")},
		{"forrange", "unknown", "stmt", false, fr("zz")},
	}
}

// ---------------------------------------------------------------------------------------------
// enclosing statement kinds

var c20Ctxs = []string{
	"top", "assign-rhs", "if-body", "if-cond", "elseif-cond", "else-body", "for-body", "for-cond", "for-init", "for-step",
	"forrange-body", "call-arg", "return", "conc-body",
}

func c20Cat(parts ...[]c20Piece) []c20Piece {
	var out []c20Piece
	for _, p := range parts {
		out = append(out, p...)
	}
	return out
}

func c20One(ps ...c20Piece) []c20Piece { return ps }

// c20Place puts the construct into the enclosing statement kind; ok=false when the grammar cannot
// express the combination.
func c20Place(f c20Fault, ctx string, nest bool) (ps []c20Piece, ok bool) {
	x := f.X
	kind := f.Kind
	if nest {
		switch kind {
		case "math", "call":
			x = c20Wrap("2 *", c20Wrap("(", x, c20S(")")))
			kind = "math"
		case "bool":
			x = c20Wrap("true &&", c20Wrap("(", x, c20S(")")))
		default:
			return nil, false
		}
	}
	expr := kind == "math" || kind == "bool" || kind == "call"
	// the construct as a statement of its own
	stmt := x
	if kind == "math" || kind == "bool" {
		stmt = c20Wrap("vx =", x)
	}
	stmt = c20Cat(stmt, c20One(c20NL))
	switch ctx {
	case "top":
		return stmt, true
	case "assign-rhs": // for expression faults "top" already is an assignment carrier
		if kind != "call" {
			return nil, false
		}
		return c20Cat(c20Wrap("vx =", x), c20One(c20NL)), true
	case "if-body":
		return c20Cat(c20One(c20L("if true {")), stmt, c20One(c20L("}"))), true
	case "if-cond":
		if !expr {
			return nil, false
		}
		return c20Cat(c20One(c20S("if")), x, c20One(c20L("{"), c20L("okf(1)"), c20L("}"))), true
	case "elseif-cond":
		if !expr {
			return nil, false
		}
		return c20Cat(c20One(c20L("if false {"), c20L("okf(1)"), c20S("} else if")), x, c20One(c20L("{"), c20L("okf(2)"), c20L("}"))), true
	case "else-body":
		return c20Cat(c20One(c20L("if false {"), c20L("okf(1)"), c20L("} else {")), stmt, c20One(c20L("}"))), true
	case "for-body":
		return c20Cat(c20One(c20L("for jx = 0; jx < 2; jx += 1 {")), stmt, c20One(c20L("}"))), true
	case "for-cond":
		if !expr {
			return nil, false
		}
		return c20Cat(c20One(c20S("for jx = 0;")), x, c20One(c20L("; jx += 1 {"), c20L("okf(1)"), c20L("}"))), true
	case "for-init":
		if kind == "stmt" {
			return nil, false
		}
		init := x
		if expr {
			init = c20Wrap("jx =", x)
		}
		return c20Cat(c20One(c20S("for")), init, c20One(c20L("; jx < 2; jx += 1 {"), c20L("okf(1)"), c20L("}"))), true
	case "for-step":
		if kind == "stmt" {
			return nil, false
		}
		step := x
		if expr {
			step = c20Wrap("jx =", x)
		}
		return c20Cat(c20One(c20S("for jx = 0; jx < 2;")), step, c20One(c20L("{"), c20L("okf(1)"), c20L("}"))), true
	case "forrange-body":
		return c20Cat(c20One(c20L("forRange kx := LS {")), stmt, c20One(c20L("}"))), true
	case "call-arg":
		if !expr {
			return nil, false
		}
		return c20Wrap("okf2(", c20Cat(c20One(c20S("1,")), x), c20L(")")), true
	case "return":
		if !expr {
			return nil, false
		}
		return c20Cat(c20One(c20S("return")), x, c20One(c20NL)), true
	case "conc-body":
		if kind == "stmt" {
			return nil, false
		}
		return c20Cat(c20One(c20L("conc {")), stmt, c20One(c20L("}"))), true
	}
	return nil, false
}

// ---------------------------------------------------------------------------------------------
// cases

type c20Case struct {
	Class    string    `json:"class"`
	Variant  string    `json:"variant"`
	Ctx      string    `json:"ctx"`
	Solo     bool      `json:"solo,omitempty"` // smallest layout: the faulty rule alone (reproducers); otherwise three rules
	RulePos  int       `json:"rule_pos"`       // 0..2: which of the three rules is the faulty one
	Gap      int       `json:"gap"`            // blank / comment lines in front of the construct
	Spread   bool      `json:"spread"`         // tokens of the construct (and of its carrier) on separate lines
	CRLF     bool      `json:"crlf"`
	Nest     bool      `json:"nest,omitempty"`   // one more level of (binary op + parentheses) around the construct
	Second   bool      `json:"second,omitempty"` // a second, different faulty statement further down the same rule
	Tab      bool      `json:"tab,omitempty"`    // tab indentation
	Col0     bool      `json:"col0,omitempty"`   // no indentation at all: the construct's first token is the first character of its line
	Twin     bool      `json:"twin,omitempty"`   // the same construct text occurs earlier in the rule, in a branch that never runs
	MustCite bool      `json:"must_cite"`
	Rule     string    `json:"rule"`
	Primary  int       `json:"expect_line"`  // line of the first token of the reporting construct
	Accept   []int     `json:"accept_lines"` // Primary + start lines of the enclosing positioned constructs that fail with it
	Nodes    []c20Node `json:"constructs"`   // the positioned constructs on the path, outermost first
	Text     string    `json:"text"`
	// Entry: compile entry point the text goes through ("" = full build; "incr", "incr-onto", "pool",
	// "poolfull", "poolincr"); Lead: empty lines put in front of the whole text (all expected lines shift)
	Entry string `json:"entry,omitempty"`
	Lead  int    `json:"lead,omitempty"`
}

// c20Variant derives the same case compiled through another entry point and/or with leading empty lines.
func c20Variant(cs c20Case, entry string, lead int) c20Case {
	v := cs
	v.Entry, v.Lead = entry, lead
	eol := "\n"
	if cs.CRLF {
		eol = "\r\n"
	}
	v.Text = strings.Repeat(eol, lead) + cs.Text
	v.Primary += lead
	v.Accept = nil
	for _, a := range cs.Accept {
		v.Accept = append(v.Accept, a+lead)
	}
	v.Nodes = nil
	for _, n := range cs.Nodes {
		n.Line += lead
		v.Nodes = append(v.Nodes, n)
	}
	return v
}

const c20OtherText = "rule \"zz\" salience 100 begin\n  okf(9)\nend\n"

// c20Execute compiles cs.Text through cs.Entry and executes the faulty rule.
func c20Execute(cs c20Case) (err error, panicked interface{}) {
	inj := c20Inject()
	fail := func(e error) {
		vsched.InternalError("C20: generated text does not compile through %q (%s/%s in %s): %v\n%s", cs.Entry, cs.Class, cs.Variant, cs.Ctx, e, cs.Text)
	}
	switch cs.Entry {
	case "":
		src, cerr := gx.Compile(cs.Text)
		if cerr != nil {
			fail(cerr)
		}
		_, _, err, panicked = gx.RunRule(src, cs.Rule, inj)
	case "incr", "incr-onto":
		rb := builder.NewRuleBuilder(context.NewDataContext())
		if cs.Entry == "incr-onto" {
			if e := rb.BuildRuleFromString(c20OtherText); e != nil {
				fail(e)
			}
		}
		if e := rb.BuildRuleWithIncremental(cs.Text); e != nil {
			fail(e)
		}
		_, _, err, panicked = gx.RunRule(rb, cs.Rule, inj)
	case "pool", "poolfull", "poolincr":
		first := cs.Text
		if cs.Entry != "pool" {
			first = c20OtherText
		}
		gp, e := engine.NewGenginePool(1, 2, engine.SortModel, first, map[string]interface{}{"okf": inj["okf"]})
		if e != nil {
			fail(e)
		}
		if cs.Entry == "poolfull" {
			e = gp.UpdatePooledRules(cs.Text)
		} else if cs.Entry == "poolincr" {
			e = gp.UpdatePooledRulesIncremental(cs.Text)
		}
		if e != nil {
			fail(e)
		}
		err, _, panicked = gx.PoolCallGuarded(gx.PoolMethodByName("ExecuteSelectedRules"), gp, inj, gx.PoolCallParams{Names: []string{cs.Rule}})
	}
	return
}

var c20RuleNames = []string{"ra", "rb", "rc"}

// healthy filler rules of different heights so that the faulty rule starts at varying offsets
func c20Healthy(b *c20Builder, i int) {
	name := c20RuleNames[i]
	b.raw(fmt.Sprintf("rule \"%s\" \"healthy %d\" salience %d", name, i, 10-i))
	b.raw("begin")
	b.raw(b.indent + "hv = 1 + 2")
	for k := 0; k <= i; k++ {
		b.raw(b.indent + "// filler")
		b.raw(b.indent + "hv = okf(")
		b.raw(b.indent + b.indent + "hv)")
	}
	b.raw(b.indent + "if hv > 0 {")
	b.raw(b.indent + b.indent + "okf(hv)")
	b.raw(b.indent + "}")
	b.raw("end")
	if i == 1 {
		b.raw("")
	}
}

// c20Twin puts the same tokens, unmarked and on one line each, into a branch that is never taken:
// the text of the failing construct then occurs twice in the rule, and only the later one runs.
func c20Twin(b *c20Builder, body []c20Piece) {
	var ps []c20Piece
	for _, p := range body {
		ps = append(ps, c20Piece{s: p.s, brk: p.brk})
	}
	b.raw(b.indent + "if false {")
	b.add(ps, false, 0)
	b.raw(b.indent + "}")
}

// c20Solo builds the smallest text with the fault: one rule, nothing around the construct.
func c20Solo(f c20Fault, ctx string, twin, col0 bool) (c20Case, bool) {
	body, ok := c20Place(f, ctx, false)
	if !ok {
		return c20Case{}, false
	}
	b := &c20Builder{indent: " "}
	if col0 {
		b.indent = "" // every line, the construct's included, starts in column 0
	}
	b.raw("rule \"ra\" begin")
	if f.Class == "compound" {
		b.raw(b.indent + "ix = 1")
	}
	if twin {
		c20Twin(b, body)
	}
	b.add(body, false, 0)
	b.raw("end")
	primary, accept := b.result()
	return c20Case{Class: f.Class, Variant: f.Variant, Ctx: ctx, Solo: true, Twin: twin, Col0: col0, MustCite: f.MustCite, Rule: "ra",
		Primary: primary, Accept: accept, Nodes: b.nodes, Text: strings.Join(b.lines, "\n") + "\n"}, true
}

func c20Build(f c20Fault, ctx string, rulePos, gap int, spread, crlf, nest, second, tab, twin bool) (c20Case, bool) {
	body, ok := c20Place(f, ctx, nest)
	if !ok {
		return c20Case{}, false
	}
	if second && ctx == "return" {
		return c20Case{}, false // nothing may follow a return statement
	}
	b := &c20Builder{indent: "  "}
	if tab {
		b.indent = "\t"
	}
	b.raw("// generated")
	for i := 0; i < 3; i++ {
		if i != rulePos {
			c20Healthy(b, i)
			continue
		}
		b.raw(fmt.Sprintf("rule \"%s\" \"faulty\"", c20RuleNames[i]))
		b.raw("begin")
		b.raw(b.indent + "ix = 1")
		b.raw(b.indent + "okf(ix)")
		if twin {
			c20Twin(b, body)
		}
		b.add(body, spread, gap)
		if second {
			b.raw(b.indent + "okf(3)")
			b.raw("")
			b.raw(b.indent + "boomf(2)")
		}
		if ctx != "return" {
			b.raw(b.indent + "okf(4)")
		}
		b.raw("end")
	}
	eol := "\n"
	if crlf {
		eol = "\r\n"
	}
	primary, accept := b.result()
	cs := c20Case{Class: f.Class, Variant: f.Variant, Ctx: ctx, RulePos: rulePos, Gap: gap, Spread: spread, CRLF: crlf,
		Nest: nest, Second: second, Tab: tab, Twin: twin, MustCite: f.MustCite, Rule: c20RuleNames[rulePos],
		Primary: primary, Accept: accept, Nodes: b.nodes, Text: strings.Join(b.lines, eol) + eol}
	return cs, true
}

func c20Uniq(a []int) []int {
	var out []int
	for _, v := range a {
		dup := false
		for _, w := range out {
			if v == w {
				dup = true
			}
		}
		if !dup {
			out = append(out, v)
		}
	}
	return out
}

// c20Cases enumerates simplest layouts first, so that the first case stored per signature is small.
// The first `head` cases (the one-rule texts) are all run by worker 0, whose violations the merge
// keeps first: the stored replay per signature is then the smallest text.
func c20Cases(thorough bool) (out []c20Case, head int) {
	faults := c20Faults()
	for _, ctx := range c20Ctxs {
		for _, f := range faults {
			if cs, ok := c20Solo(f, ctx, false, false); ok {
				out = append(out, cs)
			}
			if cs, ok := c20Solo(f, ctx, true, false); ok {
				out = append(out, cs)
			}
			if cs, ok := c20Solo(f, ctx, false, true); ok {
				out = append(out, cs)
			}
		}
	}
	head = len(out)
	type extra struct{ nest, second, tab bool }
	extras := []extra{{}}
	if thorough {
		extras = []extra{{}, {nest: true}, {second: true, tab: true}, {nest: true, second: true, tab: true}}
	}
	for _, ex := range extras {
		for _, crlf := range []bool{false, true} {
			for _, spread := range []bool{false, true} {
				for gap := 0; gap < len(c20Gaps); gap++ {
					for pos := 0; pos < 3; pos++ {
						for _, ctx := range c20Ctxs {
							for _, f := range faults {
								if cs, ok := c20Build(f, ctx, pos, gap, spread, crlf, ex.nest, ex.second, ex.tab, false); ok {
									out = append(out, cs)
								}
								if gap == 1 && !crlf && (thorough || !spread) {
									if cs, ok := c20Build(f, ctx, pos, gap, spread, crlf, ex.nest, ex.second, ex.tab, true); ok {
										out = append(out, cs)
									}
								}
							}
						}
					}
				}
			}
		}
	}
	return out, head
}

// ---------------------------------------------------------------------------------------------
// host objects (fresh per case)

type c20Sub struct{ Num int }

func (s *c20Sub) Kaboom(n int) int { panic("kaput sub") }
func (s *c20Sub) Fine(n int) int   { return n }

type c20Obj struct {
	Num  int
	Name string
	Sub  *c20Sub
}

func (o *c20Obj) Boom(n int) int { panic("kaput obj") }
func (o *c20Obj) Fine(n int) int { return n }

func c20Inject() map[string]interface{} {
	pi := 4
	return map[string]interface{}{
		"SV":    "s",
		"ZI":    0,
		"ZU64":  uint64(0),
		"ZU8":   uint8(0),
		"ZF":    float64(0),
		"NI":    7,
		"MI":    9,
		"PI":    &pi,
		"LS":    []int{1, 2},
		"PS":    &c20Obj{Num: 1, Name: "n", Sub: &c20Sub{Num: 2}},
		"okf":   func(n int) int { return n },
		"okf2":  func(a int, b int) int { return a + b },
		"boomf": func(n int) int { panic("kaput func") },
	}
}

// ---------------------------------------------------------------------------------------------
// oracle

var c20LineRe = regexp.MustCompile(`line (\d+)`)

// gengine's position prefix; used only to learn WHICH construct a cited line is attributed to (the
// code text) - the column is skipped, never judged.
var c20PrefixRe = regexp.MustCompile(`^line \d+, column ?:? ?\d+, code:? (\S*),`)

type c20Cite struct {
	Line int
	Code string // construct text printed next to the line ("" when not in gengine's prefix format)
}

// c20Cites extracts every cited line from the message of the failing rule. Stack traces embedded by
// gengine's recover handlers are cut off (they carry file:NNN positions of Go code, not rule lines).
func c20Cites(msg string) []c20Cite {
	if i := strings.Index(msg, "executed, error:"); i >= 0 {
		msg = msg[i+len("executed, error:"):]
	}
	if i := strings.Index(msg, "\ngoroutine "); i >= 0 {
		msg = msg[:i]
	}
	var out []c20Cite
	for _, m := range c20LineRe.FindAllStringSubmatchIndex(msg, -1) {
		n, err := strconv.Atoi(msg[m[2]:m[3]])
		if err != nil {
			n = -1
		}
		c := c20Cite{Line: n}
		if pm := c20PrefixRe.FindStringSubmatch(msg[m[0]:]); pm != nil {
			c.Code = pm[1]
		}
		out = append(out, c)
	}
	return out
}

func c20In(a []int, v int) bool {
	for _, w := range a {
		if w == v {
			return true
		}
	}
	return false
}

type c20Verdict struct {
	Findings []hx.Finding
	Cited    string // "primary" | "enclosing" | "none" | ""
	Err      string
}

func c20Judge(cs c20Case) c20Verdict {
	err, panicked := c20Execute(cs)
	var v c20Verdict
	desc := fmt.Sprintf("%s/%s in %s (rule %d of 3, gap %d, spread %v, crlf %v)", cs.Class, cs.Variant, cs.Ctx, cs.RulePos+1, cs.Gap, cs.Spread, cs.CRLF)
	if cs.Entry != "" || cs.Lead != 0 {
		desc += fmt.Sprintf(" [entry point %q, %d leading empty line(s)]", cs.Entry, cs.Lead)
	}
	if cs.Solo {
		desc = fmt.Sprintf("%s/%s in %s (one-rule text)", cs.Class, cs.Variant, cs.Ctx)
	}
	if cs.Col0 {
		desc += " [no indentation: the construct starts in column 0]"
	}
	if cs.Twin {
		desc += " [the same construct text also occurs earlier in the rule, in a branch that never runs]"
	}
	if panicked != nil {
		// no error value exists; whether panics may escape is property C09's subject, not judged here
		v.Cited = "panic-escaped"
		v.Err = fmt.Sprint(panicked)
		return v
	}
	if err == nil {
		v.Cited = "no-error"
		if cs.MustCite {
			v.Findings = append(v.Findings, hx.Finding{Sig: "c20:" + cs.Class + "-no-error",
				Msg: desc + ": the faulty rule reported no error at all\n" + cs.Text})
		}
		return v
	}
	v.Err = err.Error()
	head := v.Err
	if len(head) > 400 {
		head = head[:400] + "..."
	}
	cites := c20Cites(v.Err)
	if len(cites) == 0 {
		v.Cited = "none"
		if cs.MustCite {
			v.Findings = append(v.Findings, hx.Finding{Sig: "c20:" + cs.Class + "-no-position",
				Msg: fmt.Sprintf("%s: the error cites no line (construct starts on line %d)\nerror: %s\n%s", desc, cs.Primary, head, cs.Text)})
		}
		return v
	}
	for i, ct := range cites {
		n := ct.Line
		which, inner := "first", ""
		if i > 0 {
			which, inner = "further", "-inner"
		}
		// when the message names the construct (code text) and that text is one of the constructs on the
		// path, the line must be that construct's own start line, not the one of a neighbour on the path
		named, namedOK := false, false
		var namedLines []int
		for _, nd := range cs.Nodes {
			if ct.Code != "" && nd.Code == ct.Code {
				named = true
				namedLines = append(namedLines, nd.Line)
				if nd.Line == n {
					namedOK = true
				}
			}
		}
		switch {
		case c20In(cs.Accept, n) && named && !namedOK:
			v.Findings = append(v.Findings, hx.Finding{Sig: "c20:" + cs.Class + inner + "-line-of-other-construct",
				Msg: fmt.Sprintf("%s: %s cited line %d is attributed to `%s`, which starts on line %v; line %d is where another construct on the path starts (constructs %+v)\nerror: %s\n%s", desc, which, n, ct.Code, namedLines, n, cs.Nodes, head, cs.Text)})
		case n == cs.Primary:
			if i == 0 {
				v.Cited = "primary"
			}
		case c20In(cs.Accept, n):
			if i == 0 {
				v.Cited = "enclosing"
			}
		case n == 0:
			v.Findings = append(v.Findings, hx.Finding{Sig: "c20:" + cs.Class + inner + "-line-0",
				Msg: fmt.Sprintf("%s: %s cited position is line 0, the construct starts on line %d (accepted %v)\nerror: %s\n%s", desc, which, cs.Primary, cs.Accept, head, cs.Text)})
		default:
			v.Findings = append(v.Findings, hx.Finding{Sig: "c20:" + cs.Class + inner + "-wrong-line",
				Msg: fmt.Sprintf("%s: %s cited line is %d, the construct starts on line %d (accepted %v)\nerror: %s\n%s", desc, which, n, cs.Primary, cs.Accept, head, cs.Text)})
		}
	}
	if v.Cited == "" {
		v.Cited = "wrong"
	}
	// one finding per signature per case
	var fs []hx.Finding
	for _, f := range v.Findings {
		dup := false
		for _, g := range fs {
			if g.Sig == f.Sig {
				dup = true
			}
		}
		if !dup {
			fs = append(fs, f)
		}
	}
	v.Findings = fs
	return v
}

// ---------------------------------------------------------------------------------------------
// self-test of the generator's own bookkeeping

// c20FindLine counts lines independently of the builder: it splits the finished text at "\n" and
// returns the 1-based number of the nth line that equals (exact) or contains the given token text.
func c20FindLine(text, tok string, exact bool, nth int) int {
	for i, l := range strings.Split(text, "\n") {
		l = strings.TrimSpace(strings.TrimSuffix(l, "\r"))
		if (exact && l == tok) || (!exact && strings.Contains(l, tok)) {
			if nth == 0 {
				return i + 1
			}
			nth--
		}
	}
	return -1
}

func c20SelfTest() {
	faults := c20Faults()
	pick := func(class, variant string) c20Fault {
		for _, f := range faults {
			if f.Class == class && f.Variant == variant {
				return f
			}
		}
		vsched.InternalError("C20 self-test: no fault %s/%s", class, variant)
		return c20Fault{}
	}
	type where struct {
		tok   string
		exact bool
		nth   int
	}
	type st struct {
		f                 c20Fault
		ctx               string
		pos, gap          int
		spread, crlf      bool
		nest, second, tab bool
		prim              where    // where the reporting construct starts
		encl              []where  // where each enclosing positioned construct starts
		codes             []string // hand-written code text of every construct on the path, outermost first
	}
	tests := []st{
		{f: pick("arith", "str-minus-int"), ctx: "top", pos: 0, gap: 0, prim: where{"SV", false, 0}, encl: []where{{"vx =", false, 0}}},
		{f: pick("arith", "str-minus-int"), ctx: "top", pos: 2, gap: 3, spread: true, crlf: true, prim: where{"SV", true, 0}, encl: []where{{"vx =", true, 0}}},
		{f: pick("func", "unknown"), ctx: "elseif-cond", pos: 1, gap: 2, spread: true, prim: where{"nof", true, 0}},
		{f: pick("assign", "non-pointer-scalar"), ctx: "for-step", pos: 1, gap: 1, spread: true, tab: true, prim: where{"NI", true, 0}},
		{f: pick("method", "panics"), ctx: "call-arg", pos: 2, gap: 2, spread: true, crlf: true, nest: true, second: true,
			prim: where{"PS.Boom", true, 0}, encl: []where{{"okf2(", true, 0}, {"2 *", true, 0}, {"(", true, 0}},
			codes: []string{"okf2(1,2*(PS.Boom(1)))", "2*(PS.Boom(1))", "(PS.Boom(1))", "PS.Boom(1)"}},
		{f: pick("mapvar-read", "non-container"), ctx: "return", pos: 0, gap: 3, crlf: true, prim: where{"return MI", false, 0}},
		{f: pick("cmp", "int-lt-str"), ctx: "for-init", pos: 1, gap: 1, spread: true, nest: true,
			prim: where{"3", true, 0}, encl: []where{{"jx =", true, 0}, {"true &&", true, 0}, {"(", true, 0}},
			codes: []string{"jx=true&&(3<SV)", "true&&(3<SV)", "(3<SV)", "3<SV"}},
	}
	for i, t := range tests {
		cs, ok := c20Build(t.f, t.ctx, t.pos, t.gap, t.spread, t.crlf, t.nest, t.second, t.tab, false)
		if !ok {
			vsched.InternalError("C20 self-test %d: combination rejected", i)
		}
		want := c20FindLine(cs.Text, t.prim.tok, t.prim.exact, t.prim.nth)
		if want <= 0 || want != cs.Primary {
			vsched.InternalError("C20 self-test %d: builder says the construct starts on line %d, counting newlines says %d\n%s", i, cs.Primary, want, cs.Text)
		}
		wantAcc := []int{want}
		for _, e := range t.encl {
			l := c20FindLine(cs.Text, e.tok, e.exact, e.nth)
			if l <= 0 {
				vsched.InternalError("C20 self-test %d: marker %q not found\n%s", i, e.tok, cs.Text)
			}
			wantAcc = append(wantAcc, l)
		}
		for _, l := range wantAcc {
			if !c20In(cs.Accept, l) {
				vsched.InternalError("C20 self-test %d: line %d missing from accepted lines %v\n%s", i, l, cs.Accept, cs.Text)
			}
		}
		for _, l := range cs.Accept {
			if !c20In(wantAcc, l) {
				vsched.InternalError("C20 self-test %d: accepted line %d is not the start of a construct on the path (%v)\n%s", i, l, wantAcc, cs.Text)
			}
		}
		if t.codes != nil {
			if len(t.codes) != len(cs.Nodes) {
				vsched.InternalError("C20 self-test %d: %d constructs expected, builder has %+v", i, len(t.codes), cs.Nodes)
			}
			for k, code := range t.codes {
				if cs.Nodes[k].Code != code || cs.Nodes[k].Primary != (k == len(t.codes)-1) {
					vsched.InternalError("C20 self-test %d: construct %d should read %q: %+v", i, k, code, cs.Nodes)
				}
			}
		}
		if want := strings.Count(cs.Text, "\n"); t.crlf && strings.Count(cs.Text, "\r\n") != want {
			vsched.InternalError("C20 self-test %d: CRLF text has bare LF", i)
		}
	}
	// a fully literal golden: text and line written down by hand
	cs, _ := c20Build(pick("divzero", "literal"), "if-body", 0, 1, true, false, false, false, false, false)
	golden := "// generated\n" + // 1
		"rule \"ra\" \"faulty\"\n" + // 2
		"begin\n" + // 3
		"  ix = 1\n" + // 4
		"  okf(ix)\n" + // 5
		"  if true {\n" + // 6
		"  vx =\n" + // 7
		"\n" + // 8
		"  8\n" + // 9
		"  /\n" + // 10
		"  0\n" + // 11
		"  }\n" + // 12
		"  okf(4)\n" + // 13
		"end\n"
	if !strings.HasPrefix(cs.Text, golden) || cs.Primary != 9 || len(cs.Accept) != 2 || !c20In(cs.Accept, 7) || !c20In(cs.Accept, 9) ||
		len(cs.Nodes) != 2 || cs.Nodes[0] != (c20Node{7, "vx=8/0", false}) || cs.Nodes[1] != (c20Node{9, "8/0", true}) {
		vsched.InternalError("C20 self-test: literal golden mismatch: primary %d accept %v\n%s", cs.Primary, cs.Accept, cs.Text)
	}
	// the message scanner
	got := c20Cites("[rule: \"rb\" executed, error:\n line 12, column:3, code: vx=MI[1], line 0, column 0, code: , boom \ngoroutine 1 [running]:\n\t/x/y.go:77 line 99 ]")
	if len(got) != 2 || got[0].Line != 12 || got[0].Code != "vx=MI[1]" || got[1].Line != 0 || got[1].Code != "" {
		vsched.InternalError("C20 self-test: message scanner returned %v", got)
	}
}

// ---------------------------------------------------------------------------------------------

func c20Run(c *hx.Ctx) {
	gx.AttachRunRule = false // this check makes detached pool calls (see gx.RunRule)
	c20SelfTest()
	cases, head := c20Cases(c.Thorough())
	for i, cs := range cases {
		if (i < head && c.Shard != 0) || (i >= head && !c.Mine(i)) {
			continue
		}
		if i%256 == c.Shard && c.Expired() {
			c.Res.Capped = append(c.Res.Capped, "time budget")
			break
		}
		if strings.Contains(strings.ToLower(cs.Text), "line") {
			vsched.InternalError("C20: generated text contains the word 'line':\n%s", cs.Text)
		}
		v := c20Judge(cs)
		c.Res.Execs++
		c.Res.Configs++
		c.Res.AddExtra("cases", 1)
		c.Res.AddExtra("cited:"+v.Cited, 1)
		if v.Cited == "none" || v.Cited == "panic-escaped" || v.Cited == "no-error" {
			c.Res.AddExtra("not-judged:"+v.Cited+":"+cs.Class, 1)
		}
		if v.Cited == "primary" || v.Cited == "enclosing" {
			c.Res.AddExtra("cites-"+v.Cited+":"+cs.Class, 1)
		}
		if cs.Spread && cs.Gap == 2 && cs.RulePos == 1 {
			type sample struct {
				Case  c20Case `json:"case"`
				Cited string  `json:"gengine_cites"`
				Error string  `json:"error_head"`
			}
			e := v.Err
			if len(e) > 200 {
				e = e[:200] + "..."
			}
			c.Res.Sample(sample{cs, v.Cited, e})
		}
		if len(v.Findings) > 0 {
			c.Res.AddExtra("viol:"+cs.Class+":"+cs.Ctx, 1)
			c.Res.Report("C20", "case", cs, nil, v.Findings)
		}
		// the same text through the other compile entry points and with empty lines in front of it
		// (the cited line is relative to the whole compiled text, whichever way it was compiled)
		if cs.Solo || (!cs.Spread && !cs.CRLF && cs.RulePos == 1) || (c.Thorough() && cs.Gap == 1) {
			for _, ev := range []struct {
				entry string
				lead  int
			}{{"", 2}, {"incr", 0}, {"incr", 2}, {"incr-onto", 1}, {"pool", 1}, {"poolfull", 2}, {"poolincr", 1}} {
				vc := c20Variant(cs, ev.entry, ev.lead)
				vv := c20Judge(vc)
				c.Res.Execs++
				c.Res.AddExtra("cases", 1)
				c.Res.AddExtra("entry:"+ev.entry, 1)
				if len(vv.Findings) > 0 {
					for i := range vv.Findings {
						vv.Findings[i].Sig += ":entry=" + ev.entry
					}
					c.Res.Report("C20", "case", vc, nil, vv.Findings)
				}
			}
		}
	}
}

func c20Replay(v *hx.Violation) []hx.Finding {
	gx.AttachRunRule = false
	var cs c20Case
	if err := json.Unmarshal(v.Cfg, &cs); err != nil {
		vsched.InternalError("C20 replay: %v", err)
	}
	fmt.Printf("text (%d bytes), faulty rule %q, construct on line %d, accepted lines %v:\n%s\n", len(cs.Text), cs.Rule, cs.Primary, cs.Accept, cs.Text)
	r := c20Judge(cs)
	fmt.Printf("gengine cites: %s\nerror: %s\n", r.Cited, firstN(r.Err, 600))
	return r.Findings
}

func firstN(s string, n int) string {
	if len(s) > n {
		return s[:n] + "..."
	}
	return s
}

func init() {
	hx.Register(&hx.Prop{
		ID:          "C20",
		Workers:     func(string) int { return 16 },
		BudgetQuick: 300 * time.Second,
		BudgetThor:  20 * time.Minute,
		Kind:        "cases",
		Rule: "one compiled three-rule text per case: fault class/variant (34: arithmetic ill-typed, division by zero (literal and injected divisors of kind int, uint64, uint8, float64), comparison/logic ill-typed, unknown/panicking/ill-typed-argument function, panicking/unknown method, three-level call, unassignable/unknown/mismatching assignment target, compound assignment, map-var on a non-container, unknown variable, forRange over a non-iterable) " +
			"x enclosing statement kind (14: top level, assignment rhs, if body/condition, else-if condition, else body, for body/condition/init/step, forRange body, call argument, return expression, conc block; combinations the grammar cannot express are skipped) " +
			"x faulty rule is rule 1, 2 or 3 x 0-3 blank/comment lines in front x construct (and carrier) tokens on one line or one per line x LF/CRLF; a subset of the texts also through the other compile entry points (incremental build on an empty / non-empty builder, pool construction, pool full and incremental update) and with 1-2 empty lines in front of the whole text " +
			"plus the faulty rule alone in a one-rule text (smallest reproducers), plus one-rule texts without any indentation (constructs start in column 0), plus layouts in which the same construct text occurs once more earlier in the rule inside a branch that never runs " +
			"(thorough: x {plain, one more nesting level, a second later fault + tab indentation, all three}); only the faulty rule is executed; every `line N` of its error must be the start line of the reporting construct or of an enclosing assignment/call/expression node " +
			"(and, when the message names a construct on that path by its code text, of exactly that construct), and listed fault classes must cite one; columns are not judged",
		Assume:     []string{"injected functions and methods either return or panic", "the word 'line' does not occur in rule names, identifiers, literals or panic values of the generated programs"},
		Run:        c20Run,
		ReplayCase: c20Replay,
	})
}
