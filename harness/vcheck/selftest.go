package main

import (
	"fmt"
	"os"
	"sort"
	"strings"
	"sync/atomic"
	"unsafe"

	"github.com/bilibili/gengine/verifrt/vsched"
	"github.com/bilibili/gengine/verifrt/vsync"

	"verif/harness/gx"
	"verif/harness/hx"
)

// SELF - known-answer scenarios for the explorer itself (`./check SELF`, also run by setup.sh).
// Not a property of gengine: it guards the machinery against silent regressions - a scheduler
// that no longer explores, a monitor that no longer sees races, pruning that loses outcomes.
// Every expectation below is an exact, hand-derived answer; a mismatch is an internal error (exit 2).

type selfState struct {
	x, y   int
	out    []string
	mu, m2 vsync.Mutex
	rw     vsync.RWMutex
	wg     vsync.WaitGroup
	flag   bool
	racy   int
}

func selfExplore(name string, body func(st *selfState), bound int, delay, prune, races bool) (outcomes map[string]bool, verdicts map[string]bool, nraces int, execs int) {
	outcomes, verdicts = map[string]bool{}, map[string]bool{}
	raceSigs := map[string]bool{}
	sc := &hx.Scenario{
		Name: "self:" + name,
		Cfg:  name,
		Opts: vsched.Options{Horizon: 5000},
		New:  func() interface{} { return &selfState{} },
		Body: func(s interface{}) { body(s.(*selfState)) },
		Check: func(s interface{}, ex *vsched.Exec) []hx.Finding {
			st := s.(*selfState)
			if ex.Verdict != "" {
				verdicts[ex.Verdict] = true
				if ex.Verdict == "crash" && os.Getenv("HX_DEBUG") != "" {
					fmt.Fprintln(os.Stderr, "self crash:", name, ex.Crash)
				}
			} else {
				outcomes[fmt.Sprint(st.x, st.y, st.out)] = true
			}
			for _, r := range ex.RaceList() {
				raceSigs[fmt.Sprint(r.SiteA, r.SiteB)] = true
			}
			return nil
		},
	}
	if races {
		sc.Opts.Monitor = true
	}
	res := &hx.Result{}
	hx.Explore("SELF", sc, hx.ExploreCfg{Bound: bound, Delay: delay, Prune: prune}, res)
	return outcomes, verdicts, len(raceSigs), res.Execs
}

func keys(m map[string]bool) string {
	var k []string
	for s := range m {
		k = append(k, s)
	}
	sort.Strings(k)
	return strings.Join(k, " | ")
}

func selfTest(c *hx.Ctx) {
	if c.Shard != 0 {
		return
	}
	fail := func(format string, a ...interface{}) {
		vsched.InternalError("explorer self-test: "+format, a...)
	}
	spawn2 := func(st *selfState, f, g func()) {
		vsched.Go(f)
		vsched.Go(g)
		vsched.WaitOthersDone()
	}
	// 1. lost update: x++ split by a scheduling point. Without preemption both orders give 2; one
	//    preemption loses an update.
	lost := func(st *selfState) {
		inc := func() { t := st.x; vsched.Obs(); st.x = t + 1 }
		spawn2(st, inc, inc)
	}
	o, _, _, _ := selfExplore("lost-update", lost, 0, false, true, false)
	if keys(o) != "2 0 []" {
		fail("lost update at bound 0: outcomes %q, want only x=2", keys(o))
	}
	o, _, _, _ = selfExplore("lost-update", lost, 1, false, true, false)
	if keys(o) != "1 0 [] | 2 0 []" {
		fail("lost update at bound 1: outcomes %q, want x=1 and x=2", keys(o))
	}
	o, _, _, _ = selfExplore("lost-update", lost, 1, true, true, false)
	if keys(o) != "1 0 [] | 2 0 []" {
		fail("lost update at delay bound 1: outcomes %q, want x=1 and x=2", keys(o))
	}
	// the same under a mutex never loses the update, at any bound
	locked := func(st *selfState) {
		inc := func() { st.mu.Lock(); t := st.x; vsched.Obs(); st.x = t + 1; st.mu.Unlock() }
		spawn2(st, inc, inc)
	}
	o, v, _, _ := selfExplore("locked-update", locked, -1, false, true, false)
	if keys(o) != "2 0 []" || len(v) != 0 {
		fail("locked update, unbounded: outcomes %q verdicts %q", keys(o), keys(v))
	}
	// 2. AB-BA deadlock needs exactly one preemption
	abba := func(st *selfState) {
		spawn2(st,
			func() { st.mu.Lock(); st.m2.Lock(); st.m2.Unlock(); st.mu.Unlock() },
			func() { st.m2.Lock(); st.mu.Lock(); st.mu.Unlock(); st.m2.Unlock() })
	}
	_, v, _, _ = selfExplore("abba", abba, 0, false, true, false)
	if len(v) != 0 {
		fail("AB-BA at bound 0 must not deadlock, verdicts %q", keys(v))
	}
	_, v, _, _ = selfExplore("abba", abba, 1, false, true, false)
	if keys(v) != "deadlock" {
		fail("AB-BA at bound 1: verdicts %q, want deadlock", keys(v))
	}
	// 3. WaitGroup: Done before Add(1) in one schedule -> negative counter panic = crash verdict
	neg := func(st *selfState) {
		spawn2(st, func() { st.wg.Add(1) }, func() { st.wg.Done() })
	}
	_, v, _, _ = selfExplore("wg-negative", neg, 1, false, true, false)
	if !v["crash"] {
		fail("WaitGroup Done-before-Add: verdicts %q, want crash in some schedule", keys(v))
	}
	// a waiter whose counter never reaches zero is a deadlock
	stuck := func(st *selfState) {
		st.wg.Add(2)
		vsched.Go(func() { st.wg.Done() })
		st.wg.Wait()
	}
	_, v, _, _ = selfExplore("wg-stuck", stuck, 0, false, true, false)
	if keys(v) != "deadlock" {
		fail("WaitGroup never released: verdicts %q, want deadlock", keys(v))
	}
	// 4. busy-wait with fair yield terminates; without a setter it is a livelock/horizon verdict
	spin := func(st *selfState) {
		spawn2(st,
			func() {
				for i := 0; ; i++ {
					if i > 0 {
						vsched.SpinYield()
					}
					st.mu.Lock()
					f := st.flag
					st.mu.Unlock()
					if f {
						return
					}
				}
			},
			func() { st.mu.Lock(); st.flag = true; st.mu.Unlock() })
	}
	o, v, _, _ = selfExplore("spin", spin, 2, false, true, false)
	if len(v) != 0 || len(o) != 1 {
		fail("fair spin loop: outcomes %q verdicts %q, want one outcome and no verdict", keys(o), keys(v))
	}
	spinForever := func(st *selfState) {
		vsched.Go(func() {
			for i := 0; ; i++ {
				if i > 0 {
					vsched.SpinYield()
				}
				st.mu.Lock()
				st.mu.Unlock()
			}
		})
		vsched.WaitOthersDone()
	}
	_, v, _, _ = selfExplore("spin-forever", spinForever, 0, false, true, false)
	if !(v["horizon"] || v["livelock"]) {
		fail("endless spin loop: verdicts %q, want horizon/livelock", keys(v))
	}
	// 5. race monitor: unsynchronised conflicting accesses are reported, lock / WaitGroup / spawn order are not
	racy := func(st *selfState) {
		spawn2(st,
			func() { vsched.W(unsafePtr(&st.racy), 900001); st.racy = 1 },
			func() { _ = vsched.R(&st.racy, 900002) })
	}
	_, _, n, _ := selfExplore("race", racy, 0, false, true, true)
	if n != 1 {
		fail("unsynchronised write/read: %d race pairs reported, want 1", n)
	}
	ordered := func(st *selfState) {
		vsched.W(unsafePtr(&st.racy), 900003)
		st.racy = 1 // before the spawn
		st.wg.Add(1)
		vsched.Go(func() {
			st.mu.Lock()
			vsched.W(unsafePtr(&st.racy), 900004)
			st.racy = 2
			st.mu.Unlock()
			st.wg.Done()
		})
		st.mu.Lock()
		_ = vsched.R(&st.racy, 900005)
		st.mu.Unlock()
		st.wg.Wait()
		vsched.W(unsafePtr(&st.racy), 900006)
		st.racy = 3 // after Wait
	}
	_, _, n, _ = selfExplore("no-race", ordered, 2, false, true, true)
	if n != 0 {
		fail("accesses ordered by spawn / mutex / WaitGroup: %d race pairs reported, want 0", n)
	}
	// 5b. slice elements: append into spare capacity of a shared backing array races with a reader of
	// that element; accesses to different elements do not
	sliceRace := func(st *selfState) {
		back := make([]int, 1, 2)
		long := back[:2]
		spawn2(st,
			func() { _ = vsched.Append(back, 900011, 7) },
			func() { _ = vsched.RE(long, 1, 900012) })
	}
	_, _, n, _ = selfExplore("slice-race", sliceRace, 0, false, true, true)
	if n != 1 {
		fail("append into shared spare capacity vs element read: %d race pairs reported, want 1", n)
	}
	// 5c. the same through AppendPre, the rewrite used where an appended value's type is only assignable
	// to the element type (a concrete value into a slice of an interface type)
	sliceRaceIface := func(st *selfState) {
		back := make([]interface{}, 1, 2)
		long := back[:2]
		spawn2(st,
			func() { _ = append(vsched.AppendPre(back, 900016, 1), 7) },
			func() { _ = vsched.RE(long, 1, 900017) })
	}
	_, _, n, _ = selfExplore("slice-race-iface", sliceRaceIface, 0, false, true, true)
	if n != 1 {
		fail("append (AppendPre form) into shared spare capacity vs element read: %d race pairs reported, want 1", n)
	}
	sliceOK := func(st *selfState) {
		s := make([]int, 2)
		spawn2(st,
			func() { vsched.WE(s, 0, 900013); s[0] = 1 },
			func() { _ = vsched.RE(s, 1, 900014); vsched.REr(s, 1, 900015) })
	}
	_, _, n, _ = selfExplore("slice-disjoint", sliceOK, 0, false, true, true)
	if n != 0 {
		fail("accesses to different slice elements: %d race pairs reported, want 0", n)
	}
	// 6. pruning must not lose outcomes: 3 threads appending under a lock, all 6 orders reachable
	three := func(st *selfState) {
		app := func(s string) func() {
			return func() { st.mu.Lock(); st.out = append(st.out, s); st.mu.Unlock(); vsched.Obs() }
		}
		vsched.Go(app("a"))
		vsched.Go(app("b"))
		vsched.Go(app("c"))
		vsched.WaitOthersDone()
	}
	op, _, _, ep := selfExplore("three", three, -1, false, true, false)
	on, _, _, en := selfExplore("three", three, -1, false, false, false)
	if len(op) != 6 || len(on) != 6 {
		fail("three appenders, unbounded: %d outcomes with pruning, %d without, want 6 and 6", len(op), len(on))
	}
	if ep > en {
		fail("pruning explored more executions (%d) than the unpruned search (%d)", ep, en)
	}
	// 7. channel model
	ping := func(st *selfState) {
		ch := make(chan int)
		vsched.Go(func() { vsched.ChanSend(ch, 1); vsched.ChanSend(ch, 2); vsched.ChanClose(ch) })
		for {
			v, ok := vsched.ChanRecv2(ch)
			if !ok {
				break
			}
			st.out = append(st.out, fmt.Sprint(v))
		}
	}
	o, v, _, _ = selfExplore("chan-ping", ping, 2, false, true, false)
	if keys(o) != "0 0 [1 2]" || len(v) != 0 {
		fail("unbuffered channel ping: outcomes %q verdicts %q, want [1 2] and no verdict", keys(o), keys(v))
	}
	noSender := func(st *selfState) {
		ch := make(chan int)
		vsched.Go(func() {})
		vsched.ChanRecv(ch)
	}
	_, v, _, _ = selfExplore("chan-nosender", noSender, 0, false, true, false)
	if keys(v) != "deadlock" {
		fail("receive without a sender: verdicts %q, want deadlock", keys(v))
	}
	full := func(st *selfState) {
		ch := make(chan int, 1)
		vsched.ChanSend(ch, 1)
		st.x = vsched.ChanLen(ch)
		vsched.ChanSend(ch, 2)
	}
	_, v, _, _ = selfExplore("chan-full", full, 0, false, true, false)
	if keys(v) != "deadlock" {
		fail("second send into a full buffered channel: verdicts %q, want deadlock", keys(v))
	}
	sel := func(st *selfState) {
		a, b := make(chan int, 1), make(chan int, 1)
		vsched.ChanSend(a, 1)
		vsched.ChanSend(b, 2)
		r := vsched.Select(false, vsched.RecvCase(a), vsched.RecvCase(b))
		va, _ := vsched.SelVal(r, a)
		st.x = r.Index*10 + va
		r2 := vsched.Select(true, vsched.RecvCase(make(chan int)))
		st.y = r2.Index
	}
	o, v, _, _ = selfExplore("chan-select", sel, 1, false, true, false)
	if keys(o) != "1 -1 [] | 12 -1 []" || len(v) != 0 {
		fail("select among two ready cases / default: outcomes %q verdicts %q", keys(o), keys(v))
	}
	// lost wake-up: the waker signals only on the empty -> non-empty transition of a counter
	lostWake := func(st *selfState) {
		sig := make(chan struct{}, 1)
		put := func() {
			st.mu.Lock()
			was := st.x == 0
			st.x++
			st.mu.Unlock()
			if was {
				vsched.Select(true, vsched.SendCase(sig, struct{}{}))
			}
		}
		take := func() {
			for {
				st.mu.Lock()
				if st.x > 0 {
					st.x--
					st.mu.Unlock()
					return
				}
				st.mu.Unlock()
				vsched.ChanRecv(sig)
			}
		}
		vsched.Go(take)
		vsched.Go(take)
		vsched.Go(put)
		vsched.Go(put)
		vsched.WaitOthersDone()
	}
	_, v, _, _ = selfExplore("chan-lost-wakeup", lostWake, 3, true, true, false)
	if !v["deadlock"] {
		fail("lost wake-up pattern: verdicts %q, want a deadlock in some schedule", keys(v))
	}
	// 7b. RWMutex prefers writers: a recursive read lock deadlocks against a writer that announced itself
	// in between; a plain reader/writer pair never does
	rwRec := func(st *selfState) {
		vsched.Go(func() { st.rw.Lock(); st.x++; st.rw.Unlock() })
		st.rw.RLock()
		st.rw.RLock()
		st.rw.RUnlock()
		st.rw.RUnlock()
		vsched.WaitOthersDone()
	}
	o, v, _, _ = selfExplore("rw-recursive", rwRec, 2, false, true, false)
	if !v["deadlock"] || !o["1 0 []"] {
		fail("recursive RLock vs Lock: outcomes %q verdicts %q, want a deadlock in some schedule and x=1 in others", keys(o), keys(v))
	}
	rwPlain := func(st *selfState) {
		vsched.Go(func() { st.rw.Lock(); st.x++; st.rw.Unlock() })
		vsched.Go(func() { st.rw.RLock(); st.y = st.x; st.rw.RUnlock() })
		st.rw.RLock()
		st.rw.RUnlock()
		vsched.WaitOthersDone()
	}
	o, v, _, _ = selfExplore("rw-plain", rwPlain, 3, false, true, false)
	if len(v) != 0 || keys(o) != "1 0 [] | 1 1 []" {
		fail("reader / writer / reader: outcomes %q verdicts %q, want y in {0,1}, no verdict", keys(o), keys(v))
	}
	// 7c. atomics: a flag published with an atomic store orders the data written before it (no race);
	// a compare-and-swap spin lock terminates under the fair yield and excludes
	atomicPub := func(st *selfState) {
		var flag int32
		spawn2(st,
			func() {
				vsched.W(unsafePtr(&st.racy), 900021)
				st.racy = 5
				atomic.StoreInt32(vsched.AtomicP(&flag), 1)
			},
			func() {
				if atomic.LoadInt32(vsched.AtomicP(&flag)) == 1 {
					st.x = vsched.R(&st.racy, 900022)
				}
			})
	}
	o, v, n, _ = selfExplore("atomic-publish", atomicPub, 2, false, true, true)
	if n != 0 || len(v) != 0 || keys(o) != "0 0 [] | 5 0 []" {
		fail("data published through an atomic flag: %d race pairs, outcomes %q verdicts %q, want no race and x in {0,5}", n, keys(o), keys(v))
	}
	casLock := func(st *selfState) {
		var l int32
		inc := func() {
			for c := 0; !atomic.CompareAndSwapInt32(vsched.AtomicP(&l), 0, 1); c++ {
				vsched.SpinYield()
			}
			st.x++
			atomic.StoreInt32(vsched.AtomicP(&l), 0)
		}
		spawn2(st, inc, inc)
	}
	o, v, _, _ = selfExplore("atomic-cas-lock", casLock, 2, false, true, false)
	if len(v) != 0 || keys(o) != "2 0 []" {
		fail("compare-and-swap spin lock: outcomes %q verdicts %q, want x=2 and no verdict", keys(o), keys(v))
	}
	// 7d. sync.Map and sync.Pool shims: a value published through the map is ordered after what was
	// written before the Store; the pool is a LIFO stack that starts empty in every execution
	mapPub := func(st *selfState) {
		var m vsync.Map
		spawn2(st,
			func() { vsched.W(unsafePtr(&st.racy), 900031); st.racy = 6; m.Store("k", 1) },
			func() {
				if _, ok := m.Load("k"); ok {
					st.x = vsched.R(&st.racy, 900032)
				}
			})
	}
	o, v, n, _ = selfExplore("syncmap-publish", mapPub, 2, false, true, true)
	if n != 0 || len(v) != 0 || keys(o) != "0 0 [] | 6 0 []" {
		fail("data published through a sync.Map: %d race pairs, outcomes %q verdicts %q, want no race and x in {0,6}", n, keys(o), keys(v))
	}
	poolLIFO := func(st *selfState) {
		p := vsync.Pool{New: func() interface{} { return 0 }}
		st.x = p.Get().(int) // empty at the start of every execution: New
		p.Put(7)
		p.Put(8)
		st.y = p.Get().(int)*10 + p.Get().(int)
	}
	o, v, _, _ = selfExplore("syncpool", poolLIFO, 0, false, true, false)
	if len(v) != 0 || keys(o) != "0 87 []" {
		fail("pool shim: outcomes %q verdicts %q, want New's value first and then 8, 7", keys(o), keys(v))
	}
	// 7e. TryLock: fails exactly when the other thread is inside
	tryBody := func(st *selfState) {
		f := func() {
			if st.mu.TryLock() {
				st.x++
				vsched.Obs()
				st.mu.Unlock()
			} else {
				st.m2.Lock()
				st.y++
				st.m2.Unlock()
			}
		}
		spawn2(st, f, f)
	}
	o, v, _, _ = selfExplore("trylock", tryBody, 2, false, true, false)
	if len(v) != 0 || keys(o) != "1 1 [] | 2 0 []" {
		fail("two TryLock callers: outcomes %q verdicts %q, want {x=2} and {x=1,y=1}", keys(o), keys(v))
	}
	// 8. condition variable and Once shims
	condOK := func(st *selfState) {
		cv := vsync.NewCond(&st.mu)
		vsched.Go(func() {
			st.mu.Lock()
			st.flag = true
			st.mu.Unlock()
			cv.Broadcast()
		})
		st.mu.Lock()
		for !st.flag {
			cv.Wait()
		}
		st.x = 7
		st.mu.Unlock()
		vsched.WaitOthersDone()
	}
	o, v, _, _ = selfExplore("cond-ok", condOK, 3, false, true, false)
	if keys(o) != "7 0 []" || len(v) != 0 {
		fail("condition variable, flag set under the lock: outcomes %q verdicts %q, want x=7 and no verdict", keys(o), keys(v))
	}
	condLost := func(st *selfState) {
		cv := vsync.NewCond(&st.mu)
		vsched.Go(func() { cv.Signal() }) // signals without setting a flag under the lock: can come too early
		st.mu.Lock()
		cv.Wait()
		st.mu.Unlock()
	}
	_, v, _, _ = selfExplore("cond-lost", condLost, 2, false, true, false)
	if !v["deadlock"] {
		fail("signal before wait: verdicts %q, want a deadlock in some schedule", keys(v))
	}
	onceBody := func(st *selfState) {
		var once vsync.Once
		f := func() {
			once.Do(func() {
				vsched.Obs()
				st.x++
			})
			st.mu.Lock()
			st.y += st.x
			st.mu.Unlock()
		}
		vsched.Go(f)
		vsched.Go(f)
		vsched.WaitOthersDone()
	}
	o, v, _, _ = selfExplore("once", onceBody, 3, false, true, false)
	if keys(o) != "1 2 []" || len(v) != 0 {
		fail("two callers of Once.Do: outcomes %q verdicts %q, want x=1 y=2 (the second caller waits for the first)", keys(o), keys(v))
	}
	// 9. DeepClone keeps slices that share a backing array shared (either field order)
	{
		type two struct {
			A, B []int
			P    *two
		}
		back := []int{1, 2, 3, 4}
		for _, tpl := range []*two{{A: back[:2], B: back[2:]}, {A: back[2:], B: back[:2]}} {
			tpl.P = tpl
			cp := gx.DeepClone(tpl).(*two)
			lo, hi := cp.A, cp.B
			if len(tpl.A) == 2 && cap(tpl.A) == 2 {
				lo, hi = cp.B, cp.A
			}
			grown := append(lo, 9) // lands in the other slice's first element when the array is shared
			if cp.P != cp || hi[0] != 9 || back[2] != 3 || len(grown) != 3 || fmt.Sprint(cp.A, cp.B) == "" {
				fail("DeepClone of two windows of one array: copy %v %v (template array %v), want the windows to share the copied array and the template untouched", cp.A, cp.B, back)
			}
		}
	}
	c.Res.Execs += ep + en
	c.Res.AddExtra("cases", 33)
	c.Res.Sample("33 known-answer scenarios: TryLock, sync.Map publication, sync.Pool shim, atomics (publication / CAS spin lock), DeepClone backing-array sharing, RWMutex writer preference (recursive read lock deadlock / plain), slice-element race / no race (Append and AppendPre forms), condition variable (flag under lock / lost signal), Once, channel ping / no sender / full buffer / select / lost wake-up, lost update (bounds 0/1, delay 1), locked update, AB-BA deadlock, WaitGroup negative / stuck, fair spin loop, endless spin loop, race monitor positive / negative, pruning vs no pruning")
}

func init() {
	hx.Register(&hx.Prop{
		ID:   "SELF",
		Kind: "cases",
		Rule: "known-answer scenarios for the scheduler, explorer, pruning and race monitor",
		Run:  selfTest,
	})
}

func unsafePtr(p *int) unsafe.Pointer { return unsafe.Pointer(p) }
