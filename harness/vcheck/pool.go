package main

import (
	"encoding/json"
	"fmt"
	"os"
	"sort"
	"strconv"
	"strings"

	"github.com/bilibili/gengine/engine"
	"github.com/bilibili/gengine/verifrt/vsched"

	"verif/harness/gx"
	"verif/harness/hx"
)

// Pool request scenario shared by C06 (isolation) and C17 (capacity / waiting / conservation).
//
// Rule set (3 rules, so every execution model incl. N-M and DAG is applicable):
//   r0: tin(req.Id); resp.Id = req.Id; step(req.Id, req.Mode); y = 1 / req.Div; req.NM["k"] = 1; seen(req.Id, resp.Id); tout(req.Id); return req.Id
//   r1: cf(7, 2); return req.Id + 100               (a call whose arguments are all constants and need converting)
//   r2: opt(other.V); return req.Id + 200          ("other" is injected by some requests only)

const poolRules = `
rule "r0" salience 10 begin
  tin(req.Id)
  resp.Id = req.Id
  step(req.Id, req.Mode)
  y = 1 / req.Div
  req.NM["k"] = 1
  seen(req.Id, resp.Id)
  tout(req.Id)
  if req.Ret == 1 {
    return req.Id
  }
end
rule "r1" salience 5 begin
  cf(7, 2)
  if req.Ret == 1 {
    return req.Id + 100
  }
end
rule "r2" salience 1 begin
  opt(req.Id, other.V)
  if req.Ret == 1 {
    return req.Id + 200
  }
end
`

const (
	modeOK     = 0
	modePanic  = 1 // injected function panics inside the rule
	modeGate   = 2 // blocks inside the rule until the harness opens the gate
	modeError  = 3 // a later statement of the rule fails (division by zero)
	modeEmpty  = 4 // degenerate request: empty name list / empty DAG (nothing to run)
	modeNilMap = 5 // a later statement of the rule fails inside reflect (store into a map that was never made)
	modeNoRet  = 6 // healthy request in which no rule reaches a return (its result map is empty)
)

type reqSpec struct {
	Mode  int  `json:"mode"`
	Other bool `json:"other,omitempty"`
}

type poolCfg struct {
	Prop    string      `json:"prop"`
	Min     int64       `json:"min"`
	Max     int64       `json:"max"`
	EM      int         `json:"em"`
	Method  string      `json:"method"`
	Clients [][]reqSpec `json:"clients"`
	Phase2  bool        `json:"phase2"` // conservation + probe phase after quiescence
	// StopOnErr: call the method with its error-policy flag false (stop on error); NM: the N, M split
	StopOnErr bool   `json:"stop_on_err,omitempty"`
	NM        [2]int `json:"nm,omitempty"`
	// GateAfter: requests of mode "gate" issued by the clients stay inside their rule until that many
	// requests have returned (0: no such requests among the clients')
	GateAfter int `json:"gate_after,omitempty"`
	// Clear: a manager thread clears the pool's rules while every instance is parked inside a rule (and
	// other requests wait), opens the gate and installs the rules again; requests of that phase may then
	// legitimately fail with "no rule", the conservation phase afterwards is judged as usual
	Clear bool `json:"clear,omitempty"`
}

type PoolReq struct {
	Id   int64
	Mode int64
	Div  int64
	NM   map[string]int64
	Ret  int64 // 1: the rules return their values
}
type PoolResp struct{ Id int64 }
type PoolOther struct{ V int64 }

type reqRec struct {
	id      int64
	spec    reqSpec
	client  string // thread path of the issuing client
	done    bool
	err     error
	pan     interface{}
	res     map[string]interface{} // the map handed back (kept to detect later modification)
	resCopy map[string]interface{}
	respID  int64
	probe   bool
	// children of the client thread with spawn index in [spawn0, spawn1) were started by this request
	spawn0, spawn1 int
}

type poolState struct {
	log      *gx.Log
	recs     []*reqRec
	cur      map[string]*reqRec // client thread path -> request in progress
	inflight int
	maxIn    int
	gateOpen bool
	gateCnt  int
	mgrErr   error
	notes    []string
	newErr   error
	apiCache map[string]interface{}
	cfg      poolCfg
}

func (st *poolState) owner() *reqRec {
	p := vsched.ThreadPath()
	for {
		if r, ok := st.cur[p]; ok {
			return r
		}
		i := strings.LastIndex(p, ".")
		if i < 0 {
			return nil
		}
		p = p[:i]
	}
}

// lineage finds the request whose pool call started the calling goroutine (nil: the client thread
// itself, or a thread no request started).
func (st *poolState) lineage() *reqRec {
	p := vsched.ThreadPath()
	for i := len(st.recs) - 1; i >= 0; i-- {
		r := st.recs[i]
		if !strings.HasPrefix(p, r.client+".") {
			continue
		}
		rest := p[len(r.client)+1:]
		if k := strings.Index(rest, "."); k >= 0 {
			rest = rest[:k]
		}
		idx, err := strconv.Atoi(rest)
		if err != nil {
			continue
		}
		if idx >= r.spawn0 && (r.spawn1 < 0 || idx < r.spawn1) {
			return r
		}
	}
	return nil
}

// late records a rule that is still running although the pool call that started it has returned.
func (st *poolState) late(what string) {
	if r := st.lineage(); r != nil && r.done {
		st.note("late|%s was called by a rule of request %d after that request's pool call had returned (the instance may already serve another request)", what, r.id)
	}
}

func (st *poolState) note(format string, a ...interface{}) {
	if !vsched.Aborted() {
		st.notes = append(st.notes, fmt.Sprintf(format, a...))
	}
}

// activePool is the state of the execution in progress: the api functions are created once per
// scenario (they are baked into the template pool) and reach the current state through it.
var activePool *poolState

func poolApis() map[string]interface{} {
	return map[string]interface{}{
		"tin":  func(id int64) { activePool.apis()["tin"].(func(int64))(id) },
		"tout": func(id int64) { activePool.apis()["tout"].(func(int64))(id) },
		"step": func(id, mode int64) { activePool.apis()["step"].(func(int64, int64))(id, mode) },
		"seen": func(id, r int64) { activePool.apis()["seen"].(func(int64, int64))(id, r) },
		"opt":  func(id, v int64) { activePool.apis()["opt"].(func(int64, int64))(id, v) },
		"cf":   func(x int, y float32) { activePool.apis()["cf"].(func())() },
		// a pool-level default object under a name that requests may inject themselves
		"other": &PoolOther{V: -1},
	}
}

func (st *poolState) apis() map[string]interface{} {
	if st.apiCache != nil {
		return st.apiCache
	}
	st.apiCache = st.makeApis()
	return st.apiCache
}

func (st *poolState) makeApis() map[string]interface{} {
	l := st.log
	check := func(what string, id int64) *reqRec {
		st.late(what)
		o := st.owner()
		if o == nil {
			st.note("isolation|%s(%d) called from a thread that serves no request", what, id)
		} else if o.probe {
			st.note("isolation-stale|%s(%d): a request that injected no `req` still found one (data of an earlier request is visible)", what, id)
		} else if o.id != id {
			st.note("isolation|%s: request %d observed id %d (data of another request)", what, o.id, id)
		}
		return o
	}
	return map[string]interface{}{
		"cf": func() {
			vsched.Obs()
			st.late("cf")
		},
		"tin": func(id int64) {
			l.Ev("in", id)
			check("tin", id)
			if !vsched.Aborted() {
				st.inflight++
				if st.inflight > st.maxIn {
					st.maxIn = st.inflight
				}
			}
		},
		"tout": func(id int64) {
			l.Ev("out", id)
			check("tout", id)
			if !vsched.Aborted() {
				st.inflight--
			}
		},
		"step": func(id, mode int64) {
			check("step", id)
			switch mode {
			case modePanic:
				l.Ev("out", id)
				if !vsched.Aborted() {
					st.inflight--
				}
				panic("step panics")
			case modeError, modeNilMap:
				l.Ev("out", id)
				if !vsched.Aborted() {
					st.inflight--
				}
			case modeGate:
				l.Ev("gate", id)
				if !vsched.Aborted() {
					st.gateCnt++
				}
				vsched.WaitUntil(func() bool { return st.gateOpen })
			}
		},
		"seen": func(id, respID int64) {
			l.Ev3("seen", id, respID)
			check("seen", id)
			if respID != id {
				st.note("isolation|seen: request %d finds resp.Id=%d (its response object was overwritten or is another request's)", id, respID)
			}
		},
		"opt": func(id, v int64) {
			l.Ev3("opt", id, v)
			o := check("opt", id)
			if o != nil && !o.probe {
				if pm := gx.PoolMethodByName(st.cfg.Method); !o.spec.Other || (pm != nil && pm.ReqResp) {
					if v != -1 { // -1: the pool's own default object registered under that name
						st.note("isolation|opt: request %d did not inject `other` but read other.V=%d", o.id, v)
					}
				} else if v != o.id+1000 {
					st.note("isolation|opt: request %d read other.V=%d, not its own", o.id, v)
				}
			}
		},
	}
}

func (st *poolState) issue(gp *engine.GenginePool, m *gx.PoolMethod, id int64, spec reqSpec, probe bool) *reqRec {
	rec := &reqRec{id: id, spec: spec, client: vsched.ThreadPath(), probe: probe, spawn0: vsched.SpawnCount(), spawn1: -1}
	st.recs = append(st.recs, rec)
	st.cur[rec.client] = rec
	data := map[string]interface{}{}
	resp := &PoolResp{}
	if !probe {
		div := int64(1)
		if spec.Mode == modeError {
			div = 0
		}
		mode := int64(spec.Mode)
		if spec.Mode == modeEmpty {
			mode = modeOK
		}
		req := &PoolReq{Id: id, Mode: mode, Div: div, NM: map[string]int64{}, Ret: 1}
		if spec.Mode == modeNoRet {
			req.Ret, req.Mode = 0, modeOK
		}
		if spec.Mode == modeNilMap {
			req.NM = nil
		}
		data["req"] = req
		data["resp"] = resp
		if spec.Other && !m.ReqResp {
			data["other"] = &PoolOther{V: id + 1000}
		}
	}
	p := gx.PoolCallParams{B: !st.cfg.StopOnErr, N: 1, M: 2, Names: []string{"r1", "r0", "r2"}, Dag: [][]string{{"r0"}, {"r1", "r2"}}}
	if st.cfg.NM[0] > 0 {
		p.N, p.M = st.cfg.NM[0], st.cfg.NM[1]
	}
	if spec.Mode == modeEmpty {
		p.Names, p.Dag = []string{}, [][]string{}
	}
	rec.err, rec.res, rec.pan = gx.PoolCallGuarded(m, gp, data, p)
	rec.resCopy = gx.CopyResult(rec.res)
	vsched.AccM(rec.res, vsched.SiteClientRead, false) // the client reads what it was handed (seen by the race monitor)
	rec.respID = resp.Id
	rec.spawn1 = vsched.SpawnCount()
	rec.done = true
	delete(st.cur, rec.client)
	st.log.Ev("ret", id)
	return rec
}

func poolScenario(cfg poolCfg) *hx.Scenario {
	m := gx.PoolMethodByName(cfg.Method)
	if m == nil {
		vsched.InternalError("unknown pool method %s", cfg.Method)
	}
	template, terr := engine.NewGenginePool(cfg.Min, cfg.Max, cfg.EM, poolRules, poolApis())
	if terr != nil {
		vsched.InternalError("NewGenginePool failed on the harness rule set: %v", terr)
	}
	fresh := os.Getenv("HX_FRESHPOOL") != ""
	return &hx.Scenario{
		Name: "pool",
		Cfg:  cfg,
		Opts: vsched.Options{Horizon: 20000},
		New:  func() interface{} { return &poolState{log: &gx.Log{}, cur: map[string]*reqRec{}, cfg: cfg} },
		Body: func(s interface{}) {
			st := s.(*poolState)
			activePool = st
			var gp *engine.GenginePool
			if fresh {
				// self-test mode: construct instead of cloning (outcome counts must not change)
				var err error
				gp, err = engine.NewGenginePool(cfg.Min, cfg.Max, cfg.EM, poolRules, poolApis())
				if err != nil {
					st.newErr = err
					return
				}
			} else {
				gp = gx.DeepClone(template).(*engine.GenginePool)
			}
			nextID := int64(0)
			for _, reqs := range cfg.Clients {
				reqs := reqs
				base := nextID
				nextID += int64(len(reqs))
				vsched.Go(func() {
					var mine []*reqRec
					for i, sp := range reqs {
						mine = append(mine, st.issue(gp, m, base+int64(i)+1, sp, false))
					}
					for _, r := range mine {
						vsched.AccM(r.res, vsched.SiteClientRead, false) // ... and may read it again at any later time
					}
				})
			}
			if cfg.Clear {
				vsched.Go(func() {
					vsched.WaitUntil(func() bool { return st.gateCnt >= int(cfg.Max) })
					gp.ClearPoolRules()
					st.gateOpen = true
					st.mgrErr = gp.UpdatePooledRules(poolRules)
				})
			}
			if cfg.GateAfter > 0 {
				vsched.WaitUntil(func() bool {
					n := 0
					for _, r := range st.recs {
						if r.done {
							n++
						}
					}
					// (all instances parked at the gate: nobody else can finish first, open it)
					return n >= cfg.GateAfter || st.gateCnt >= int(cfg.Max)
				})
				st.gateOpen = true
			}
			vsched.WaitOthersDone()
			st.gateOpen = false
			if !cfg.Phase2 {
				return
			}
			// conservation: the pool must still serve Max simultaneous requests
			vsched.Deterministic(true) // the probe phase examines the reached state; it is not itself explored
			st.log.Ev("phase2", 0)
			st.gateCnt = 0
			for i := int64(0); i < cfg.Max; i++ {
				id := 100 + i
				vsched.Go(func() { st.issue(gp, m, id, reqSpec{Mode: modeGate, Other: true}, false) })
			}
			vsched.WaitUntil(func() bool { return st.gateCnt == int(cfg.Max) })
			st.gateOpen = true
			vsched.WaitOthersDone()
			// staleness probes: a request that injects nothing must find nothing, on every instance
			st.gateOpen = false
			st.gateCnt = 0
			st.issue(gp, m, 200, reqSpec{}, true)
			for k := int64(1); k < cfg.Max; k++ {
				// hold k instances, probe the next one
				for i := int64(0); i < k; i++ {
					id := 300 + 10*k + i
					vsched.Go(func() { st.issue(gp, m, id, reqSpec{Mode: modeGate, Other: true}, false) })
				}
				want := int(k)
				vsched.WaitUntil(func() bool { return st.gateCnt == want })
				st.issue(gp, m, 200+k, reqSpec{}, true)
				st.gateOpen = true
				vsched.WaitOthersDone()
				st.gateOpen = false
				st.gateCnt = 0
			}
		},
		Check: func(s interface{}, ex *vsched.Exec) []hx.Finding {
			return poolOracle(cfg, m, s.(*poolState), ex)
		},
		Outcome: func(s interface{}) string {
			st := s.(*poolState)
			var sb strings.Builder
			sb.WriteString(st.log.String())
			for _, r := range st.recs {
				fmt.Fprintf(&sb, "|%d:%v:%v", r.id, r.err != nil, gx.ResultKeys(r.resCopy))
			}
			return sb.String()
		},
	}
}

func poolOracle(cfg poolCfg, m *gx.PoolMethod, st *poolState, ex *vsched.Exec) (fs []hx.Finding) {
	raw, _ := json.Marshal(cfg)
	desc := func() string {
		var sb strings.Builder
		fmt.Fprintf(&sb, "\n  cfg=%s\n  log=[%s]", raw, st.log)
		for _, r := range st.recs {
			fmt.Fprintf(&sb, "\n  req %d (mode %d other %v probe %v client %s): done=%v err=%v res=%v resp.Id=%d", r.id, r.spec.Mode, r.spec.Other, r.probe, r.client, r.done, r.err != nil, r.resCopy, r.respID)
		}
		return sb.String()
	}
	pfx := strings.ToLower(cfg.Prop) + ":"
	bad := func(sig, msg string) {
		fs = append(fs, hx.Finding{Sig: pfx + sig, Msg: msg + desc()})
	}
	if st.newErr != nil {
		vsched.InternalError("NewGenginePool failed on the harness rule set: %v", st.newErr)
	}
	isolation := cfg.Prop == "C06" || cfg.Prop == "C03"
	if ex.Verdict != "" {
		what := "execution did not complete: " + ex.Verdict + " " + firstLine(ex.Crash)
		if ex.Verdict != "crash" {
			what += " (a request waits forever: an engine instance was lost, or waiting does not make progress)"
		}
		bad(m.Name+":"+ex.Verdict, what)
		return
	}
	for _, r := range st.recs {
		if r.pan != nil {
			bad(m.Name+":panic", fmt.Sprintf("request %d: the pool call panicked: %v", r.id, r.pan))
			return
		}
		if !r.done {
			bad(m.Name+":request-incomplete", fmt.Sprintf("request %d never returned", r.id))
			return
		}
	}
	for _, n := range st.notes {
		if strings.HasPrefix(n, "late|") {
			bad(m.Name+":rule-running-after-return", n[5:])
			return
		}
	}
	if !isolation {
		if st.maxIn > int(cfg.Max) {
			bad(m.Name+":capacity", fmt.Sprintf("%d rule executions were in flight simultaneously, pool max is %d", st.maxIn, cfg.Max))
		}
		if st.mgrErr != nil {
			bad(m.Name+":manager", fmt.Sprintf("re-installing the rules after ClearPoolRules failed: %v", st.mgrErr))
		}
		// a request may fail only for its own reasons, never because of contention
		for _, r := range st.recs {
			if r.probe || (cfg.Clear && r.id < 100) {
				continue
			}
			wantErr := r.spec.Mode == modePanic || r.spec.Mode == modeError || r.spec.Mode == modeNilMap || !(r.spec.Other && !m.ReqResp)
			if m.Name == "ExecuteDAGModel" || strings.Contains(m.Name, "Selected") || strings.Contains(m.Name, "NSort") || strings.Contains(m.Name, "NConc") || strings.Contains(m.Name, "Mix") {
				// these models may legitimately skip r2 (stop policy / window): only a spurious error is judged
				if r.err != nil && !wantErr {
					bad(m.Name+":spurious-error", fmt.Sprintf("request %d failed although nothing in it fails: %v", r.id, r.err))
				}
				continue
			}
			mustErr := r.spec.Mode == modePanic || r.spec.Mode == modeError || r.spec.Mode == modeNilMap
			// a request that does not inject `other` finds the pool's default object under that name on an
			// instance no request has used yet, and nothing afterwards: either outcome is gengine's documented
			// behaviour (request data replaces an api of the same name and is deleted with the request)
			if (mustErr && r.err == nil) || (!wantErr && r.err != nil) {
				bad(m.Name+":error-mismatch", fmt.Sprintf("request %d: error=%v, expected error=%v (requests must wait for an instance, not fail; failures must be reported)", r.id, r.err, wantErr))
			}
		}
		// every request's rule body ran exactly once
		for _, r := range st.recs {
			if r.probe || (cfg.Clear && r.id < 100) {
				continue
			}
			if st.log.Count("in", r.id) != 1 {
				bad(m.Name+":request-ran-wrong-count", fmt.Sprintf("request %d: rule r0 started %d times", r.id, st.log.Count("in", r.id)))
			}
		}
		return
	}
	// ---- C06 isolation ----
	seenNote := map[string]bool{}
	for _, n := range st.notes {
		sp := strings.SplitN(n, "|", 2)
		if !seenNote[sp[0]] {
			seenNote[sp[0]] = true
			bad(m.Name+":"+sp[0], sp[1])
		}
	}
	for _, r := range st.recs {
		if r.probe {
			for k, v := range r.resCopy {
				if v != nil {
					bad(m.Name+":probe-result", fmt.Sprintf("probe request %d injected nothing but its result map holds %s=%v (a value computed from another request's data)", r.id, k, v))
				}
			}
			continue
		}
		if r.err != nil && r.spec.Mode != modePanic && r.spec.Mode != modeError && r.spec.Mode != modeNilMap && r.spec.Other && !m.ReqResp && r.spec.Mode != modeEmpty {
			bad(m.Name+":healthy-request-failed", fmt.Sprintf("request %d fails nowhere and injects everything its rules read, yet the call returned an error (its data went away under it): %v", r.id, r.err))
		}
		if r.respID != r.id && !(r.spec.Mode == modeEmpty && st.log.Count("in", r.id) == 0) {
			bad(m.Name+":resp", fmt.Sprintf("request %d: host response object holds Id=%d after the call", r.id, r.respID))
		}
		for k, v := range r.resCopy {
			want := map[string]int64{"r0": r.id, "r1": r.id + 100, "r2": r.id + 200}
			w, ok := want[k]
			if !ok || v != interface{}(w) {
				bad(m.Name+":result-value", fmt.Sprintf("request %d: result map entry %s=%v is not computed from this request (want %d)", r.id, k, v, w))
			}
		}
		if k, v := mapDiff(r.res, r.resCopy); k != "" {
			bad(m.Name+":result-modified-later", fmt.Sprintf("request %d: the result map handed back was modified after the call returned (key %s now %v)", r.id, k, v))
		}
	}
	return
}

func mapDiff(now, then map[string]interface{}) (string, interface{}) {
	var keys []string
	for k := range now {
		keys = append(keys, k)
	}
	for k := range then {
		if _, ok := now[k]; !ok {
			keys = append(keys, k)
		}
	}
	sort.Strings(keys)
	for _, k := range keys {
		a, oka := now[k]
		b, okb := then[k]
		if oka != okb || a != b {
			return k, a
		}
	}
	return "", nil
}

func rebuildPool(v *hx.Violation) *hx.Scenario {
	var cfg poolCfg
	if err := json.Unmarshal(v.Cfg, &cfg); err != nil {
		return nil
	}
	return poolScenario(cfg)
}
