package main

import (
	"os"
	"strconv"
	"time"

	"verif/harness/hx"
)

// C05 - mix / inverse-mix / N-M models: stage barriers hold, scheduled rules run exactly once.

func salPattern(kind string, n int) []int64 {
	s := make([]int64, n)
	for i := range s {
		switch kind {
		case "desc":
			s[i] = int64(10 - i)
		case "asc":
			s[i] = int64(i - 2) // includes negative and zero saliences
		case "pairs":
			s[i] = int64(10 - 2*(i/2))
		case "flat":
			s[i] = 7
		}
	}
	return s
}

func c05Configs(thorough bool) []modelCfg {
	maxN, maxFail := 4, 1
	pats := []string{"desc", "asc", "pairs"}
	if thorough {
		maxN, maxFail = 5, 2
		pats = append(pats, "flat")
	}
	type mdl struct {
		name    string
		nm, sel bool
	}
	mdls := []mdl{
		{"ExecuteMixModel", false, false}, {"ExecuteInverseMixModel", false, false},
		{"ExecuteNSortMConcurrent", true, false}, {"ExecuteNConcurrentMSort", true, false}, {"ExecuteNConcurrentMConcurrent", true, false},
		{"ExecuteSelectedRulesMixModel", false, true}, {"ExecuteSelectedRulesInverseMixModel", false, true},
		{"ExecuteSelectedNSortMConcurrent", true, true}, {"ExecuteSelectedNConcurrentMSort", true, true}, {"ExecuteSelectedNConcurrentMConcurrent", true, true},
	}
	var out []modelCfg
	for _, m := range mdls {
		for n := 1; n <= maxN; n++ {
			for _, pat := range pats {
				if pat == "flat" && n > 4 {
					continue
				}
				sal := salPattern(pat, n)
				for _, fail := range subsetsUpTo(n, maxFail) {
					var rules []ruleCfg
					for i := 0; i < n; i++ {
						rules = append(rules, ruleCfg{Name: ruleNames[i], Sal: sal[i], Fail: fail[i]})
					}
					nms := [][2]int{{0, 0}}
					bs := []bool{false}
					if m.nm {
						nms = [][2]int{{1, 1}, {1, 2}, {2, 1}, {2, 2}}
						bs = []bool{false, true}
					}
					// the same failing subsets once more with a real fault (an ill-typed store into an
					// injected field, which panics inside reflect) instead of the panicking observer
					variants := [][]ruleCfg{rules}
					if n == 3 && pat == "desc" {
						var real []ruleCfg
						any := false
						for _, r := range rules {
							if r.Fail {
								r.Fail, r.Fault = false, `cnt.C6 = "x"`
								any = true
							}
							real = append(real, r)
						}
						if any {
							variants = append(variants, real)
							// ... and by the expression of their top-level return
							var ret []ruleCfg
							for _, r := range real {
								if r.Fault != "" {
									r.Fault = "return nosuch(1)"
								}
								ret = append(ret, r)
							}
							variants = append(variants, ret)
						}
					}
					for _, nm := range nms {
						for _, b := range bs {
							for _, rules := range variants {
								cfg := modelCfg{Prop: "C05", Rules: rules, Model: m.name, B: b, N: nm[0], M: nm[1]}
								if n >= 5 {
									cfg.Sched = 2 // five rules: preemption bound 2 also in the thorough tier (bound 3 does not finish)
								}
								if m.sel {
									k := n
									if m.nm {
										// selected N-M needs exactly N+M names; also probe one name too many / too few
										k = nm[0] + nm[1]
										if k > n {
											k = n
										}
									}
									// names in rotated order so that the given order differs from the salience order
									for i := 0; i < k; i++ {
										cfg.Names = append(cfg.Names, ruleNames[(i+1)%k])
									}
									if pat == "pairs" && m.nm {
										continue // ties straddling the selected window boundary are left open by the statement
									}
								}
								out = append(out, cfg)
							}
						}
					}
				}
			}
		}
	}
	return out
}

// thoroughExtra: one more deviation in the thorough tier (for scenarios small enough to afford it).
func thoroughExtra(c *hx.Ctx) int {
	if c.Thorough() {
		return 1
	}
	return 0
}

func envBound(def int) int {
	if b := os.Getenv("HX_BOUND"); b != "" {
		n, _ := strconv.Atoi(b)
		return n
	}
	return def
}

func runModelConfigs(c *hx.Ctx, prop string, cfgs []modelCfg, bound int) {
	for i, cfg := range cfgs {
		if !c.Mine(i) {
			continue
		}
		if c.Expired() {
			c.Res.Capped = append(c.Res.Capped, "time budget before all configurations")
			break
		}
		b := bound
		if cfg.Sched > 0 {
			b = cfg.Sched
		}
		hx.Explore(prop, modelScenario(cfg), hx.ExploreCfg{Bound: b, Prune: true, Deadline: c.Deadline}, c.Res)
	}
}

func init() {
	hx.Register(&hx.Prop{
		ID:          "C05",
		Workers:     func(string) int { return 16 },
		BudgetQuick: 300 * time.Second,
		BudgetThor:  25 * time.Minute,
		Kind:        "schedules",
		Rule: "models {mix, inverse-mix, N-sort-M-conc, N-conc-M-sort, N-conc-M-conc and their selected twins} x 1..4(5) rules x salience patterns {descending, ascending incl. negative, tied pairs, (all tied)} x failing subsets of size <=1(2) (for 3 rules also failing by a real fault - an ill-typed store into an injected field, a failing top-level return expression - instead of the panicking observer) x (N,M) in {1,2}^2 x both policy values; " +
			"every schedule up to the preemption bound (quick 2, thorough 3; five rules: 2) on the real engine; oracle = staged reference plan (barrier, exactly-once, sorted order, stop policy, error iff failure), any order among equal saliences accepted",
		Assume: []string{"injected observer functions terminate", "sequentially consistent memory (races are C19's subject)"},
		Run: func(c *hx.Ctx) {
			b := 2
			if c.Thorough() {
				b = 3
			}
			runModelConfigs(c, "C05", c05Configs(c.Thorough()), envBound(b))
		},
		Rebuild: rebuildModel,
	})
}

// exploreShared explores scenario number i of a check: configurations with a real schedule space
// (bound >= 1) are explored by ALL workers together (level-1 subtrees dealt round-robin, which
// balances the load far better than dealing whole configurations); trivial ones are dealt one per worker.
func exploreShared(c *hx.Ctx, prop string, i int, sc func() *hx.Scenario, ec hx.ExploreCfg) {
	if ec.Bound != 0 && !ec.DefaultOnly {
		ec.Shard, ec.NShards = c.Shard, c.NShards
		hx.Explore(prop, sc(), ec, c.Res)
		return
	}
	if c.Mine(i) {
		hx.Explore(prop, sc(), ec, c.Res)
	}
}

// delayBound: scenarios with many short-lived threads (pool requests, put goroutines, conc blocks)
// are explored with delay bounding: 2 deviations quick, 3 thorough; configurations marked 0 keep 0.
func delayBound(c *hx.Ctx, b int) int {
	// 0 = no exploration; 1 or 2 = "explore" = two deviations in both tiers; a configuration that wants
	// a third deviation (thorough tier, selected configurations only - see DESIGN A.5) says 3 itself
	if b == 0 {
		return 0
	}
	if b >= 3 {
		return b
	}
	return 2
}
