package main

import (
	"time"

	"verif/harness/hx"
)

// C04 - sort model: strict priority order, exactly once, documented error policy.

func permutations(n int) [][]int {
	if n == 0 {
		return [][]int{{}}
	}
	var out [][]int
	for _, p := range permutations(n - 1) {
		for i := 0; i <= len(p); i++ {
			q := append(append(append([]int{}, p[:i]...), n-1), p[i:]...)
			out = append(out, q)
		}
	}
	return out
}

func c04Configs(thorough bool) []modelCfg {
	maxN := 4
	if thorough {
		maxN = 5
	}
	// salience alphabet: -1, 0, 2, absent (= 0)
	type sal struct {
		v     int64
		nosal bool
	}
	alpha := []sal{{-1, false}, {0, false}, {2, false}, {0, true}}
	var out []modelCfg
	for n := 1; n <= maxN; n++ {
		total := 1
		for i := 0; i < n; i++ {
			total *= len(alpha)
		}
		for code := 0; code < total; code++ {
			var base []ruleCfg
			c := code
			for i := 0; i < n; i++ {
				a := alpha[c%len(alpha)]
				c /= len(alpha)
				base = append(base, ruleCfg{Name: ruleNames[i], Sal: a.v, NoSal: a.nosal})
			}
			maxFail := n
			if n == 5 {
				maxFail = 2
			}
			for _, fail := range subsetsUpTo(n, maxFail) {
				rules := append([]ruleCfg{}, base...)
				for i := range rules {
					rules[i].Fail = fail[i]
				}
				for _, b := range []bool{true, false} {
					out = append(out, modelCfg{Prop: "C04", Rules: rules, Model: "Execute", B: b, Twice: b && n <= 2})
					names := append([]string{}, ruleNames[:n]...)
					// given order rotated: the sorted selected variants must re-sort
					names = append(names[1:], names[0])
					out = append(out, modelCfg{Prop: "C04", Rules: rules, Model: "ExecuteSelectedRulesWithControl", B: b, Names: names})
					if b {
						out = append(out, modelCfg{Prop: "C04", Rules: rules, Model: "ExecuteSelectedRules", B: true, Names: names})
					}
				}
			}
			// arrival histories (no failing rule): every insertion order through incremental builds,
			// and an incremental salience change of every rule from every other alphabet value
			if n <= 3 || (thorough && n <= 4) {
				for _, perm := range permutations(n) {
					if n == 1 {
						break
					}
					out = append(out, modelCfg{Prop: "C04", Rules: base, Model: "Execute", B: true, Arrive: perm})
				}
				for i := 0; i < n; i++ {
					for _, old := range []int64{-1, 0, 2, 5} {
						if old != base[i].Sal {
							out = append(out, modelCfg{Prop: "C04", Rules: base, Model: "Execute", B: true, Resal: []int64{int64(i), old}})
						}
					}
				}
			}
		}
	}
	return out
}

func init() {
	hx.Register(&hx.Prop{
		ID:          "C04",
		Workers:     func(string) int { return 16 },
		BudgetQuick: 150 * time.Second,
		BudgetThor:  25 * time.Minute,
		Kind:        "schedules",
		Rule: "all rule sets of 1..4(5) rules with saliences from {-1, 0, 2, absent} (every pattern incl. ties/negatives) x every failing subset x both policy values x {Execute, ExecuteSelectedRules, ExecuteSelectedRulesWithControl}; " +
			"plus arrival histories: every insertion order via BuildRuleWithIncremental and every incremental salience change; each case is one deterministic execution on the real engine judged against the staged reference plan (one-at-a-time, non-increasing salience, exactly once, stop/continue policy, error iff failure, per-rule effect counters)",
		Assume:  []string{"injected observer functions terminate"},
		Run:     func(c *hx.Ctx) { runModelConfigs(c, "C04", c04Configs(c.Thorough()), 0) },
		Rebuild: rebuildModel,
	})
}
