package main

import (
	"fmt"
	"os"
	"strings"
	"time"

	"github.com/bilibili/gengine/builder"
	"github.com/bilibili/gengine/verifrt/vsched"

	"verif/harness/hx"
)

// C04 - sort model: strict priority order, exactly once, documented error policy.

func permutations(n int) [][]int {
	if n == 0 {
		return [][]int{{}}
	}
	var out [][]int
	for _, p := range permutations(n - 1) {
		for i := 0; i <= len(p); i++ {
			q := append(append(append([]int{}, p[:i]...), n-1), p[i:]...)
			out = append(out, q)
		}
	}
	return out
}

func c04Configs(thorough bool) []modelCfg {
	maxN := 4
	if thorough {
		maxN = 5
	}
	// salience alphabet: -1, 0, 2, absent (= 0)
	type sal struct {
		v     int64
		nosal bool
	}
	alpha := []sal{{-1, false}, {0, false}, {2, false}, {0, true}}
	var out []modelCfg
	for n := 1; n <= maxN; n++ {
		total := 1
		for i := 0; i < n; i++ {
			total *= len(alpha)
		}
		for code := 0; code < total; code++ {
			var base []ruleCfg
			c := code
			for i := 0; i < n; i++ {
				a := alpha[c%len(alpha)]
				c /= len(alpha)
				base = append(base, ruleCfg{Name: ruleNames[i], Sal: a.v, NoSal: a.nosal})
			}
			maxFail := n
			if n == 5 {
				maxFail = 2
			}
			for _, fail := range subsetsUpTo(n, maxFail) {
				rules := append([]ruleCfg{}, base...)
				for i := range rules {
					rules[i].Fail = fail[i]
				}
				for _, b := range []bool{true, false} {
					out = append(out, modelCfg{Prop: "C04", Rules: rules, Model: "Execute", B: b, Twice: b && n <= 2})
					names := append([]string{}, ruleNames[:n]...)
					// given order rotated: the sorted selected variants must re-sort
					names = append(names[1:], names[0])
					out = append(out, modelCfg{Prop: "C04", Rules: rules, Model: "ExecuteSelectedRulesWithControl", B: b, Names: names})
					if b {
						out = append(out, modelCfg{Prop: "C04", Rules: rules, Model: "ExecuteSelectedRules", B: true, Names: names})
					}
				}
			}
			// arrival histories (no failing rule): every insertion order through incremental builds,
			// and an incremental salience change of every rule from every other alphabet value
			if n <= 3 || (thorough && n <= 4) {
				for _, perm := range permutations(n) {
					if n == 1 {
						break
					}
					out = append(out, modelCfg{Prop: "C04", Rules: base, Model: "Execute", B: true, Arrive: perm})
				}
				for i := 0; i < n; i++ {
					for _, old := range []int64{-1, 0, 2, 5} {
						if old != base[i].Sal {
							out = append(out, modelCfg{Prop: "C04", Rules: base, Model: "Execute", B: true, Resal: []int64{int64(i), old}})
						}
					}
				}
			}
		}
	}
	// real fault kinds instead of the panicking observer: what makes a rule fail must not matter to the
	// policy (nor leave anything behind for the next rule or the next call on the same data context)
	faults := []string{`cnt.C6 = "x"`, `cnt.C6 = 1 / 0`, `nosuch(1)`, `cnt.Nope = 1`, `cnt.C6 = cnt.C5 + "x"`}
	for n := 2; n <= 3; n++ {
		sal := salPattern("desc", n)
		for _, fail := range subsetsUpTo(n, n) {
			for _, ft := range faults {
				var rules []ruleCfg
				any := false
				for i := 0; i < n; i++ {
					r := ruleCfg{Name: ruleNames[i], Sal: sal[i]}
					if fail[i] {
						r.Fault = ft
						any = true
					}
					rules = append(rules, r)
				}
				if !any {
					continue
				}
				for _, b := range []bool{true, false} {
					for _, same := range []bool{false, true} {
						out = append(out, modelCfg{Prop: "C04", Rules: rules, Model: "Execute", B: b, Twice: true, SameDc: same})
						names := append([]string{}, ruleNames[:n]...)
						names = append(names[1:], names[0])
						out = append(out, modelCfg{Prop: "C04", Rules: rules, Model: "ExecuteSelectedRulesWithControl", B: b, Names: names, Twice: true, SameDc: same})
					}
				}
			}
		}
	}
	// a rule that fails inside a conc block (its members run on goroutines of their own): every schedule
	// with <=2 preemptions; the policy must see the failure whichever member finishes last
	for _, ft := range []string{"conc {\n    cnt.C6 = 1 / 0\n    cnt.C5 = 2\n  }", "conc {\n    nosuch(1)\n    cnt.C5 = 2\n  }"} {
		for _, pos := range []int{0, 1} {
			rules := []ruleCfg{{Name: ruleNames[0], Sal: 9}, {Name: ruleNames[1], Sal: 6}, {Name: ruleNames[2], Sal: 3}}
			rules[pos].Fault = ft
			for _, b := range []bool{true, false} {
				out = append(out, modelCfg{Prop: "C04", Rules: rules, Model: "Execute", B: b, Sched: 2})
			}
		}
	}
	// several rules per incremental call (adds in front of / between existing rules together with
	// replacements and salience changes of existing rules), every map-iteration order inside the builds
	mk := func(v ...int64) []ruleCfg {
		var rs []ruleCfg
		for i, x := range v {
			rs = append(rs, ruleCfg{Name: ruleNames[i], Sal: x})
		}
		return rs
	}
	type grp struct {
		rules  []ruleCfg
		groups [][]int
		pre    []int64
	}
	gs := []grp{
		{mk(30, 20, 10, 50), [][]int{{0, 1, 2}, {3, 2}}, nil},                    // add r3 in front + replace r2 in one call
		{mk(30, 20, 10, 15), [][]int{{0, 1, 2}, {3, 1}}, nil},                    // add in the middle + replace
		{mk(30, 20, 25, 50), [][]int{{0, 1, 2}, {3, 2}}, []int64{30, 20, 10, 0}}, // add in front + move r2 up
		{mk(5, 20, 10, 1), [][]int{{0, 1, 2}, {0, 3}}, []int64{30, 20, 10, 0}},   // move r0 down + add at the end
		{mk(30, 20, 10, 40, 50), [][]int{{0, 1, 2}, {3, 4, 1}}, nil},             // two adds + replace
		{mk(30, 30, 10, 30), [][]int{{0, 1, 2}, {3, 0}}, nil},                    // ties
		{mk(30, 20, 10, 50), [][]int{{0, 1}, {2, 3}, {1, 3}}, nil},               // two incremental calls
		{mk(7, 20, 25, 50, 2), [][]int{{0, 1, 2}, {3, 2, 0}, {4, 1}}, []int64{30, 20, 10, 0, 0}},
	}
	if thorough {
		gs = append(gs,
			grp{mk(30, 20, 10, 5, 50, 25), [][]int{{0, 1, 2, 3}, {4, 5, 2, 1}}, nil},
			grp{mk(1, 2, 3, 4), [][]int{{0, 1, 2, 3}, {0, 1, 2, 3}}, []int64{4, 3, 2, 1}},
		)
	}
	for _, g := range gs {
		for _, b := range []bool{true, false} {
			out = append(out, modelCfg{Prop: "C04", Rules: g.rules, Model: "Execute", B: b, Groups: g.groups, Pre: g.pre})
		}
	}
	return out
}

func c04BuilderSites() map[int32]bool {
	sites := map[int32]bool{}
	for i, s := range vsched.SiteTable {
		if strings.HasPrefix(s.File, "builder/") && !s.Write && !strings.HasPrefix(s.Expr, "builder.") {
			sites[int32(i)] = true
		}
	}
	return sites
}

func init() {
	hx.Register(&hx.Prop{
		ID:          "C04",
		Workers:     func(string) int { return 16 },
		BudgetQuick: 300 * time.Second,
		BudgetThor:  25 * time.Minute,
		Kind:        "schedules",
		Rule: "all rule sets of 1..4(5) rules with saliences from {-1, 0, 2, absent} (every pattern incl. ties/negatives) x every failing subset x both policy values x {Execute, ExecuteSelectedRules, ExecuteSelectedRulesWithControl}; the same with five real fault kinds (ill-typed store into an injected field, division by zero, unknown function, unknown field, ill-typed operand) instead of the panicking observer (and by a failing member of a conc block, under every schedule with <=2 preemptions), each call made twice on the same engine (with a data context of its own / on the same builder and data context); " +
			"plus arrival histories: every insertion order via BuildRuleWithIncremental, every incremental salience change, and incremental calls carrying several rules at once (adds mixed with replacements and salience changes) under every map-iteration order inside the builds; each case is one deterministic execution on the real engine judged against the staged reference plan (one-at-a-time, non-increasing salience, exactly once, stop/continue policy, error iff failure, per-rule effect counters)",
		Assume: []string{"injected observer functions terminate"},
		Run: func(c *hx.Ctx) {
			var plain, grouped []modelCfg
			for _, cfg := range c04Configs(c.Thorough()) {
				if cfg.Groups != nil {
					grouped = append(grouped, cfg)
				} else {
					plain = append(plain, cfg)
				}
			}
			runModelConfigs(c, "C04", plain, 0)
			opts := vsched.Options{MapChoices: true, MapSites: c04BuilderSites()}
			for i, cfg := range grouped {
				if !c.Mine(i) {
					continue
				}
				cfg := cfg
				var rb *builder.RuleBuilder
				nenv := 0
				defer func() {
					if os.Getenv("HX_DEBUG") != "" {
						fmt.Fprintf(os.Stderr, "DEBUG grouped %v env=%d\n", cfg.Groups, nenv)
					}
				}()
				var failure string
				hx.EnvRuns(opts, func() { rb, failure = cfg.buildGroups() }, func(choices []int32) {
					if failure != "" {
						cc := cfg
						cc.Env = append([]int32{}, choices...)
						c.Res.Report("C04", "model", cc, nil, []hx.Finding{{Sig: "c04:grouped-build-panicked", Msg: failure + fmt.Sprintf("\n  groups=%v env=%v", cfg.Groups, choices)}})
						return
					}
					nenv++
					if os.Getenv("HX_DEBUG") != "" {
						fmt.Fprintf(os.Stderr, "DEBUG env %v sortrules=%d entities=%d\n", choices, len(rb.Kc.SortRules), len(rb.Kc.RuleEntities))
					}
					cc := cfg
					cc.Env = append([]int32{}, choices...)
					hx.Explore("C04", modelScenarioWith(cc, rb), hx.ExploreCfg{Bound: 0, Deadline: c.Deadline}, c.Res)
				})
			}
		},
		Rebuild: rebuildModel,
	})
}
