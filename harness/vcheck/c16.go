package main

import (
	"encoding/json"
	"fmt"
	"sort"
	"strings"
	"time"

	"github.com/bilibili/gengine/engine"
	"github.com/bilibili/gengine/verifrt/vsched"

	"verif/harness/gx"
	"verif/harness/hx"
	"verif/harness/ref"
)

// C16 - pool management operations and queries agree with the denoted rule set.
//
// Every sequence of management operations up to a length bound is applied to a pool (the pool object
// is cloned at every node of the sequence tree, so a sequence of length n costs one operation, not n);
// after EVERY prefix all queries are compared with the reference and an execution is forced onto
// EVERY engine instance (max requests are held inside their first rule simultaneously).

type c16Rule struct {
	Name string
	Sal  int64
	Tag  string
}

func c16Text(rs []c16Rule) string {
	var sb strings.Builder
	for _, r := range rs {
		fmt.Fprintf(&sb, "rule \"%s\" \"desc-%s\" salience %d begin\n  gate(\"%s\")\n  return \"%s\"\nend\n", r.Name, r.Tag, r.Sal, r.Tag, r.Tag)
	}
	return sb.String()
}

func c16Set(rs []c16Rule) ref.RuleSet {
	s := ref.RuleSet{}
	for _, r := range rs {
		s[r.Name] = ref.RuleInfo{Salience: r.Sal, Desc: "desc-" + r.Tag, BodyTag: r.Tag}
	}
	return s
}

var (
	c16Init  = []c16Rule{{"a", 3, "a-v0"}, {"b", 2, "b-v0"}}
	c16A     = []c16Rule{{"a", 3, "a-vA"}, {"b", 2, "b-vA"}, {"c", 1, "c-vA"}}
	c16B     = []c16Rule{{"b", 5, "b-vB"}, {"d", 0, "d-vB"}}
	c16Batch = []c16Rule{{"a", -1, "a-i4"}, {"b", 7, "b-i5"}, {"f", 4, "f-i6"}}
)

type c16Op struct {
	Name  string
	Apply func(gp *engine.GenginePool) error
	Ref   func(s *c16Ref) bool // returns whether the operation must succeed
}

type c16Ref struct {
	Set     ref.RuleSet
	Cleared bool
	EM      int
}

func (r c16Ref) clone() c16Ref { return c16Ref{r.Set.Clone(), r.Cleared, r.EM} }

var c16Ops = []c16Op{
	{"Full(A)", func(gp *engine.GenginePool) error { return gp.UpdatePooledRules(c16Text(c16A)) },
		func(s *c16Ref) bool { s.Set, s.Cleared = c16Set(c16A), false; return true }},
	{"Full(B)", func(gp *engine.GenginePool) error { return gp.UpdatePooledRules(c16Text(c16B)) },
		func(s *c16Ref) bool { s.Set, s.Cleared = c16Set(c16B), false; return true }},
	{"Incr(new e)", func(gp *engine.GenginePool) error {
		return gp.UpdatePooledRulesIncremental(c16Text([]c16Rule{{"e", 2, "e-i1"}}))
	}, func(s *c16Ref) bool {
		s.Set, s.Cleared = ref.Merge(s.Set, c16Set([]c16Rule{{"e", 2, "e-i1"}})), false
		return true
	}},
	{"Incr(a same salience)", func(gp *engine.GenginePool) error {
		return gp.UpdatePooledRulesIncremental(c16Text([]c16Rule{{"a", 3, "a-i2"}}))
	}, func(s *c16Ref) bool {
		s.Set, s.Cleared = ref.Merge(s.Set, c16Set([]c16Rule{{"a", 3, "a-i2"}})), false
		return true
	}},
	{"Incr(b new salience)", func(gp *engine.GenginePool) error {
		return gp.UpdatePooledRulesIncremental(c16Text([]c16Rule{{"b", 9, "b-i3"}}))
	}, func(s *c16Ref) bool {
		s.Set, s.Cleared = ref.Merge(s.Set, c16Set([]c16Rule{{"b", 9, "b-i3"}})), false
		return true
	}},
	// one incremental call that moves two existing rules past each other and adds a third between them
	{"Incr(a down, b up, new f)", func(gp *engine.GenginePool) error {
		return gp.UpdatePooledRulesIncremental(c16Text(c16Batch))
	}, func(s *c16Ref) bool {
		s.Set, s.Cleared = ref.Merge(s.Set, c16Set(c16Batch)), false
		return true
	}},
	{"Remove(a)", func(gp *engine.GenginePool) error { return gp.RemoveRules([]string{"a"}) },
		func(s *c16Ref) bool { s.Set = ref.Remove(s.Set, []string{"a"}); return true }},
	{"Remove(zz)", func(gp *engine.GenginePool) error { return gp.RemoveRules([]string{"zz"}) },
		func(s *c16Ref) bool { return true }},
	{"Remove(b,zz,c)", func(gp *engine.GenginePool) error { return gp.RemoveRules([]string{"b", "zz", "c"}) },
		func(s *c16Ref) bool { s.Set = ref.Remove(s.Set, []string{"b", "zz", "c"}); return true }},
	{"Clear", func(gp *engine.GenginePool) error { gp.ClearPoolRules(); return nil },
		func(s *c16Ref) bool { s.Set, s.Cleared = ref.RuleSet{}, true; return true }},
	{"SetExecModel(concurrent)", func(gp *engine.GenginePool) error { return gp.SetExecModel(engine.ConcurrentModel) },
		func(s *c16Ref) bool { s.EM = engine.ConcurrentModel; return true }},
	{"SetExecModel(7)", func(gp *engine.GenginePool) error { return gp.SetExecModel(7) },
		func(s *c16Ref) bool { return false }},
	{"Incr(syntax error)", func(gp *engine.GenginePool) error {
		return gp.UpdatePooledRulesIncremental("rule \"a\" begin x = = end")
	}, func(s *c16Ref) bool { return false }},
	{"Full(syntax error)", func(gp *engine.GenginePool) error {
		return gp.UpdatePooledRules("rule \"a\" begin x = = end")
	}, func(s *c16Ref) bool { return false }},
}

// ---- probing a pool state ----

type c16Probe struct {
	open    bool
	blocked map[string]bool // client thread path -> blocked at the gate
	events  map[string][]string
	results []map[string]interface{}
	errs    []error
	pans    []interface{}
}

var c16Active *c16Probe

func c16Apis() map[string]interface{} {
	return map[string]interface{}{
		"gate": func(tag string) {
			p := c16Active
			if p == nil {
				return
			}
			client := vsched.ThreadPath()
			if parts := strings.Split(client, "."); len(parts) > 2 {
				client = strings.Join(parts[:2], ".")
			}
			vsched.Obs()
			if vsched.Aborted() {
				return
			}
			p.events[client] = append(p.events[client], tag)
			if !p.open {
				p.blocked[client] = true
				vsched.WaitUntil(func() bool { return p.open })
			}
		},
	}
}

// probe returns a complaint ("" = the state agrees with the reference)
func c16ProbeState(gp *engine.GenginePool, want c16Ref, max int) (string, string) {
	// queries
	names := []string{"a", "b", "c", "d", "e", "zz"}
	ex := gp.IsExist(names)
	for i, n := range names {
		_, w := want.Set[n]
		if ex[i] != w {
			return "query-isexist", fmt.Sprintf("IsExist(%q) = %v, the denoted set %s", n, ex[i], want.Set)
		}
		sal, e1 := gp.GetRuleSalience(n)
		desc, e2 := gp.GetRuleDesc(n)
		if w {
			if e1 != nil || e2 != nil || sal != want.Set[n].Salience || desc != want.Set[n].Desc {
				return "query-salience-desc", fmt.Sprintf("rule %q: salience %d (%v) description %q (%v), denoted %d / %q", n, sal, e1, desc, e2, want.Set[n].Salience, want.Set[n].Desc)
			}
		} else if e1 == nil || e2 == nil {
			return "query-absent-rule", fmt.Sprintf("rule %q is not in the denoted set but its salience/description query succeeded", n)
		}
	}
	if n := gp.GetRulesNumber(); n != len(want.Set) {
		return "query-number", fmt.Sprintf("GetRulesNumber() = %d, the denoted set has %d rules", n, len(want.Set))
	}
	if em := gp.GetExecModel(); em != want.EM {
		return "query-execmodel", fmt.Sprintf("GetExecModel() = %d, denoted %d", em, want.EM)
	}
	// executions forced onto every instance (on a clone: probing must not change the state)
	pc := gx.DeepClone(gp).(*engine.GenginePool)
	p := &c16Probe{blocked: map[string]bool{}, events: map[string][]string{}, results: make([]map[string]interface{}, max), errs: make([]error, max), pans: make([]interface{}, max)}
	c16Active = p
	expectBlocked := 0
	if len(want.Set) > 0 && !want.Cleared {
		expectBlocked = max
	}
	ex2 := vsched.Run(vsched.Options{Horizon: 50000}, nil, func() {
		for i := 0; i < max; i++ {
			i := i
			vsched.Go(func() {
				var res map[string]interface{}
				p.errs[i], p.pans[i] = gx.CallGuarded(func() error {
					e, r := pc.ExecuteRulesWithMultiInputWithSpecifiedEM(map[string]interface{}{"k": int64(i)})
					res = r
					return e
				})
				p.results[i] = gx.CopyResult(res)
			})
		}
		vsched.WaitUntil(func() bool { return len(p.blocked) == expectBlocked })
		p.open = true
		vsched.WaitOthersDone()
	})
	c16Active = nil
	if ex2.Verdict != "" {
		return "exec-" + ex2.Verdict, fmt.Sprintf("forcing one execution onto each of the %d instances did not complete: %s %s (blocked inside a rule: %d, expected %d)", max, ex2.Verdict, firstLine(ex2.Crash), len(p.blocked), expectBlocked)
	}
	wantRes := map[string]interface{}{}
	var order []string
	for _, n := range want.Set.Names() {
		wantRes[n] = want.Set[n].BodyTag
		order = append(order, n)
	}
	sort.SliceStable(order, func(i, j int) bool { return want.Set[order[i]].Salience > want.Set[order[j]].Salience })
	var clients []string
	for c := range p.events {
		clients = append(clients, c)
	}
	sort.Strings(clients)
	for i := 0; i < max; i++ {
		if p.pans[i] != nil {
			return "exec-panic", fmt.Sprintf("execution %d panicked: %v", i, p.pans[i])
		}
		if c := sameResult(p.results[i], wantRes); c != "" {
			return "exec-result", fmt.Sprintf("execution on instance #%d: %s (result %v, denoted set %s)", i, c, p.results[i], want.Set)
		}
		if len(want.Set) > 0 && !want.Cleared && p.errs[i] != nil {
			return "exec-error", fmt.Sprintf("execution %d failed: %v", i, p.errs[i])
		}
		if want.Cleared && p.errs[i] != nil {
			return "exec-cleared-error", fmt.Sprintf("execution on a cleared pool returned an error: %v", p.errs[i])
		}
	}
	if len(clients) != expectBlocked {
		return "exec-instances", fmt.Sprintf("%d executions ran rules, expected %d", len(clients), expectBlocked)
	}
	for _, c := range clients {
		ev := p.events[c]
		if len(ev) != len(want.Set) {
			return "exec-rules-run", fmt.Sprintf("an execution ran %d rule bodies %v, the denoted set has %d", len(ev), ev, len(want.Set))
		}
		if want.EM == engine.SortModel {
			for i := 1; i < len(ev); i++ {
				if salOfTag(want.Set, ev[i-1]) < salOfTag(want.Set, ev[i]) {
					return "exec-order", fmt.Sprintf("sort-model execution order %v is not non-increasing in the current saliences", ev)
				}
			}
		}
	}
	return "", ""
}

func salOfTag(s ref.RuleSet, tag string) int64 {
	for _, r := range s {
		if r.BodyTag == tag {
			return r.Salience
		}
	}
	return -1 << 62
}

type c16Case struct {
	Min  int64 `json:"min"`
	Max  int64 `json:"max"`
	Path []int `json:"path"`
}

func c16PathNames(path []int) string {
	var s []string
	for _, i := range path {
		s = append(s, c16Ops[i].Name)
	}
	return strings.Join(s, " ; ")
}

// c16Step applies op i to a clone of gp; returns the new pool, the new reference and a complaint.
func c16Step(gp *engine.GenginePool, want c16Ref, i int, max int) (*engine.GenginePool, c16Ref, string, string) {
	op := c16Ops[i]
	ng := gx.DeepClone(gp).(*engine.GenginePool)
	nw := want.clone()
	must := op.Ref(&nw)
	err, pan := gx.CallGuarded(func() error { return op.Apply(ng) })
	if pan != nil {
		return ng, nw, "op-panic:" + op.Name, fmt.Sprintf("%s panicked: %v", op.Name, pan)
	}
	if must && err != nil {
		return ng, nw, "op-rejected:" + op.Name, fmt.Sprintf("%s failed: %v", op.Name, err)
	}
	if !must && err == nil {
		return ng, nw, "op-accepted:" + op.Name, fmt.Sprintf("%s must fail but succeeded", op.Name)
	}
	if !must {
		nw = want.clone() // a failed operation changes nothing
	}
	sig, msg := c16ProbeState(ng, nw, max)
	if sig != "" {
		sig += ":after:" + op.Name
	}
	return ng, nw, sig, msg
}

func c16Explore(c *hx.Ctx, min, max int64, depth int) {
	template, err := engine.NewGenginePool(min, max, engine.SortModel, c16Text(c16Init), c16Apis())
	if err != nil {
		vsched.InternalError("pool: %v", err)
	}
	root := c16Ref{Set: c16Set(c16Init), EM: engine.SortModel}
	if c.Shard == 0 {
		if sig, msg := c16ProbeState(template, root, int(max)); sig != "" {
			c.Res.Report("C16", "case", c16Case{min, max, nil}, nil, []hx.Finding{{Sig: "c16:" + sig, Msg: msg + "\n  sequence: (freshly constructed pool)"}})
		}
	}
	n := 0
	var rec func(gp *engine.GenginePool, want c16Ref, path []int)
	rec = func(gp *engine.GenginePool, want c16Ref, path []int) {
		if len(path) >= depth {
			return
		}
		for i := range c16Ops {
			np := append(append([]int{}, path...), i)
			// sharding: the subtree below the first two operations belongs to one worker; shorter
			// sequences are judged by worker 0
			if len(np) == 2 {
				n++
				if n%c.NShards != c.Shard {
					continue
				}
			}
			if c.Expired() {
				c.Res.Capped = append(c.Res.Capped, "time budget")
				return
			}
			ng, nw, sig, msg := c16Step(gp, want, i, int(max))
			judged := len(np) >= 2 || c.Shard == 0
			if judged {
				c.Res.Execs += 1 + int(max)
				c.Res.Steps++
				c.Res.AddExtra("cases", 1)
				if len(np) == depth && n%97 == 0 {
					c.Res.Sample(map[string]interface{}{"pool": []int64{min, max}, "sequence": c16PathNames(np)})
				}
				if sig != "" {
					c.Res.Report("C16", "case", c16Case{min, max, np}, nil, []hx.Finding{{Sig: "c16:" + sig, Msg: msg + "\n  pool(" + fmt.Sprint(min, ",", max) + ") sequence: " + c16PathNames(np)}})
				}
			}
			if sig != "" && strings.HasPrefix(sig, "op-panic") {
				continue // a pool on which an operation panicked is not explored further
			}
			rec(ng, nw, np)
		}
	}
	rec(template, root, nil)
}

func init() {
	hx.Register(&hx.Prop{
		ID:          "C16",
		Workers:     func(string) int { return 16 },
		BudgetQuick: 300 * time.Second,
		BudgetThor:  30 * time.Minute,
		Kind:        "cases",
		Rule: "every sequence of length <=4 on pool (1,2) and <=3 on pool (2,3) (thorough <=5 resp. <=4) over 14 management operations {full update A (3 rules), full update B (2 rules, one shared name, other salience), incremental: new rule / existing name same salience / existing name new salience / one call moving two existing rules past each other and adding a third, remove existing, remove absent, remove a list mixing existing and absent names, clear, SetExecModel(concurrent), SetExecModel(invalid), incremental with syntax error, full update with syntax error} from pools (1,2) and (2,3) - no state merging: the pool object is cloned at every node of the sequence tree; " +
			"after EVERY prefix: all queries (IsExist, GetRulesNumber, GetRuleSalience, GetRuleDesc, GetExecModel) and executions forced onto EVERY instance (max requests held inside their first rule simultaneously, under the controlled scheduler) are compared with the reference rule set / model; failed operations change nothing; no step panics",
		Assume: []string{"pool states are cloned with gx.DeepClone (compiled rules shared: immutable)", "removing every rule (without clear) demands only that no rule runs"},
		Run: func(c *hx.Ctx) {
			d12, d23 := 4, 3
			if c.Thorough() {
				d12, d23 = 5, 4 // 14^5 + 14^4 sequences; one level more does not finish in half an hour
			}
			c16Explore(c, 1, 2, d12)
			c16Explore(c, 2, 3, d23)
			c.Res.Configs += 2
		},
		ReplayCase: func(v *hx.Violation) []hx.Finding {
			var cs c16Case
			json.Unmarshal(v.Cfg, &cs)
			gp, err := engine.NewGenginePool(cs.Min, cs.Max, engine.SortModel, c16Text(c16Init), c16Apis())
			if err != nil {
				return []hx.Finding{{Sig: "c16:construct", Msg: err.Error()}}
			}
			want := c16Ref{Set: c16Set(c16Init), EM: engine.SortModel}
			var fs []hx.Finding
			if sig, msg := c16ProbeState(gp, want, int(cs.Max)); sig != "" {
				fs = append(fs, hx.Finding{Sig: "c16:" + sig, Msg: msg})
			}
			for k, i := range cs.Path {
				var sig, msg string
				gp, want, sig, msg = c16Step(gp, want, i, int(cs.Max))
				fmt.Printf("step %d %s -> denoted %s cleared=%v em=%d %s\n", k+1, c16Ops[i].Name, want.Set, want.Cleared, want.EM, sig)
				if sig != "" {
					fs = append(fs, hx.Finding{Sig: "c16:" + sig, Msg: msg})
					if strings.HasPrefix(sig, "op-panic") {
						break
					}
				}
			}
			return fs
		},
	})
}
