package main

import (
	"crypto/md5"
	"encoding/json"
	"fmt"
	"io"
	stdlog "log"
	"os"
	"reflect"
	"runtime"
	"runtime/debug"
	"sort"
	"strconv"
	"strings"
	"time"

	"github.com/bilibili/gengine/builder"
	"github.com/bilibili/gengine/context"
	"github.com/bilibili/gengine/engine"

	"verif/harness/gx"
	"verif/harness/hx"
	"verif/harness/ref"
)

// C10 - compiling is total, all-or-nothing, and identical across entry points.
//
// Every enumerated text is submitted to the five compile entry points from every applicable prior
// state (nine submissions):
//
//	builder-full         BuildRuleFromString            on an empty builder / a builder holding {a,b}
//	builder-incremental  BuildRuleWithIncremental       on an empty builder / a builder holding {a,b}
//	pool-construct       NewGenginePool(1,2,Sort,text)
//	pool-full            UpdatePooledRules              on a pool holding {a,b} / a cleared pool
//	pool-incremental     UpdatePooledRulesIncremental   on a pool holding {a,b} / a cleared pool
//
// Oracle: (1) every submission returns normally; (2) all verdicts (accept / reject) for one text are
// equal - agreement is the reference for "same language", no grammar is re-implemented;
// (3) a rejecting submission leaves the prior state as it was (builders: concrete snapshot of Kc;
// pools: queries + execution); (4) an accepting submission leaves ref.Replace / ref.Merge of the
// prior set and the rules the text defines - those are read off a *separate* fresh full build of the
// same text, which makes (4) a differential between entry points; (5) a text that defines one name
// twice is rejected by every entry point.
//
// Not judged (left open by the statement or owned by another property): the order of SortRules
// among the merged set and SortRulesIndexMap (C04), error texts, what executing a rule does (C01..C09;
// executions here only identify *which* body is installed under a name, by differential comparison
// with the reference build, and only for texts whose execution provably terminates and is
// deterministic: no `for`/`forRange`/`conc` anywhere in the text).

// ---------------------------------------------------------------------------------------------
// prior state: two version-tagged rules

const c10Prior = "rule \"a\" \"a-v1\" salience 10 begin return \"a-v1\" end\n" +
	"rule \"b\" \"b-v1\" salience 5 begin return \"b-v1\" end\n"

// added by an incremental build between two full builds of the same text
const c10Extra = "rule \"zz-extra\" \"extra\" salience 77 begin return \"extra\" end\n"

func c10PriorSet() ref.RuleSet {
	return ref.RuleSet{
		"a": {Salience: 10, Desc: "a-v1", BodyTag: "a-v1"},
		"b": {Salience: 5, Desc: "b-v1", BodyTag: "b-v1"},
	}
}

// names probed on pools besides the installed / defined ones (every rule name a seed uses)
var c10FixedProbes = []string{"a", "b", "n", "c", "e", "b2", "r4", "r0", "r1", "r2"}

// ---------------------------------------------------------------------------------------------
// injected host objects (fresh per execution)

type c10Inner struct{ N int64 }

func (in *c10Inner) Val() int64  { return in.N + 1 }
func (in *c10Inner) Set(x int64) { in.N = x }

type c10Data struct {
	I   int64
	F   float64
	B   bool
	Str string
	In  *c10Inner
}

func (d *c10Data) Get() int64                           { return d.I + 1 }
func (d *c10Data) Add(x, y int64) int64                 { return x + y }
func (d *c10Data) Mix(a float64, b bool, c int64) int64 { return c }

func c10F(x int64) int64 { return x + 1 }
func c10G() bool         { return true }

func c10Apis() map[string]interface{} {
	return map[string]interface{}{"f": c10F, "g": c10G}
}

func c10NewData() map[string]interface{} {
	return map[string]interface{}{
		"S": &c10Data{I: 2, In: &c10Inner{N: 4}},
		"M": map[string]int64{"k": 7, "j": 1},
		"A": []int64{3, 4},
	}
}

func c10AllInject() map[string]interface{} {
	m := c10NewData()
	for k, v := range c10Apis() {
		m[k] = v
	}
	return m
}

// ---------------------------------------------------------------------------------------------
// the enumerated space

// seeds: valid rule texts as token lists (whitespace separated); together they use every statement
// form, every expression form, every literal form, every assignment operator, all call forms, map
// variables, @-constants, descriptions, positive / negative / absent saliences, one- and two-rule texts.
var c10Seeds = []string{
	// 0: assignments, arithmetic with brackets, comparison / and / not, if - else if - else, return expr
	`rule "a" "seed-zero" salience 7 begin
	 x = 1 + 2 * 3  S.I = ( x - 4 ) / 2
	 if x > 3 && ! S.B { S.Str = "big" } else if x != 0 { S.B = true } else { S.F = 2.5 }
	 return x + 1 end`,
	// 1: function / method / three-level calls, map variables with string / int / variable keys, @name
	`rule "n" "seed-one" begin
	 v = f ( 3 )  w = S.Add ( v , - 2 )  u = S.In.Val ( )  M [ "k" ] = w + A [ 0 ]
	 t = "k"  S.In.N = M [ t ]  z = @name  g ( )
	 return ! g ( ) end`,
	// 2: for, break, continue, nested if, negative salience, >= < <= || ==, not of a bracketed
	//    expression, the other assignment operators
	`rule "c" "seed-two" salience -3 begin
	 n = 0  y := 2
	 for i = 0 ; i < 5 ; i = i + 1 { if ! ( i == y ) { continue } if i >= 3 || n <= -1 { break } n = n + i }
	 n -= 1  n *= 4  n /= 2
	 return n end`,
	// 3: forRange over map and slice, conc block with every admissible member, salience 0, @id @desc @sal
	`rule "r4" "seed-three" salience 0 begin
	 sum = 0
	 forRange k := M { sum = sum + M [ k ] }
	 forRange j := A { sum += A [ j ] }
	 conc { p = f ( 1 )  q = S.Get ( )  S.In.Set ( 2 )  r = @sal  d = @desc  o = @id }
	 return sum + p + q end`,
	// 4: two rules (the first re-defines the installed name "a"), booleans, reals, negative numbers,
	//    nested brackets, escaped and doubled quotes, early return in an if, call with mixed arguments
	`rule "a" "seed-four" salience 2 begin
	 if ! S.B { return "x" }
	 return - 1.5 end
	 rule "b2" begin
	 e = ( 1 + ( 2 - 3 ) ) * - 4  b = true  c = false
	 if b && ! c { S.Str = "q\"q" }
	 r = .5  S.Str = "d""d"  h = S.Mix ( 1.5e3 , b , f ( 1 ) )
	 return e end`,
	// 5: empty body, bare return, call statements, for inside if, else if with a call condition;
	//    the second rule re-defines the installed name "b"
	`rule "e" begin end
	 rule "b" "seed-five" salience 9 begin
	 S.Add ( 1 , 2 )  S.In.Set ( 3 )  f ( 1 )
	 if S.Get ( ) > 0 { for i = 0 ; i < 2 ; i += 1 { S.I = S.I + i } } else if g ( ) { return }
	 return end`,
}

// alphabet of single-token substitutions and insertions
var c10EditAlphabet = []string{
	"rule", "begin", "end", "salience", "if", "else", "for", "forRange", "break", "continue", "return", "conc",
	"true", "1", "2.5", `"s"`,
	"x", "S.I", "S.In.N",
	"@name",
	"(", ")", "{", "}", "[", "]",
	"+", "==", "=", "!", "&&", ",", ";",
	"#", `"abc`, "//",
}

// core alphabet for "all token strings up to length L" and for pairs of edits
var c10CoreAlphabet = []string{
	"rule", `"n"`, "begin", "end", "x", "=", "1", "(", ")", "{", "}", "if", "return", "#",
}

var c10ByteAlphabet = []byte{'"', '\\', '/', '\n', 'r', '(', '0', '.', '@', 0x00, 0xff}

type c10Case struct {
	Cat  string `json:"category"`
	Q    string `json:"text_go_quoted"` // strconv.Quote of the exact bytes submitted
	Note string `json:"note,omitempty"`
	Dup  bool   `json:"defines_one_name_twice,omitempty"`
}

func (cs c10Case) text() (string, error) { return strconv.Unquote(cs.Q) }

func c10Render(toks []string) string { return strings.Join(toks, " ") + "\n" }

// c10Enumerate calls emit for every distinct text of the tier, simplest first; emit returns false
// to stop. The order is deterministic (it defines the sharding).
func c10Enumerate(thorough bool, emit func(cs c10Case, text string) bool) {
	seen := map[[16]byte]struct{}{}
	stop := false
	out := func(cat, note string, dup bool, text string) {
		if stop {
			return
		}
		h := md5.Sum([]byte(text))
		if _, ok := seen[h]; ok {
			return
		}
		seen[h] = struct{}{}
		if !emit(c10Case{Cat: cat, Q: strconv.Quote(text), Note: note, Dup: dup}, text) {
			stop = true
		}
	}

	// (iii) all byte strings of length <= 3 (the empty text included)
	for l := 0; l <= 3 && !stop; l++ {
		idx := make([]int, l)
		for {
			b := make([]byte, l)
			for i, x := range idx {
				b[i] = c10ByteAlphabet[x]
			}
			out("bytes", "", false, string(b))
			if !c10Next(idx, len(c10ByteAlphabet)) {
				break
			}
		}
	}
	// whitespace-only and comment-only texts: they define no rule
	for _, t := range []string{" ", "\n", " \t\r\n", "//c\n", "//c", "// rule \"n\" begin end\n", "\n//c\n\n"} {
		out("no-rule", "", false, t)
	}

	// characters that Go's unicode.IsSpace (strings.TrimSpace / Fields) treats as white space but that
	// may or may not be white space for the lexer: alone, and in front of / behind / inside a valid text
	valid := "rule \"n\" \"d\" salience 3 begin return 1 end"
	for _, sp := range []string{"\f", "\v", "\u00a0", "\u0085", "\u2028", "\u2029", "\u3000", "\ufeff", "\x00"} {
		for _, t := range []string{sp, sp + valid, valid + sp, valid + "\n" + sp, sp + "\n" + valid, "rule" + sp + "\"n\" begin end", valid + " " + sp + " "} {
			out("odd-space", "", false, t)
		}
	}

	// (ii) all token strings of length <= L over the core alphabet, bare and wrapped in a rule
	maxL := 3
	if thorough {
		maxL = 4
	}
	for l := 0; l <= maxL && !stop; l++ {
		for _, wrapped := range []bool{false, true} {
			idx := make([]int, l)
			for {
				toks := make([]string, l)
				for i, x := range idx {
					toks[i] = c10CoreAlphabet[x]
				}
				if wrapped {
					out("tokens-wrapped", "", false, c10Render(append(append([]string{"rule", `"n"`, "begin"}, toks...), "end")))
				} else {
					out("tokens", "", false, c10Render(toks))
				}
				if !c10Next(idx, len(c10CoreAlphabet)) {
					break
				}
			}
		}
	}

	// (iv) one name defined twice by the same text: all position pairs of a 3-rule text (same and
	// different bodies / saliences), all three equal, a 2-rule text; and - NOT duplicates - texts
	// that repeat the name of an installed rule once.
	body := func(name string, k int) string {
		return fmt.Sprintf("rule \"%s\" \"d%d\" salience %d begin return \"%s-d%d\" end\n", name, k, k, name, k)
	}
	for _, same := range []bool{false, true} {
		for _, base := range []string{"r", "a"} { // fresh names / a name that is also installed
			for _, pr := range [][2]int{{0, 1}, {0, 2}, {1, 2}, {0, 0}} {
				names := []string{base + "0", base + "1", base + "2"}
				if base == "a" {
					names = []string{"a", "b", "n"}
				}
				note := fmt.Sprintf("rules %d and %d share a name", pr[0], pr[1])
				if pr[0] == pr[1] {
					names[1], names[2] = names[0], names[0]
					note = "all three rules share a name"
				} else {
					names[pr[1]] = names[pr[0]]
				}
				t := ""
				for i, n := range names {
					k := i
					if same {
						k = 0
					}
					t += body(n, k)
				}
				out("duplicate-name", note, true, t)
			}
		}
	}
	out("duplicate-name", "two rules, same name", true, body("n", 0)+body("n", 1))
	out("duplicate-name", "two rules, same name, differently quoted (\"\"\"n\" trims to n)", true, body("n", 0)+strings.Replace(body("n", 1), `"n"`, `"""n"`, 1))
	out("installed-name", "re-defines installed rule a", false, body("a", 3))
	out("installed-name", "re-defines installed rules a and b", false, body("b", 3)+body("a", 4))
	out("installed-name", "re-defines installed rule b with its installed salience, adds n", false, "rule \"b\" \"again\" salience 5 begin return \"b-again\" end\n"+body("n", 1))
	out("installed-name", "three distinct rules", false, body("r0", 0)+body("r1", 1)+body("r2", 2))

	// (i) token-level neighbourhood of the seeds
	nSeeds := 2
	if thorough {
		nSeeds = len(c10Seeds)
	}
	seeds := make([][]string, nSeeds)
	for s := range seeds {
		seeds[s] = strings.Fields(c10Seeds[s])
		out("seed", fmt.Sprintf("seed %d unchanged", s), false, c10Render(seeds[s]))
	}
	for s, toks := range seeds {
		for p := 0; p <= len(toks) && !stop; p++ {
			for _, e := range c10Edits(c10EditAlphabet, p < len(toks)) {
				out("edit1", fmt.Sprintf("seed %d: %s", s, e.describe(toks, p)), false, c10Render(e.apply(toks, p)))
			}
		}
	}
	if !thorough {
		return
	}
	// pairs of edits at token distance <= 3 over the core alphabet; nearer pairs first
	for d := 1; d <= 3 && !stop; d++ {
		for s, toks := range seeds {
			for p := 0; p+d <= len(toks) && !stop; p++ {
				q := p + d
				for _, e2 := range c10Edits(c10PairAlphabet, q < len(toks)) {
					t2 := e2.apply(toks, q)
					for _, e1 := range c10Edits(c10PairAlphabet, true) {
						out("edit2", fmt.Sprintf("seed %d: %s; %s", s, e1.describe(toks, p), e2.describe(toks, q)), false, c10Render(e1.apply(t2, p)))
					}
				}
			}
		}
	}
}

// alphabet of the pair edits (a sub-alphabet that keeps the distance-3 pair space inside the budget)
var c10PairAlphabet = []string{"(", "}", "x"}

func c10Next(idx []int, base int) bool {
	for i := len(idx) - 1; i >= 0; i-- {
		idx[i]++
		if idx[i] < base {
			return true
		}
		idx[i] = 0
	}
	return false
}

type c10Edit struct {
	op  byte // 'd' delete, 's' substitute, 'i' insert before
	tok string
}

// edits applicable at a position; at == false means the position is one past the last token
// (insertion only).
func c10Edits(alpha []string, at bool) []c10Edit {
	var es []c10Edit
	if at {
		es = append(es, c10Edit{op: 'd'})
		for _, t := range alpha {
			es = append(es, c10Edit{op: 's', tok: t})
		}
	}
	for _, t := range alpha {
		es = append(es, c10Edit{op: 'i', tok: t})
	}
	return es
}

func (e c10Edit) apply(toks []string, p int) []string {
	out := make([]string, 0, len(toks)+1)
	out = append(out, toks[:p]...)
	switch e.op {
	case 'd':
		out = append(out, toks[p+1:]...)
	case 's':
		out = append(out, e.tok)
		out = append(out, toks[p+1:]...)
	default:
		out = append(out, e.tok)
		out = append(out, toks[p:]...)
	}
	return out
}

func (e c10Edit) describe(toks []string, p int) string {
	switch e.op {
	case 'd':
		return fmt.Sprintf("delete token %d `%s`", p, toks[p])
	case 's':
		return fmt.Sprintf("replace token %d `%s` by `%s`", p, toks[p], e.tok)
	}
	return fmt.Sprintf("insert `%s` before token %d", e.tok, p)
}

// ---------------------------------------------------------------------------------------------
// running one submission

type c10Sub struct {
	Kind     string // builder-full | builder-incremental | pool-construct | pool-full | pool-incremental
	State    string // empty | holding | cleared
	Panicked bool
	Panic    string
	Site     string // innermost gengine function on the panicking stack (no line numbers)
	Rejected bool
	Err      string
}

func (s c10Sub) id() string { return s.Kind + "/" + s.State }

func (s c10Sub) verdict() string {
	switch {
	case s.Panicked:
		return "PANIC " + c10Short(s.Panic, 160) + " [in " + s.Site + "]"
	case s.Rejected:
		return "reject: " + c10Short(s.Err, 160)
	}
	return "accept"
}

func c10Short(s string, n int) string {
	s = strings.ReplaceAll(s, "\n", " ")
	if len(s) > n {
		return s[:n] + "..."
	}
	return s
}

const c10Mod = "github.com/bilibili/gengine/"

func c10PanicSite() string {
	pcs := make([]uintptr, 96)
	n := runtime.Callers(3, pcs)
	frames := runtime.CallersFrames(pcs[:n])
	for {
		fr, more := frames.Next()
		fn := fr.Function
		if strings.HasPrefix(fn, c10Mod) && !strings.Contains(fn, "/verifrt/") {
			return strings.TrimPrefix(fn, c10Mod)
		}
		if !more {
			break
		}
	}
	return "outside-gengine"
}

// c10Guard runs one call of an entry point; a panic that escapes it is what the caller would see.
func c10Guard(f func() error) (err error, panicked bool, pval, site string) {
	defer func() {
		if r := recover(); r != nil {
			panicked = true
			pval = fmt.Sprint(r)
			site = c10PanicSite()
		}
	}()
	err = f()
	return
}

func c10Submit(kind, state string, f func() error) c10Sub {
	s := c10Sub{Kind: kind, State: state}
	err, p, pv, site := c10Guard(f)
	if p {
		s.Panicked, s.Panic, s.Site = true, pv, site
		return s
	}
	if err != nil {
		s.Rejected, s.Err = true, err.Error()
	}
	return s
}

// ---------------------------------------------------------------------------------------------
// observing builders

type c10Ent struct {
	Key, Name, Desc string
	Sal             int64
	Ptr, Content    interface{} // *base.RuleEntity, *base.RuleContent (identity only)
}

type c10KcSnap struct {
	Ents  []c10Ent      // sorted by key
	Sort  []interface{} // SortRules, in order
	Index []string      // "name=pos", sorted
}

func c10SnapKc(rb *builder.RuleBuilder) c10KcSnap {
	var s c10KcSnap
	kc := rb.Kc
	keys := make([]string, 0, len(kc.RuleEntities))
	for k := range kc.RuleEntities {
		keys = append(keys, k)
	}
	sort.Strings(keys)
	for _, k := range keys {
		re := kc.RuleEntities[k]
		e := c10Ent{Key: k}
		if re != nil {
			e.Name, e.Desc, e.Sal, e.Ptr, e.Content = re.RuleName, re.RuleDescription, re.Salience, re, re.RuleContent
		}
		s.Ents = append(s.Ents, e)
	}
	for _, re := range kc.SortRules {
		s.Sort = append(s.Sort, re)
	}
	for k, v := range kc.SortRulesIndexMap {
		s.Index = append(s.Index, fmt.Sprintf("%s=%d", k, v))
	}
	sort.Strings(s.Index)
	return s
}

// diff of two snapshots ("" = identical: same names, same entity and body objects, same fields, same order)
func (s c10KcSnap) diff(o c10KcSnap) string {
	if len(s.Ents) != len(o.Ents) {
		return fmt.Sprintf("RuleEntities had %d entries, now %d", len(s.Ents), len(o.Ents))
	}
	for i := range s.Ents {
		a, b := s.Ents[i], o.Ents[i]
		if a.Key != b.Key || a.Name != b.Name || a.Desc != b.Desc || a.Sal != b.Sal {
			return fmt.Sprintf("RuleEntities[%q] was (name %q desc %q salience %d), now [%q] (name %q desc %q salience %d)", a.Key, a.Name, a.Desc, a.Sal, b.Key, b.Name, b.Desc, b.Sal)
		}
		if a.Ptr != b.Ptr {
			return fmt.Sprintf("RuleEntities[%q] is a different rule object", a.Key)
		}
		if a.Content != b.Content {
			return fmt.Sprintf("RuleEntities[%q] has a different body object", a.Key)
		}
	}
	if len(s.Sort) != len(o.Sort) {
		return fmt.Sprintf("SortRules had %d entries, now %d", len(s.Sort), len(o.Sort))
	}
	for i := range s.Sort {
		if s.Sort[i] != o.Sort[i] {
			return fmt.Sprintf("SortRules[%d] is a different rule object", i)
		}
	}
	if strings.Join(s.Index, ",") != strings.Join(o.Index, ",") {
		return fmt.Sprintf("SortRulesIndexMap was %v, now %v", s.Index, o.Index)
	}
	return ""
}

func (s c10KcSnap) ruleSet(tag func(name string) string) ref.RuleSet {
	rs := ref.RuleSet{}
	for _, e := range s.Ents {
		rs[e.Key] = ref.RuleInfo{Salience: e.Sal, Desc: e.Desc, BodyTag: tag(e.Key)}
	}
	return rs
}

// ---------------------------------------------------------------------------------------------
// executing (only to identify bodies)

type c10Outcome struct {
	Panicked bool
	Err      bool
	Has      bool
	Val      string
}

func (o c10Outcome) String() string {
	if o.Panicked {
		return "panics"
	}
	s := "no result entry"
	if o.Has {
		s = "returns " + o.Val
	}
	if o.Err {
		s += " + error"
	}
	return s
}

// values are compared by type and - for scalars - value; composite values by type only (addresses
// differ between the fresh host objects of two executions)
func c10RenderVal(v interface{}) string {
	if v == nil {
		return "nil"
	}
	switch reflect.TypeOf(v).Kind() {
	case reflect.Bool, reflect.Int, reflect.Int8, reflect.Int16, reflect.Int32, reflect.Int64,
		reflect.Uint, reflect.Uint8, reflect.Uint16, reflect.Uint32, reflect.Uint64,
		reflect.Float32, reflect.Float64, reflect.String:
		return fmt.Sprintf("%T(%#v)", v, v)
	}
	return fmt.Sprintf("%T", v)
}

// c10ExecSafe: executing the rules of this text terminates and is deterministic (no loop, no
// concurrent block anywhere in the text - a textual over-approximation, the DSL has no recursion).
func c10ExecSafe(text string) bool {
	l := strings.ToLower(text)
	return !strings.Contains(l, "for") && !strings.Contains(l, "conc")
}

func c10RunOnBuilder(rb *builder.RuleBuilder, name string) c10Outcome {
	v, has, err, p := gx.RunRule(rb, name, c10AllInject())
	if p != nil {
		return c10Outcome{Panicked: true}
	}
	o := c10Outcome{Err: err != nil, Has: has}
	if has {
		o.Val = c10RenderVal(v)
	}
	return o
}

func c10RunOnPool(p *engine.GenginePool, name string) c10Outcome {
	var m map[string]interface{}
	err, pan, _, _ := c10Guard(func() error {
		e, r := p.ExecuteSelectedRules(c10NewData(), []string{name})
		m = r
		return e
	})
	if pan {
		return c10Outcome{Panicked: true}
	}
	o := c10Outcome{Err: err != nil}
	if v, ok := m[name]; ok {
		o.Has, o.Val = true, c10RenderVal(v)
	}
	for _, k := range gx.ResultKeys(m) {
		if k != name {
			o.Val += " (+unexpected entry " + strconv.Quote(k) + ")"
		}
	}
	return o
}

func c10TagOutcome(tag string) c10Outcome {
	return c10Outcome{Has: true, Val: c10RenderVal(tag)}
}

// ---------------------------------------------------------------------------------------------
// observing pools

func c10ObservePool(p *engine.GenginePool, probes []string) string {
	var sb strings.Builder
	fmt.Fprintf(&sb, "number=%d", p.GetRulesNumber())
	ex := p.IsExist(probes)
	for i, n := range probes {
		sal, e1 := p.GetRuleSalience(n)
		desc, e2 := p.GetRuleDesc(n)
		x := false
		if i < len(ex) {
			x = ex[i]
		}
		fmt.Fprintf(&sb, "; %q exist=%v salience=%d/%v desc=%q/%v", n, x, sal, e1 != nil, desc, e2 != nil)
	}
	// the whole installed set, twice (min 1 / max 2 instances: either may serve)
	for i := 0; i < 2; i++ {
		var m map[string]interface{}
		err, pan, pv, _ := c10Guard(func() error {
			e, r := p.Execute(c10NewData(), true)
			m = r
			return e
		})
		if pan {
			fmt.Fprintf(&sb, "; exec%d panics %s", i, pv)
			continue
		}
		fmt.Fprintf(&sb, "; exec%d err=%v result={", i, err != nil)
		for _, k := range gx.ResultKeys(m) {
			fmt.Fprintf(&sb, "%q:%s ", k, c10RenderVal(m[k]))
		}
		sb.WriteString("}")
	}
	return sb.String()
}

func c10HoldingObs(probes []string) string {
	var sb strings.Builder
	sb.WriteString("number=2")
	ps := c10PriorSet()
	for _, n := range probes {
		if r, ok := ps[n]; ok {
			fmt.Fprintf(&sb, "; %q exist=true salience=%d/false desc=%q/false", n, r.Salience, r.Desc)
		} else {
			fmt.Fprintf(&sb, "; %q exist=false salience=0/true desc=\"\"/true", n)
		}
	}
	for i := 0; i < 2; i++ {
		fmt.Fprintf(&sb, "; exec%d err=false result={\"a\":string(\"a-v1\") \"b\":string(\"b-v1\") }", i)
	}
	return sb.String()
}

func c10ClearedObs(probes []string) string {
	var sb strings.Builder
	sb.WriteString("number=0")
	for _, n := range probes {
		fmt.Fprintf(&sb, "; %q exist=false salience=0/true desc=\"\"/true", n)
	}
	for i := 0; i < 2; i++ {
		fmt.Fprintf(&sb, "; exec%d err=false result={}", i)
	}
	return sb.String()
}

// ---------------------------------------------------------------------------------------------
// judging one text

type c10Internal struct{ msg string }

func c10Fail(format string, a ...interface{}) { panic(c10Internal{fmt.Sprintf(format, a...)}) }

type c10Stats struct {
	subs, accepts, rejects, panics, bodyExecs int
	refAccepted                               bool
}

func c10NewBuilder(holding bool) *builder.RuleBuilder {
	rb := builder.NewRuleBuilder(context.NewDataContext())
	if holding {
		if err := rb.BuildRuleFromString(c10Prior); err != nil {
			c10Fail("the prior rule text does not compile: %v", err)
		}
	}
	return rb
}

func c10NewPool(cleared bool) *engine.GenginePool {
	p, err := engine.NewGenginePool(1, 2, engine.SortModel, c10Prior, c10Apis())
	if err != nil || p == nil {
		c10Fail("cannot construct the prior pool: %v", err)
	}
	if cleared {
		p.ClearPoolRules()
	}
	return p
}

// c10Judge submits text everywhere and returns the findings.
func c10Judge(text string, dup bool, st *c10Stats) []hx.Finding {
	var fs []hx.Finding
	add := func(sig, msg string) {
		for _, f := range fs {
			if f.Sig == sig {
				return
			}
		}
		fs = append(fs, hx.Finding{Sig: sig, Msg: msg})
	}

	// The reference for "the rules the text defines" is gengine's own full build of the text on a
	// separate fresh builder - which is exactly the submission builder-full/empty, made first. Its
	// own accept check is therefore limited to the internal consistency of the installed set.
	refOK := false
	var defs ref.RuleSet
	refOut := map[string]c10Outcome{}
	safe := c10ExecSafe(text)
	probes := append([]string{}, c10FixedProbes...)
	prior := c10PriorSet()

	var subs []c10Sub
	var stateComplaints []string // "<sig>\x00<message>"
	complain := func(s c10Sub, class, msg string) {
		stateComplaints = append(stateComplaints, "c10:"+class+":"+s.Kind+"\x00"+s.id()+": "+msg)
	}

	// expected outcome of executing rule `name` of an installed set
	expectOutcome := func(info ref.RuleInfo, name string) (c10Outcome, bool) {
		if strings.HasPrefix(info.BodyTag, "text:") {
			o, ok := refOut[name]
			return o, ok // only when execution is safe
		}
		return c10TagOutcome(info.BodyTag), true
	}

	// ---- builders
	// A holding builder whose last submission was rejected and verifiably left it unchanged serves
	// the next submission too (it is in the prior state, and a sequence of rejected submissions is
	// itself a history the property quantifies over); otherwise a new one is built.
	var reusable, refRB *builder.RuleBuilder
	for bi, bc := range []struct {
		kind    string
		holding bool
	}{{"builder-full", false}, {"builder-incremental", false}, {"builder-full", true}, {"builder-incremental", true}} {
		var rb *builder.RuleBuilder
		if bc.holding && reusable != nil {
			rb = reusable
		} else {
			rb = c10NewBuilder(bc.holding)
		}
		reusable = nil
		before := c10SnapKc(rb)
		old := ref.RuleSet{}
		state := "empty"
		if bc.holding {
			old, state = prior, "holding"
			if d := before.ruleSet(func(n string) string { return n + "-v1" }); d.String() != prior.String() {
				c10Fail("prior builder holds %s, expected %s", d, prior)
			}
		} else if len(before.Ents)+len(before.Sort)+len(before.Index) != 0 {
			c10Fail("a new builder is not empty")
		}
		var s c10Sub
		if bc.kind == "builder-full" {
			s = c10Submit(bc.kind, state, func() error { return rb.BuildRuleFromString(text) })
		} else {
			s = c10Submit(bc.kind, state, func() error { return rb.BuildRuleWithIncremental(text) })
		}
		subs = append(subs, s)
		if bi == 0 {
			refOK = !s.Panicked && !s.Rejected
			if refOK {
				refRB = rb
				defs = c10SnapKc(rb).ruleSet(func(n string) string { return "text:" + n })
				for _, n := range defs.Names() {
					known := false
					for _, p := range probes {
						known = known || p == n
					}
					if !known {
						probes = append(probes, n)
					}
					if safe {
						refOut[n] = c10RunOnBuilder(rb, n)
						st.bodyExecs++
					}
				}
			}
			st.refAccepted = refOK
		}
		if s.Panicked {
			continue
		}
		after := c10SnapKc(rb)
		if s.Rejected {
			if d := before.diff(after); d != "" {
				complain(s, "reject-changed-state", "reported an error but the installed set changed: "+d)
			} else if bc.holding {
				reusable = rb
			}
			continue
		}
		if !refOK {
			continue // disagreement with the reference build, reported below; nothing to compare the state with
		}
		exp := ref.Replace(old, defs)
		if bc.kind == "builder-incremental" {
			exp = ref.Merge(old, defs)
		}
		got := after.ruleSet(func(n string) string { return exp[n].BodyTag })
		if got.String() != exp.String() {
			complain(s, "accept-wrong-state", fmt.Sprintf("succeeded but the installed set is %s, expected %s", got, exp))
			continue
		}
		oldPtr := map[string]c10Ent{}
		for _, e := range before.Ents {
			oldPtr[e.Key] = e
		}
		inSort := map[interface{}]int{}
		for _, p := range after.Sort {
			inSort[p]++
		}
		bad := ""
		for _, e := range after.Ents {
			if e.Name != e.Key {
				bad = fmt.Sprintf("RuleEntities[%q] holds a rule named %q", e.Key, e.Name)
			}
			if e.Ptr == nil || inSort[e.Ptr] != 1 {
				bad = fmt.Sprintf("rule %q occurs %d times in SortRules", e.Key, inSort[e.Ptr])
			}
			info := exp[e.Key]
			if strings.HasPrefix(info.BodyTag, "text:") {
				for _, o := range before.Ents {
					if e.Content == o.Content || e.Ptr == o.Ptr {
						bad = fmt.Sprintf("rule %q was (re)defined by the text but still is / shares the body of the previously installed rule %q", e.Key, o.Key)
					}
				}
				if e.Content == nil || reflect.ValueOf(e.Content).IsNil() {
					bad = fmt.Sprintf("rule %q has no body", e.Key)
				}
			} else if o := oldPtr[e.Key]; o.Ptr != e.Ptr || o.Content != e.Content {
				bad = fmt.Sprintf("rule %q is not defined by the text but its installed object changed", e.Key)
			}
			if want, ok := expectOutcome(info, e.Key); ok && bad == "" && bi != 0 {
				st.bodyExecs++
				if o := c10RunOnBuilder(rb, e.Key); o != want {
					bad = fmt.Sprintf("executing rule %q: %s; the body expected under that name (%s): %s", e.Key, o, info.BodyTag, want)
				}
			}
		}
		if len(after.Sort) != len(after.Ents) && bad == "" {
			bad = fmt.Sprintf("SortRules has %d entries for %d rules", len(after.Sort), len(after.Ents))
		}
		if bad != "" {
			complain(s, "accept-wrong-state", "succeeded but "+bad)
		}
	}

	// ---- the same text once more on the builder that accepted it, after an incremental build that
	// added a rule and re-defined nothing else in between: a full build replaces whatever is installed
	if refOK && refRB != nil {
		if err, pan, _, _ := c10Guard(func() error { return refRB.BuildRuleWithIncremental(c10Extra) }); err == nil && !pan {
			s := c10Submit("builder-full", "after-incremental", func() error { return refRB.BuildRuleFromString(text) })
			subs = append(subs, s)
			if !s.Panicked && !s.Rejected {
				got := c10SnapKc(refRB).ruleSet(func(n string) string { return "text:" + n })
				if got.String() != defs.String() {
					complain(s, "accept-wrong-state", fmt.Sprintf("succeeded (same text again, after an incremental build that added %q) but the installed set is %s, expected %s", "zz-extra", got, defs))
				}
			}
		}
	}

	// ---- pools
	checkPoolAccept := func(s c10Sub, p *engine.GenginePool, exp ref.RuleSet) {
		if p == nil {
			complain(s, "accept-wrong-state", "reported success but returned no pool")
			return
		}
		if n := p.GetRulesNumber(); n != len(exp) {
			complain(s, "accept-wrong-state", fmt.Sprintf("succeeded; GetRulesNumber()=%d, expected set %s", n, exp))
			return
		}
		ex := p.IsExist(probes)
		for i, n := range probes {
			info, want := exp[n]
			if i >= len(ex) || ex[i] != want {
				complain(s, "accept-wrong-state", fmt.Sprintf("succeeded; IsExist(%q) != %v, expected set %s", n, want, exp))
				return
			}
			if !want {
				continue
			}
			sal, e1 := p.GetRuleSalience(n)
			desc, e2 := p.GetRuleDesc(n)
			if e1 != nil || e2 != nil || sal != info.Salience || desc != info.Desc {
				complain(s, "accept-wrong-state", fmt.Sprintf("succeeded; rule %q has salience %d (err %v) description %q (err %v), expected set %s", n, sal, e1, desc, e2, exp))
				return
			}
			if wantO, ok := expectOutcome(info, n); ok {
				for rep := 0; rep < 2; rep++ {
					st.bodyExecs++
					if o := c10RunOnPool(p, n); o != wantO {
						complain(s, "accept-wrong-state", fmt.Sprintf("succeeded; executing rule %q: %s; the body expected under that name (%s): %s", n, o, info.BodyTag, wantO))
						return
					}
				}
			}
		}
	}

	{
		var p *engine.GenginePool
		s := c10Submit("pool-construct", "empty", func() error {
			var e error
			p, e = engine.NewGenginePool(1, 2, engine.SortModel, text, c10Apis())
			return e
		})
		subs = append(subs, s)
		if !s.Panicked && !s.Rejected && refOK {
			checkPoolAccept(s, p, ref.Replace(ref.RuleSet{}, defs))
		}
	}
	var pool *engine.GenginePool // reusable (see builders): last submission rejected, state verified unchanged
	poolCleared := false
	for _, pc := range []struct {
		kind    string
		cleared bool
	}{{"pool-full", false}, {"pool-incremental", false}, {"pool-full", true}, {"pool-incremental", true}} {
		p := pool
		pool = nil
		switch {
		case p == nil:
			p = c10NewPool(pc.cleared)
		case pc.cleared && !poolCleared:
			p.ClearPoolRules()
		}
		poolCleared = pc.cleared
		old, state, wantBefore := prior, "holding", c10HoldingObs(probes)
		if pc.cleared {
			old, state, wantBefore = ref.RuleSet{}, "cleared", c10ClearedObs(probes)
		}
		before := c10ObservePool(p, probes)
		if before != wantBefore {
			c10Fail("prior pool (%s) observed as\n %s\nexpected\n %s", state, before, wantBefore)
		}
		var s c10Sub
		if pc.kind == "pool-full" {
			s = c10Submit(pc.kind, state, func() error { return p.UpdatePooledRules(text) })
		} else {
			s = c10Submit(pc.kind, state, func() error { return p.UpdatePooledRulesIncremental(text) })
		}
		subs = append(subs, s)
		if s.Panicked {
			continue
		}
		if s.Rejected {
			if after := c10ObservePool(p, probes); after != before {
				complain(s, "reject-changed-state", "reported an error but the pool changed:\n   before: "+before+"\n   after:  "+after)
			} else {
				pool = p
			}
			continue
		}
		if !refOK {
			continue
		}
		exp := ref.Replace(old, defs)
		if pc.kind == "pool-incremental" {
			exp = ref.Merge(old, defs)
		}
		checkPoolAccept(s, p, exp)
	}

	// ---- verdicts
	table := ""
	for _, s := range subs {
		table += fmt.Sprintf("   %-28s %s\n", s.id()+":", s.verdict())
	}
	head := "text " + strconv.Quote(text) + "\n"

	kinds := []string{"builder-full", "builder-incremental", "pool-construct", "pool-full", "pool-incremental"}
	acc, rej := map[string]bool{}, map[string]bool{}
	st.subs += len(subs)
	for _, s := range subs {
		switch {
		case s.Panicked:
			st.panics++
		case s.Rejected:
			st.rejects++
		default:
			st.accepts++
		}
	}
	for _, s := range subs {
		switch {
		case s.Panicked:
			// (1) returns normally
			sig := "c10:panic:" + s.Kind + ":" + s.Site
			if s.Kind == "pool-incremental" && s.State == "cleared" && s.Site == "engine.updateIncremental" {
				sig = "c10:panic:pool-incremental-after-clear"
			}
			add(sig, head+s.id()+" does not return normally: panic "+c10Short(s.Panic, 300)+" (innermost gengine frame: "+s.Site+")\n"+table)
		case s.Rejected:
			rej[s.Kind] = true
		default:
			acc[s.Kind] = true
			if dup {
				// (5)
				add("c10:duplicate-name-accepted:"+s.Kind, head+s.id()+" accepts a text that defines one rule name twice\n"+table)
			}
		}
	}
	// (2) agreement
	var onlyAcc, onlyRej []string
	for _, k := range kinds {
		switch {
		case acc[k] && rej[k]:
			add("c10:verdict-depends-on-prior-state:"+k, head+k+" accepts the text from one prior state and rejects it from another\n"+table)
		case acc[k]:
			onlyAcc = append(onlyAcc, k)
		case rej[k]:
			onlyRej = append(onlyRej, k)
		}
	}
	if len(onlyAcc) > 0 && len(onlyRej) > 0 {
		sig := "c10:verdict-disagreement:" + strings.Join(onlyAcc, "+") + "-accepts"
		if len(onlyRej) < len(onlyAcc) {
			sig = "c10:verdict-disagreement:" + strings.Join(onlyRej, "+") + "-rejects"
		}
		add(sig, head+"the entry points disagree on whether the text is a valid rule text: accepted by "+strings.Join(onlyAcc, ", ")+"; rejected by "+strings.Join(onlyRej, ", ")+"\n"+table)
	}
	// (3) (4)
	for _, c := range stateComplaints {
		i := strings.IndexByte(c, 0)
		add(c[:i], head+c[i+1:]+"\n"+table)
	}
	return fs
}

// c10Minimise deletes tokens (delta debugging: halves, quarters, ... single tokens) as long as the
// finding with signature sig persists; it returns the reduced text with that finding.
func c10Minimise(text, sig string, maxEvals int) (string, *hx.Finding, int) {
	evals := 0
	try := func(ts []string) *hx.Finding {
		evals++
		var st c10Stats
		for _, f := range c10Judge(c10Render(ts), false, &st) {
			if f.Sig == sig {
				g := f
				return &g
			}
		}
		return nil
	}
	toks := strings.Fields(text)
	best := try(toks)
	if best == nil {
		return text, nil, evals
	}
	n := 2
	for len(toks) >= 2 && evals < maxEvals {
		chunk := (len(toks) + n - 1) / n
		reduced := false
		for start := 0; start < len(toks) && evals < maxEvals; start += chunk {
			end := start + chunk
			if end > len(toks) {
				end = len(toks)
			}
			cand := append(append([]string{}, toks[:start]...), toks[end:]...)
			if f := try(cand); f != nil {
				toks, best, reduced = cand, f, true
				if n > 2 {
					n--
				}
				break
			}
		}
		if !reduced {
			if chunk == 1 {
				break
			}
			n *= 2
			if n > len(toks) {
				n = len(toks)
			}
		}
	}
	return c10Render(toks), best, evals
}

// ---------------------------------------------------------------------------------------------
// wiring

// c10Quiet silences the ANTLR console error listener (one stderr line per syntax error of every
// compilation) and the engine's logger for the duration of the run.
func c10Quiet() (restore func(), realErr *os.File) {
	realErr, realOut := os.Stderr, os.Stdout
	null, err := os.OpenFile(os.DevNull, os.O_WRONLY, 0)
	if err != nil {
		return func() {}, realErr
	}
	os.Stderr, os.Stdout = null, null
	stdlog.SetOutput(io.Discard)
	return func() {
		os.Stderr, os.Stdout = realErr, realOut
		stdlog.SetOutput(realErr)
		null.Close()
	}, realErr
}

func c10SelfTest() string {
	if m := ref.RuleSetSelfTest(); m != "" {
		return m
	}
	for i, s := range c10Seeds {
		rb := c10NewBuilder(false)
		text := c10Render(strings.Fields(s))
		if err := rb.BuildRuleFromString(text); err != nil {
			return fmt.Sprintf("seed %d is not a valid rule text: %v", i, err)
		}
		if c10ExecSafe(text) {
			for _, e := range c10SnapKc(rb).Ents {
				if o := c10RunOnBuilder(rb, e.Key); o.Panicked || o.Err {
					return fmt.Sprintf("seed %d rule %q does not execute cleanly: %s", i, e.Key, o)
				}
			}
		}
	}
	// the observation helpers must describe the prior states exactly (c10Judge re-checks per pool)
	return ""
}

func c10Run(c *hx.Ctx) {
	gx.AttachRunRule = false // this check makes detached pool calls (see gx.RunRule)
	restore, realErr := c10Quiet()
	defer restore()
	defer func() {
		if r := recover(); r != nil {
			restore()
			if ie, ok := r.(c10Internal); ok {
				fmt.Fprintf(realErr, "INTERNAL-ERROR C10 harness: %s\n", ie.msg)
			} else {
				fmt.Fprintf(realErr, "INTERNAL-ERROR C10 harness panicked: %v\n", r)
			}
			os.Exit(2)
		}
	}()
	if m := c10SelfTest(); m != "" {
		c10Fail("%s", m)
	}
	// the compilations allocate heavily; a lazier collector is ~25% faster and changes nothing observable
	defer debug.SetGCPercent(debug.SetGCPercent(400))
	i := -1
	reported := map[string]bool{}
	c10Enumerate(c.Thorough(), func(cs c10Case, text string) bool {
		i++
		if i%64 == 0 && c.Expired() {
			c.Res.Capped = append(c.Res.Capped, "time budget: stopped inside category "+cs.Cat+" (this worker's share of the earlier categories is complete)")
			return false
		}
		c.Res.AddExtra("enumerated:"+cs.Cat, 1)
		if !c.Mine(i) {
			return true
		}
		var st c10Stats
		t0 := time.Now()
		fs := c10Judge(text, cs.Dup, &st)
		c.Res.AddExtra("worker_ms:"+cs.Cat, int(time.Since(t0)/time.Millisecond)) // cost accounting only
		c.Res.Configs++
		c.Res.Execs += st.subs
		c.Res.AddExtra("cases", 1)
		c.Res.AddExtra("cases:"+cs.Cat, 1)
		c.Res.AddExtra("submissions_accepting", st.accepts)
		c.Res.AddExtra("submissions_rejecting", st.rejects)
		c.Res.AddExtra("submissions_panicking", st.panics)
		c.Res.AddExtra("body_identifying_executions", st.bodyExecs)
		if st.refAccepted {
			c.Res.AddExtra("texts_accepted_by_reference_build", 1)
		}
		c.Res.Sample(cs)
		if len(fs) > 0 {
			c.Res.AddExtra("texts_with_findings", 1)
		}
		for _, f := range fs {
			rc, rf := cs, f
			if !reported[f.Sig] && !cs.Dup {
				// first sight of this signature in this worker: store a reduced sub-text (tokens
				// deleted while the same signature persists) as the replayable case
				min, mf, evals := c10Minimise(text, f.Sig, 120)
				c.Res.Execs += evals * 9
				c.Res.AddExtra("minimisation_judgements", evals)
				if mf != nil {
					rc = c10Case{Cat: "minimised", Q: strconv.Quote(min), Note: strings.TrimSpace("reduced by token deletion from the enumerated text (category " + cs.Cat + ") " + cs.Q + " " + cs.Note)}
					rf = *mf
				}
			}
			reported[f.Sig] = true
			c.Res.Report("C10", "case", rc, nil, []hx.Finding{rf})
		}
		return true
	})
	// "enumerated:*" is counted by every worker over the whole space; keep one copy
	if c.Shard != 0 {
		for k := range c.Res.Extra {
			if strings.HasPrefix(k, "enumerated:") {
				delete(c.Res.Extra, k)
			}
		}
	}
}

func c10Replay(v *hx.Violation) []hx.Finding {
	gx.AttachRunRule = false
	var cs c10Case
	if err := json.Unmarshal(v.Cfg, &cs); err != nil {
		return []hx.Finding{{Sig: "c10:replay-internal", Msg: "cannot decode the stored case: " + err.Error()}}
	}
	text, err := cs.text()
	if err != nil {
		return []hx.Finding{{Sig: "c10:replay-internal", Msg: "cannot unquote the stored text: " + err.Error()}}
	}
	restore, _ := c10Quiet()
	var st c10Stats
	fs := c10Judge(text, cs.Dup, &st)
	restore()
	fmt.Printf("category %s %s\n", cs.Cat, cs.Note)
	return fs
}

func init() {
	hx.Register(&hx.Prop{
		ID:          "C10",
		Workers:     func(string) int { return 16 },
		BudgetQuick: 5 * time.Minute,
		BudgetThor:  14 * time.Minute,
		Kind:        "cases",
		Rule: "distinct input texts: (iii) all byte strings of length <= 3 over {\" \\ / LF r ( 0 . @ NUL 0xff} + whitespace/comment-only texts + characters that are white space for Go's unicode tables but not necessarily for the lexer (form feed, vertical tab, NBSP, NEL, U+2028/9, U+3000, BOM, NUL) alone and in front of / behind / inside a valid text; " +
			"(ii) all token strings of length <= 3 (thorough: 4) over a 14-token core alphabet, bare and wrapped in rule \"n\" begin .. end; " +
			"(iv) 3-rule texts with one name defined twice in every position pair (fresh and installed names, equal and different bodies) and texts re-defining installed names once; " +
			"(i) the single-token-edit neighbourhood (every deletion, every substitution and insertion from a 36-token alphabet: all keywords, brackets, operators, literal forms, dotted names, @name, `#`, an unterminated string, `//`) of 2 (thorough: 6) valid seed texts covering every statement and expression form; " +
			"thorough adds pairs of edits at token distance <= 3 over a 3-token alphabet. " +
			"Each text is submitted to builder full/incremental (empty, holding {a,b}), pool construction, pool full/incremental update (holding {a,b}, cleared) = 9 submissions, plus - for accepted texts - the same full build once more on the builder that accepted it after an incremental build added another rule (the first, a full build on a separate fresh builder, also tells which rules the text defines); " +
			"judged: returns normally, verdict agreement, rejected => state unchanged (Kc snapshot / pool queries + execution), accepted => ref.Replace / ref.Merge of the prior set with the rules of the reference build, duplicate names rejected",
		Assume: []string{
			"agreement of the entry points is the reference for the accepted language; a text every entry point wrongly accepts or rejects is not detected",
			"bodies are identified by execution only for texts without for/forRange/conc (termination, determinism); otherwise by salience, description and object identity",
		},
		Run:        c10Run,
		ReplayCase: c10Replay,
	})
}
