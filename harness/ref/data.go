// data.go: reference for C03 (injected data is read, written and called faithfully).
//
//   - Val: a Go scalar value together with its kind (the way it exists on the host side),
//   - Representable / Convert: Go's own conversion rules, written with plain Go conversions and
//     comparisons (no reflection): v is representable in kind T iff T(v) converted back gives v and
//     nothing went out of range on the way,
//   - AddAssign: the value `target += rhs` assigns (C01 arithmetic: int64 / uint64 / float64),
//   - World: the host objects the harness injects (fresh per execution) and a flat snapshot of every
//     scalar location in them, used for the "everything not assigned stays untouched" comparison.
package ref

import (
	"fmt"
	"math"
	"math/big"
	"reflect"
	"sort"
	"strconv"
	"strings"
)

// Kind of a scalar location / value.
type Kind int

const (
	KInt Kind = iota
	KInt8
	KInt16
	KInt32
	KInt64
	KUint
	KUint8
	KUint16
	KUint32
	KUint64
	KFloat32
	KFloat64
	KString
	KBool
	NKinds
)

var kindNames = [...]string{"int", "int8", "int16", "int32", "int64", "uint", "uint8", "uint16", "uint32", "uint64", "float32", "float64", "string", "bool"}

// FieldNames are the struct field names of Outer / Inner for each kind.
var FieldNames = [...]string{"I", "I8", "I16", "I32", "I64", "U", "U8", "U16", "U32", "U64", "F32", "F64", "Str", "B"}

func (k Kind) String() string { return kindNames[k] }

// KindByName is the inverse of Kind.String (-1 if unknown).
func KindByName(s string) Kind {
	for i, n := range kindNames {
		if n == s {
			return Kind(i)
		}
	}
	return -1
}

// AllKinds lists the 14 scalar kinds.
func AllKinds() []Kind {
	var ks []Kind
	for k := KInt; k < NKinds; k++ {
		ks = append(ks, k)
	}
	return ks
}

// NumericKinds lists the 12 numeric kinds.
func NumericKinds() []Kind { return AllKinds()[:12] }

// Class of a kind.
type Class int

const (
	CInt Class = iota
	CUint
	CFloat
	CString
	CBool
)

func (c Class) String() string { return [...]string{"int", "uint", "float", "string", "bool"}[c] }

func (k Kind) Class() Class {
	switch {
	case k <= KInt64:
		return CInt
	case k <= KUint64:
		return CUint
	case k <= KFloat64:
		return CFloat
	case k == KString:
		return CString
	}
	return CBool
}

func (k Kind) Numeric() bool { return k <= KFloat64 }

// Bits is the width of a numeric kind.
func (k Kind) Bits() int {
	switch k {
	case KInt, KUint:
		return strconv.IntSize
	case KInt8, KUint8:
		return 8
	case KInt16, KUint16:
		return 16
	case KInt32, KUint32, KFloat32:
		return 32
	case KInt64, KUint64, KFloat64:
		return 64
	}
	return 0
}

// MinInt / MaxInt / MaxUint: ranges of the integer kinds.
func MinInt(k Kind) int64 {
	switch k {
	case KInt:
		return math.MinInt
	case KInt8:
		return math.MinInt8
	case KInt16:
		return math.MinInt16
	case KInt32:
		return math.MinInt32
	}
	return math.MinInt64
}

func MaxInt(k Kind) int64 {
	switch k {
	case KInt:
		return math.MaxInt
	case KInt8:
		return math.MaxInt8
	case KInt16:
		return math.MaxInt16
	case KInt32:
		return math.MaxInt32
	}
	return math.MaxInt64
}

func MaxUint(k Kind) uint64 {
	switch k {
	case KUint:
		return math.MaxUint
	case KUint8:
		return math.MaxUint8
	case KUint16:
		return math.MaxUint16
	case KUint32:
		return math.MaxUint32
	}
	return math.MaxUint64
}

// Val is one scalar Go value of kind K. Integer kinds use I, unsigned kinds U, float kinds F (a
// float32 value is held as its exact float64 image), strings S, bools B.
type Val struct {
	K Kind    `json:"k"`
	I int64   `json:"i,omitempty"`
	U uint64  `json:"u,omitempty"`
	F float64 `json:"f,omitempty"`
	S string  `json:"s,omitempty"`
	B bool    `json:"b,omitempty"`
}

func IntVal(k Kind, i int64) Val     { return Val{K: k, I: i} }
func UintVal(k Kind, u uint64) Val   { return Val{K: k, U: u} }
func FloatVal(k Kind, f float64) Val { return Val{K: k, F: f} }
func StrVal(s string) Val            { return Val{K: KString, S: s} }
func BoolVal(b bool) Val             { return Val{K: KBool, B: b} }

// Valid: the payload lies inside the range of the value's own kind.
func (v Val) Valid() bool {
	switch v.K.Class() {
	case CInt:
		return v.I >= MinInt(v.K) && v.I <= MaxInt(v.K)
	case CUint:
		return v.U <= MaxUint(v.K)
	case CFloat:
		if v.K == KFloat32 {
			return float64(float32(v.F)) == v.F
		}
	}
	return true
}

// Go returns the value as a Go value of exactly its kind's type.
func (v Val) Go() interface{} {
	switch v.K {
	case KInt:
		return int(v.I)
	case KInt8:
		return int8(v.I)
	case KInt16:
		return int16(v.I)
	case KInt32:
		return int32(v.I)
	case KInt64:
		return v.I
	case KUint:
		return uint(v.U)
	case KUint8:
		return uint8(v.U)
	case KUint16:
		return uint16(v.U)
	case KUint32:
		return uint32(v.U)
	case KUint64:
		return v.U
	case KFloat32:
		return float32(v.F)
	case KFloat64:
		return v.F
	case KString:
		return v.S
	}
	return v.B
}

// FromGo classifies a Go scalar (ok=false for anything else, including named types).
func FromGo(x interface{}) (Val, bool) {
	switch t := x.(type) {
	case int:
		return IntVal(KInt, int64(t)), true
	case int8:
		return IntVal(KInt8, int64(t)), true
	case int16:
		return IntVal(KInt16, int64(t)), true
	case int32:
		return IntVal(KInt32, int64(t)), true
	case int64:
		return IntVal(KInt64, t), true
	case uint:
		return UintVal(KUint, uint64(t)), true
	case uint8:
		return UintVal(KUint8, uint64(t)), true
	case uint16:
		return UintVal(KUint16, uint64(t)), true
	case uint32:
		return UintVal(KUint32, uint64(t)), true
	case uint64:
		return UintVal(KUint64, t), true
	case float32:
		return FloatVal(KFloat32, float64(t)), true
	case float64:
		return FloatVal(KFloat64, t), true
	case string:
		return StrVal(t), true
	case bool:
		return BoolVal(t), true
	}
	return Val{}, false
}

// Repr is a canonical, bit-exact rendering "<kind>:<value>" (floats by their bit pattern).
func (v Val) Repr() string {
	switch v.K.Class() {
	case CInt:
		return v.K.String() + ":" + strconv.FormatInt(v.I, 10)
	case CUint:
		return v.K.String() + ":" + strconv.FormatUint(v.U, 10)
	case CFloat:
		if v.K == KFloat32 {
			return fmt.Sprintf("float32:%08x(%v)", math.Float32bits(float32(v.F)), float32(v.F))
		}
		return fmt.Sprintf("float64:%016x(%v)", math.Float64bits(v.F), v.F)
	case CString:
		return "string:" + strconv.Quote(v.S)
	}
	return "bool:" + strconv.FormatBool(v.B)
}

// ReprGo renders an arbitrary Go value the same way (unknown types by %T:%v).
func ReprGo(x interface{}) string {
	if v, ok := FromGo(x); ok {
		return v.Repr()
	}
	return fmt.Sprintf("%T:%v", x, x)
}

// Zero value of a kind.
func Zero(k Kind) Val { return Val{K: k} }

const (
	two63 = 9223372036854775808.0  // 2^63
	two64 = 18446744073709551616.0 // 2^64
)

// floatToInt64 converts an integral float64 inside [-2^63, 2^63) exactly.
func floatIsInt64(f float64) bool { return f == math.Trunc(f) && f >= -two63 && f < two63 }
func floatIsUint64(f float64) bool {
	return f == math.Trunc(f) && f >= 0 && f < two64
}

// Representable reports whether v converts to kind t without loss: the Go conversion t(v) is in
// range and converting the result back yields v again. Strings and bools are representable only in
// their own kind.
func Representable(v Val, t Kind) bool {
	if !v.K.Numeric() || !t.Numeric() {
		return v.K == t
	}
	switch v.K.Class() {
	case CInt:
		x := v.I
		switch t.Class() {
		case CInt:
			return x >= MinInt(t) && x <= MaxInt(t)
		case CUint:
			return x >= 0 && uint64(x) <= MaxUint(t)
		case CFloat:
			var f float64
			if t == KFloat32 {
				f = float64(float32(x))
			} else {
				f = float64(x)
			}
			return floatIsInt64(f) && int64(f) == x
		}
	case CUint:
		x := v.U
		switch t.Class() {
		case CInt:
			return x <= uint64(MaxInt(t))
		case CUint:
			return x <= MaxUint(t)
		case CFloat:
			var f float64
			if t == KFloat32 {
				f = float64(float32(x))
			} else {
				f = float64(x)
			}
			return floatIsUint64(f) && uint64(f) == x
		}
	case CFloat:
		f := v.F
		switch t.Class() {
		case CInt:
			if !floatIsInt64(f) {
				return false
			}
			x := int64(f)
			return x >= MinInt(t) && x <= MaxInt(t)
		case CUint:
			if !floatIsUint64(f) {
				return false
			}
			return uint64(f) <= MaxUint(t)
		case CFloat:
			if math.IsNaN(f) {
				return false
			}
			if t == KFloat32 {
				g := float32(f)
				return !math.IsInf(float64(g), 0) && float64(g) == f
			}
			return true
		}
	}
	return false
}

// Convert is the Go conversion t(v). It is only meaningful when Representable(v, t).
func Convert(v Val, t Kind) Val {
	if !v.K.Numeric() || !t.Numeric() {
		r := v
		r.K = t
		return r
	}
	switch t.Class() {
	case CInt:
		switch v.K.Class() {
		case CInt:
			return IntVal(t, v.I)
		case CUint:
			return IntVal(t, int64(v.U))
		}
		return IntVal(t, int64(v.F))
	case CUint:
		switch v.K.Class() {
		case CInt:
			return UintVal(t, uint64(v.I))
		case CUint:
			return UintVal(t, v.U)
		}
		return UintVal(t, uint64(v.F))
	}
	var f float64
	switch v.K.Class() {
	case CInt:
		f = float64(v.I)
		if t == KFloat32 {
			f = float64(float32(v.I))
		}
	case CUint:
		f = float64(v.U)
		if t == KFloat32 {
			f = float64(float32(v.U))
		}
	default:
		f = v.F
		if t == KFloat32 {
			f = float64(float32(v.F))
		}
	}
	return FloatVal(t, f)
}

// AddAssign computes the value that `target += rhs` assigns when the target currently holds cur,
// following the expression semantics (integer arithmetic in 64 bits, a float operand promotes the
// operation to float64, `+` concatenates strings).
//
//	ok      = the sum is defined and did not wrap around
//	anyInt  = the operands mix a signed and an unsigned integer, so the statement does not fix the
//	          integer class of the sum; the returned value is then an int64 whose numeric value is
//	          right under either reading (operands and sum lie in [0, 2^63-1])
func AddAssign(cur, rhs Val) (sum Val, anyInt bool, ok bool) {
	cc, rc := cur.K.Class(), rhs.K.Class()
	if cc == CString && rc == CString {
		return StrVal(cur.S + rhs.S), false, true
	}
	if !cur.K.Numeric() || !rhs.K.Numeric() {
		return Val{}, false, false
	}
	if cc == CFloat || rc == CFloat {
		return FloatVal(KFloat64, toF64(cur)+toF64(rhs)), false, true
	}
	switch {
	case cc == CInt && rc == CInt:
		s := cur.I + rhs.I
		if (rhs.I > 0 && s < cur.I) || (rhs.I < 0 && s > cur.I) {
			return Val{}, false, false
		}
		return IntVal(KInt64, s), false, true
	case cc == CUint && rc == CUint:
		s := cur.U + rhs.U
		if s < cur.U {
			return Val{}, false, false
		}
		return UintVal(KUint64, s), false, true
	}
	// mixed signedness
	var a, b uint64
	if cc == CInt {
		if cur.I < 0 {
			return Val{}, false, false
		}
		a, b = uint64(cur.I), rhs.U
	} else {
		if rhs.I < 0 {
			return Val{}, false, false
		}
		a, b = cur.U, uint64(rhs.I)
	}
	if a > math.MaxInt64 || b > math.MaxInt64 || a+b > math.MaxInt64 {
		return Val{}, false, false
	}
	return IntVal(KInt64, int64(a+b)), true, true
}

func toF64(v Val) float64 {
	switch v.K.Class() {
	case CInt:
		return float64(v.I)
	case CUint:
		return float64(v.U)
	}
	return v.F
}

// LitText renders an int64 / float64 / string / bool value as a literal of the rule language
// (ok=false if the language has no literal of that kind).
func LitText(v Val) (string, bool) {
	switch v.K {
	case KInt64:
		return strconv.FormatInt(v.I, 10), true
	case KFloat64:
		if math.IsInf(v.F, 0) || math.IsNaN(v.F) {
			return "", false
		}
		s := strconv.FormatFloat(v.F, 'f', -1, 64)
		if !strings.Contains(s, ".") {
			s += ".0"
		}
		return s, true
	case KString:
		if strings.ContainsAny(v.S, "\"\\\n") {
			return "", false
		}
		return "\"" + v.S + "\"", true
	case KBool:
		return strconv.FormatBool(v.B), true
	}
	return "", false
}

// ---- candidate values -------------------------------------------------------------------------

// Edges of a kind: its extreme values, their outside neighbours and, for floats, the limits of exact
// integer representation; as mathematical values held in the widest fitting kind.
func Edges(k Kind) []Val {
	var out []Val
	switch k.Class() {
	case CInt:
		mn, mx := MinInt(k), MaxInt(k)
		out = append(out, IntVal(KInt64, mn), IntVal(KInt64, mx))
		if k.Bits() < 64 {
			out = append(out, IntVal(KInt64, mn-1), IntVal(KInt64, mx+1))
		} else {
			out = append(out, UintVal(KUint64, uint64(mx)+1), FloatVal(KFloat64, -two63), FloatVal(KFloat64, two63))
		}
	case CUint:
		mx := MaxUint(k)
		out = append(out, UintVal(KUint64, mx), IntVal(KInt64, -1))
		if k.Bits() < 64 {
			out = append(out, UintVal(KUint64, mx+1))
		} else {
			out = append(out, FloatVal(KFloat64, two64), FloatVal(KFloat64, two63))
		}
	case CFloat:
		if k == KFloat32 {
			out = append(out, IntVal(KInt64, 1<<24), IntVal(KInt64, 1<<24+1), IntVal(KInt64, -(1<<24)),
				FloatVal(KFloat64, math.MaxFloat32), FloatVal(KFloat64, -math.MaxFloat32),
				FloatVal(KFloat64, math.MaxFloat32*2), FloatVal(KFloat64, 0.1))
		} else {
			out = append(out, IntVal(KInt64, 1<<53), IntVal(KInt64, 1<<53+1), IntVal(KInt64, -(1<<53)),
				FloatVal(KFloat64, math.MaxFloat64), FloatVal(KFloat64, -math.MaxFloat64), FloatVal(KFloat64, 0.1))
		}
	}
	return out
}

// Common small values every numeric pair is tried with.
func CommonVals() []Val {
	return []Val{IntVal(KInt64, 0), IntVal(KInt64, 1), IntVal(KInt64, -1), IntVal(KInt64, 100), FloatVal(KFloat64, 2.5), FloatVal(KFloat64, 0.5)}
}

// SourceVals: the candidate values for storing a value of kind src into a location of kind target:
// the edges of both kinds and the common values, as far as they exist in kind src; without
// duplicates, in a fixed order (simplest first).
func SourceVals(src, target Kind) []Val {
	if !src.Numeric() || !target.Numeric() {
		return nil
	}
	var cands []Val
	cands = append(cands, CommonVals()...)
	cands = append(cands, Edges(target)...)
	if src != target {
		cands = append(cands, Edges(src)...)
	}
	var out []Val
	seen := map[string]bool{}
	for _, c := range cands {
		if !Representable(c, src) {
			continue
		}
		v := Convert(c, src)
		if r := v.Repr(); !seen[r] {
			seen[r] = true
			out = append(out, v)
		}
	}
	return out
}

// ---- self test ---------------------------------------------------------------------------------

func exactBig(v Val) *big.Float {
	f := new(big.Float).SetPrec(256)
	switch v.K.Class() {
	case CInt:
		f.SetInt64(v.I)
	case CUint:
		f.SetUint64(v.U)
	default:
		f.SetFloat64(v.F)
	}
	return f
}

// representableBig is an independent formulation over exact arithmetic (math/big), used only to
// cross-check Representable in the self test.
func representableBig(v Val, t Kind) bool {
	x := exactBig(v)
	switch t.Class() {
	case CInt:
		if !x.IsInt() {
			return false
		}
		lo := new(big.Float).SetPrec(256).SetInt64(MinInt(t))
		hi := new(big.Float).SetPrec(256).SetInt64(MaxInt(t))
		return x.Cmp(lo) >= 0 && x.Cmp(hi) <= 0
	case CUint:
		if !x.IsInt() {
			return false
		}
		hi := new(big.Float).SetPrec(256).SetUint64(MaxUint(t))
		return x.Sign() >= 0 && x.Cmp(hi) <= 0
	}
	if t == KFloat32 {
		g, acc := x.Float32()
		return acc == big.Exact && !math.IsInf(float64(g), 0)
	}
	g, acc := x.Float64()
	return acc == big.Exact && !math.IsInf(g, 0)
}

type golden struct {
	v    Val
	t    Kind
	rep  bool
	want interface{}
}

// DataSelfTest pins the reference conversion with hand-computed golden cases and cross-checks
// Representable against exact arithmetic over the whole candidate value table.
func DataSelfTest() error {
	i64 := func(i int64) Val { return IntVal(KInt64, i) }
	u64 := func(u uint64) Val { return UintVal(KUint64, u) }
	f64 := func(f float64) Val { return FloatVal(KFloat64, f) }
	gs := []golden{
		{i64(300), KInt8, false, nil},
		{i64(127), KInt8, true, int8(127)},
		{i64(-128), KInt8, true, int8(-128)},
		{i64(-129), KInt8, false, nil},
		{i64(128), KInt8, false, nil},
		{f64(2.5), KInt, false, nil},
		{f64(3.0), KUint8, true, uint8(3)},
		{f64(-3.0), KInt16, true, int16(-3)},
		{f64(-1.0), KUint16, false, nil},
		{f64(256.0), KUint8, false, nil},
		{i64(-1), KUint, false, nil},
		{i64(-1), KUint64, false, nil},
		{i64(255), KUint8, true, uint8(255)},
		{i64(256), KUint8, false, nil},
		{i64(math.MaxInt64), KUint64, true, uint64(math.MaxInt64)},
		{u64(math.MaxUint64), KFloat64, false, nil},
		{u64(math.MaxUint64), KInt64, false, nil},
		{u64(1 << 63), KInt64, false, nil},
		{u64(1 << 63), KFloat64, true, float64(9223372036854775808.0)},
		{u64(1 << 63), KFloat32, true, float32(9223372036854775808.0)},
		{i64(1<<53 + 1), KFloat64, false, nil},
		{i64(1 << 53), KFloat64, true, float64(9007199254740992.0)},
		{i64(1<<53 + 2), KFloat64, true, float64(9007199254740994.0)},
		{i64(1<<24 + 1), KFloat32, false, nil},
		{i64(1 << 24), KFloat32, true, float32(16777216.0)},
		{i64(1<<24 + 1), KFloat64, true, float64(16777217.0)},
		{i64(math.MaxInt64), KFloat64, false, nil},
		{i64(math.MinInt64), KFloat64, true, float64(-9223372036854775808.0)},
		{i64(math.MinInt64), KFloat32, true, float32(-9223372036854775808.0)},
		{f64(two63), KInt64, false, nil},
		{f64(-two63), KInt64, true, int64(math.MinInt64)},
		{f64(two63), KUint64, true, uint64(1 << 63)},
		{f64(two64), KUint64, false, nil},
		{f64(0.1), KFloat32, false, nil},
		{f64(0.5), KFloat32, true, float32(0.5)},
		{f64(math.MaxFloat32), KFloat32, true, float32(math.MaxFloat32)},
		{f64(math.MaxFloat32 * 2), KFloat32, false, nil},
		{f64(math.MaxFloat64), KFloat32, false, nil},
		{f64(math.MaxFloat64), KInt64, false, nil},
		{FloatVal(KFloat32, 16777216.0), KInt32, true, int32(16777216)},
		{FloatVal(KFloat32, 0.5), KFloat64, true, float64(0.5)},
		{IntVal(KInt8, -128), KInt64, true, int64(-128)},
		{IntVal(KInt8, -128), KFloat32, true, float32(-128)},
		{UintVal(KUint8, 200), KInt8, false, nil},
		{UintVal(KUint8, 200), KInt16, true, int16(200)},
		{UintVal(KUint32, math.MaxUint32), KInt32, false, nil},
		{UintVal(KUint32, math.MaxUint32), KFloat32, false, nil},
		{UintVal(KUint32, math.MaxUint32), KFloat64, true, float64(4294967295.0)},
		{StrVal("a"), KString, true, "a"},
		{StrVal("a"), KInt, false, nil},
		{i64(5), KString, false, nil},
		{BoolVal(true), KBool, true, true},
		{BoolVal(true), KInt8, false, nil},
	}
	for _, g := range gs {
		if !g.v.Valid() {
			return fmt.Errorf("golden value %s is not valid for its own kind", g.v.Repr())
		}
		if got := Representable(g.v, g.t); got != g.rep {
			return fmt.Errorf("Representable(%s, %s) = %v, want %v", g.v.Repr(), g.t, got, g.rep)
		}
		if g.rep {
			got := Convert(g.v, g.t).Go()
			if reflect.TypeOf(got) != reflect.TypeOf(g.want) || got != g.want {
				return fmt.Errorf("Convert(%s, %s) = %s, want %s", g.v.Repr(), g.t, ReprGo(got), ReprGo(g.want))
			}
		}
	}
	// cross-check against exact arithmetic over the whole candidate table, and the round trip
	n := 0
	for _, s := range NumericKinds() {
		for _, t := range NumericKinds() {
			for _, v := range SourceVals(s, t) {
				if !v.Valid() || v.K != s {
					return fmt.Errorf("candidate %s is not a valid %s", v.Repr(), s)
				}
				a, b := Representable(v, t), representableBig(v, t)
				if a != b {
					return fmt.Errorf("Representable(%s, %s) = %v but exact arithmetic says %v", v.Repr(), t, a, b)
				}
				if a {
					c := Convert(v, t)
					if !c.Valid() || c.K != t {
						return fmt.Errorf("Convert(%s, %s) = %s is not a valid %s", v.Repr(), t, c.Repr(), t)
					}
					if exactBig(c).Cmp(exactBig(v)) != 0 {
						return fmt.Errorf("Convert(%s, %s) = %s changes the value", v.Repr(), t, c.Repr())
					}
					if w, ok := FromGo(c.Go()); !ok || w.Repr() != c.Repr() {
						return fmt.Errorf("Go()/FromGo round trip of %s gives %s", c.Repr(), w.Repr())
					}
				}
				n++
			}
		}
	}
	if n < 500 {
		return fmt.Errorf("candidate table unexpectedly small (%d)", n)
	}
	// AddAssign goldens
	type ag struct {
		cur, rhs Val
		want     string
		any, ok  bool
	}
	for _, g := range []ag{
		{IntVal(KInt8, 11), i64(116), "int64:127", false, true},
		{UintVal(KUint8, 11), UintVal(KUint16, 244), "uint64:255", false, true},
		{UintVal(KUint8, 11), i64(1), "int64:12", true, true},
		{UintVal(KUint8, 11), i64(-1), "", false, false},
		{UintVal(KUint64, math.MaxUint64), i64(0), "", false, false},
		{i64(math.MaxInt64), i64(1), "", false, false},
		{FloatVal(KFloat32, 11.5), i64(1), f64(12.5).Repr(), false, true},
		{IntVal(KInt16, 11), f64(0.5), f64(11.5).Repr(), false, true},
		{StrVal("s11"), StrVal("x"), "string:\"s11x\"", false, true},
		{StrVal("s11"), i64(1), "", false, false},
		{BoolVal(true), BoolVal(true), "", false, false},
	} {
		s, anyInt, ok := AddAssign(g.cur, g.rhs)
		if ok != g.ok || (ok && (s.Repr() != g.want || anyInt != g.any)) {
			return fmt.Errorf("AddAssign(%s, %s) = %s,%v,%v want %s,%v,%v", g.cur.Repr(), g.rhs.Repr(), s.Repr(), anyInt, ok, g.want, g.any, g.ok)
		}
	}
	// literal rendering must read back exactly
	for _, v := range []Val{f64(math.MaxFloat64), f64(-math.MaxFloat32), f64(0.1), f64(16777217), f64(two63)} {
		s, _ := LitText(v)
		back, err := strconv.ParseFloat(s, 64)
		if err != nil || back != v.F || !strings.Contains(s, ".") || strings.ContainsAny(s, "eE+") {
			return fmt.Errorf("LitText(%v) = %q does not read back", v.F, s)
		}
	}
	return nil
}

// ---- host objects --------------------------------------------------------------------------------

// Inner is the second-level struct (reached through Outer.In and Outer.Nv).
type Inner struct {
	I   int
	I8  int8
	I16 int16
	I32 int32
	I64 int64
	U   uint
	U8  uint8
	U16 uint16
	U32 uint32
	U64 uint64
	F32 float32
	F64 float64
	Str string
	B   bool
}

// Outer is the injected struct: one field of every scalar kind, a struct-pointer field and a nested
// struct field.
type Outer struct {
	I   int
	I8  int8
	I16 int16
	I32 int32
	I64 int64
	U   uint
	U8  uint8
	U16 uint16
	U32 uint32
	U64 uint64
	F32 float32
	F64 float64
	Str string
	B   bool
	In  *Inner
	Nv  Inner
}

// Named is one injected host object.
type Named struct {
	Name string
	Obj  interface{}
}

// World is the complete set of host objects of one execution. Names (K = kind name):
//
//	S   *Outer            SV  Outer (by value, with its own *Inner)
//	P<K>   *K             pointer-injected scalar
//	MS<K>  map[string]K   MSp<K> *map[string]K     keys "k", "z"
//	MI<K>  map[int]K      MIp<K> *map[int]K        keys 3, 4
//	ML<K>  map[int64]K                             keys 3, 4
//	L<K>   []K            Lp<K>  *[]K              3 elements
//	A<K>   [3]K (value)   Ap<K>  *[3]K
type World struct {
	Objs []Named
}

// Initial numbers: every location gets base(container)+offset; all fit every numeric kind.
func initOf(k Kind, n int64) Val {
	switch k.Class() {
	case CInt:
		return IntVal(k, n)
	case CUint:
		return UintVal(k, uint64(n))
	case CFloat:
		return FloatVal(k, float64(n)+0.5)
	case CString:
		return StrVal("s" + strconv.FormatInt(n, 10))
	}
	return BoolVal(n%2 == 1)
}

type scalar interface {
	int | int8 | int16 | int32 | int64 | uint | uint8 | uint16 | uint32 | uint64 | float32 | float64 | string | bool
}

func mk[T scalar](k Kind, n int64) T { return initOf(k, n).Go().(T) }

func addContainers[T scalar](w *World, k Kind) {
	kn := k.String()
	p := new(T)
	*p = mk[T](k, 15)
	w.add("P"+kn, p)
	w.add("MS"+kn, map[string]T{"k": mk[T](k, 21), "z": mk[T](k, 22)})
	msp := map[string]T{"k": mk[T](k, 23), "z": mk[T](k, 24)}
	w.add("MSp"+kn, &msp)
	w.add("MI"+kn, map[int]T{3: mk[T](k, 25), 4: mk[T](k, 26)})
	mip := map[int]T{3: mk[T](k, 27), 4: mk[T](k, 28)}
	w.add("MIp"+kn, &mip)
	w.add("ML"+kn, map[int64]T{3: mk[T](k, 29), 4: mk[T](k, 30)})
	w.add("L"+kn, []T{mk[T](k, 31), mk[T](k, 32), mk[T](k, 33)})
	lp := []T{mk[T](k, 34), mk[T](k, 35), mk[T](k, 36)}
	w.add("Lp"+kn, &lp)
	w.add("A"+kn, [3]T{mk[T](k, 37), mk[T](k, 38), mk[T](k, 39)})
	w.add("Ap"+kn, &[3]T{mk[T](k, 40), mk[T](k, 41), mk[T](k, 42)})
}

func (w *World) add(name string, obj interface{}) { w.Objs = append(w.Objs, Named{name, obj}) }

func fillInner(in *Inner, n int64) {
	in.I, in.I8, in.I16, in.I32, in.I64 = mk[int](KInt, n), mk[int8](KInt8, n), mk[int16](KInt16, n), mk[int32](KInt32, n), mk[int64](KInt64, n)
	in.U, in.U8, in.U16, in.U32, in.U64 = mk[uint](KUint, n), mk[uint8](KUint8, n), mk[uint16](KUint16, n), mk[uint32](KUint32, n), mk[uint64](KUint64, n)
	in.F32, in.F64, in.Str, in.B = mk[float32](KFloat32, n), mk[float64](KFloat64, n), mk[string](KString, n), mk[bool](KBool, n)
}

func newOuter(n int64) *Outer {
	var top Inner
	fillInner(&top, n)
	o := &Outer{I: top.I, I8: top.I8, I16: top.I16, I32: top.I32, I64: top.I64, U: top.U, U8: top.U8, U16: top.U16, U32: top.U32, U64: top.U64,
		F32: top.F32, F64: top.F64, Str: top.Str, B: top.B}
	o.In = &Inner{}
	fillInner(o.In, n+1)
	fillInner(&o.Nv, n+2)
	return o
}

// NewWorld builds fresh host objects (always the same initial contents).
func NewWorld() *World {
	w := &World{}
	w.add("S", newOuter(5))
	w.add("SV", *newOuter(8))
	addContainers[int](w, KInt)
	addContainers[int8](w, KInt8)
	addContainers[int16](w, KInt16)
	addContainers[int32](w, KInt32)
	addContainers[int64](w, KInt64)
	addContainers[uint](w, KUint)
	addContainers[uint8](w, KUint8)
	addContainers[uint16](w, KUint16)
	addContainers[uint32](w, KUint32)
	addContainers[uint64](w, KUint64)
	addContainers[float32](w, KFloat32)
	addContainers[float64](w, KFloat64)
	addContainers[string](w, KString)
	addContainers[bool](w, KBool)
	return w
}

// Inject returns the name -> object table handed to the engine.
func (w *World) Inject() map[string]interface{} {
	m := make(map[string]interface{}, len(w.Objs)+8)
	for _, o := range w.Objs {
		m[o.Name] = o.Obj
	}
	return m
}

// Get returns the host object injected under name (nil if none).
func (w *World) Get(name string) interface{} {
	for _, o := range w.Objs {
		if o.Name == name {
			return o.Obj
		}
	}
	return nil
}

// Snapshot lists every scalar location of every host object as location -> value. Locations:
// "S.I8", "S.In.I8", "Pint8", `MSint8["k"]`, "MIint8[3]", "Lpint8[1]" (pointers are looked through).
// This is observation of the harness' own objects; reflection here is not part of the reference
// semantics.
func (w *World) Snapshot() map[string]Val {
	out := make(map[string]Val, 1024)
	for _, o := range w.Objs {
		snap(out, o.Name, reflect.ValueOf(o.Obj))
	}
	return out
}

func snap(out map[string]Val, loc string, v reflect.Value) {
	switch v.Kind() {
	case reflect.Ptr:
		if v.IsNil() {
			out[loc] = StrVal("<nil pointer>")
			return
		}
		snap(out, loc, v.Elem())
	case reflect.Struct:
		for i := 0; i < v.NumField(); i++ {
			snap(out, loc+"."+v.Type().Field(i).Name, v.Field(i))
		}
	case reflect.Map:
		out[loc+"#len"] = IntVal(KInt, int64(v.Len()))
		for _, k := range v.MapKeys() {
			var ks string
			if k.Kind() == reflect.String {
				ks = strconv.Quote(k.String())
			} else {
				ks = strconv.FormatInt(k.Int(), 10)
			}
			snap(out, loc+"["+ks+"]", v.MapIndex(k))
		}
	case reflect.Slice, reflect.Array:
		out[loc+"#len"] = IntVal(KInt, int64(v.Len()))
		for i := 0; i < v.Len(); i++ {
			snap(out, loc+"["+strconv.Itoa(i)+"]", v.Index(i))
		}
	default:
		out[loc] = reprReflect(v)
	}
}

func reprReflect(v reflect.Value) Val {
	switch v.Kind() {
	case reflect.Int, reflect.Int8, reflect.Int16, reflect.Int32, reflect.Int64:
		return Val{K: KindByName(v.Type().String()), I: v.Int()}
	case reflect.Uint, reflect.Uint8, reflect.Uint16, reflect.Uint32, reflect.Uint64:
		return Val{K: KindByName(v.Type().String()), U: v.Uint()}
	case reflect.Float32, reflect.Float64:
		return Val{K: KindByName(v.Type().String()), F: v.Float()}
	case reflect.String:
		return Val{K: KString, S: v.String()}
	case reflect.Bool:
		return Val{K: KBool, B: v.Bool()}
	}
	return StrVal(fmt.Sprintf("<%s>", v.Type()))
}

// DiffSnapshots lists the locations whose contents differ, bit-exactly (sorted).
func DiffSnapshots(want, got map[string]Val) []string {
	var ds []string
	for k, a := range want {
		if b, ok := got[k]; !ok {
			ds = append(ds, fmt.Sprintf("%s: want %s, got (no such location)", k, a.Repr()))
		} else if a.Repr() != b.Repr() {
			ds = append(ds, fmt.Sprintf("%s: want %s, got %s", k, a.Repr(), b.Repr()))
		}
	}
	for k, b := range got {
		if _, ok := want[k]; !ok {
			ds = append(ds, fmt.Sprintf("%s: want (no such location), got %s", k, b.Repr()))
		}
	}
	sort.Strings(ds)
	return ds
}
