package ref

// stmt.go: reference semantics of the rule language's statements (property C02).
//
// A direct structural interpreter of a small statement AST. Go's own `for`, `break`, `continue`
// and early `return` do the work; there is ONE flat map of locals per rule execution, so a local
// is visible from its first assignment to the end of the rule regardless of block nesting.
// Names are looked up in the injected (host) table first, then in the locals - the same rule for
// reads and writes. All values are int64 (Go arithmetic; `/` truncates, division by zero fails).
// Reading a name that is neither injected nor assigned yet fails the rule at that point.
//
// The only thing the statement of C02 leaves open is the visiting order of `forRange` over a map:
// the interpreter takes the order from a choice sequence and SRunAll enumerates every order.

import (
	"fmt"
	"sort"
	"strings"
)

type SKind string

const (
	SObs      SKind = "obs"
	SAssign   SKind = "assign"
	SIf       SKind = "if"
	SFor      SKind = "for"
	SRange    SKind = "range"
	SBreak    SKind = "break"
	SContinue SKind = "continue"
)

// SExpr is a constant (Var == "") or the current value of a name.
type SExpr struct {
	Var string `json:"var,omitempty"`
	C   int64  `json:"c,omitempty"`
}

// SCond: Op is "true", "false", "var" (the injected bool Var), a comparison "==", "<", ">"
// of the name Var with the constant C, or "tick": a call of the injected function tick(), which
// records observer event 99 and answers true, false, true, ... (a condition with a side effect:
// how often and in which order conditions are evaluated becomes observable).
type SCond struct {
	Op  string `json:"op"`
	Var string `json:"var,omitempty"`
	C   int64  `json:"c,omitempty"`
}

type SElif struct {
	Cond SCond   `json:"cond"`
	Body *SBlock `json:"body"`
}

// SStmt is one statement.
//
//	obs      ID, Args          call the observer with the values of the names in Args
//	assign   Target Op E       Op is "=", ":=", "+=", "-=", "*=", "/="
//	if       Cond Then Elifs Else
//	for      Var N Body        for Var = 0; Var < N; Var += 1 { Body }
//	range    Var Coll Body     forRange Var := Coll { Body }
//	break / continue
type SStmt struct {
	Kind   SKind    `json:"kind"`
	ID     int64    `json:"id,omitempty"`
	Args   []string `json:"args,omitempty"`
	Target string   `json:"target,omitempty"`
	Op     string   `json:"op,omitempty"`
	E      *SExpr   `json:"e,omitempty"`
	Cond   *SCond   `json:"cond,omitempty"`
	Then   *SBlock  `json:"then,omitempty"`
	Elifs  []SElif  `json:"elifs,omitempty"`
	Else   *SBlock  `json:"else,omitempty"`
	Var    string   `json:"var,omitempty"`
	N      int64    `json:"n,omitempty"`
	Coll   string   `json:"coll,omitempty"`
	Body   *SBlock  `json:"body,omitempty"`
}

// SReturn: bare `return` when E is nil.
type SReturn struct {
	E *SExpr `json:"e,omitempty"`
}

// SBlock is a statement list with an optional trailing return.
type SBlock struct {
	Stmts []*SStmt `json:"stmts,omitempty"`
	Ret   *SReturn `json:"ret,omitempty"`
}

// SColl is an injected collection: a slice/array (Keys = 0..len-1) or a map (Keys sorted).
type SColl struct {
	Map  bool
	Keys []int64
}

// SHost is the injected data a rule sees.
type SHost struct {
	Bools map[string]bool
	Ints  map[string]int64 // injected integer targets, e.g. "S.F"
	Colls map[string]SColl
}

// SEvent is one observer call.
type SEvent struct {
	ID   int64
	Vals []int64
}

// SOutcome is everything a caller can observe of one rule execution.
type SOutcome struct {
	Trace    []SEvent
	Ints     map[string]int64 // final injected integers
	Returned bool             // a return was reached (result-map entry present)
	HasVal   bool             // ... with a value (else the entry is nil)
	Val      int64
	Err      string // "" or why the rule failed; on failure Returned/HasVal/Val are meaningless
}

func (o SOutcome) TraceString() string { return STraceString(o.Trace) }

// STraceString renders a trace as "id(v,v) id(v) ...".
func STraceString(t []SEvent) string {
	var sb strings.Builder
	for i, e := range t {
		if i > 0 {
			sb.WriteByte(' ')
		}
		fmt.Fprintf(&sb, "%d(", e.ID)
		for j, v := range e.Vals {
			if j > 0 {
				sb.WriteByte(',')
			}
			fmt.Fprintf(&sb, "%d", v)
		}
		sb.WriteByte(')')
	}
	return sb.String()
}

// String renders the whole outcome (used for comparisons in self-tests and messages).
func (o SOutcome) String() string {
	var ks []string
	for k := range o.Ints {
		ks = append(ks, k)
	}
	sort.Strings(ks)
	var hs []string
	for _, k := range ks {
		hs = append(hs, fmt.Sprintf("%s=%d", k, o.Ints[k]))
	}
	res := "no-entry"
	if o.Err != "" {
		res = "error"
	} else if o.Returned && o.HasVal {
		res = fmt.Sprintf("entry=%d", o.Val)
	} else if o.Returned {
		res = "entry=nil"
	}
	return fmt.Sprintf("trace[%s] host[%s] %s", STraceString(o.Trace), strings.Join(hs, " "), res)
}

type sFail struct{ msg string }

type sCtl int

const (
	sNext sCtl = iota
	sBrk
	sCont
	sRet
)

type sPruned struct{}

type sInterp struct {
	host    SHost
	ints    map[string]int64 // working copy of host.Ints
	locals  map[string]int64 // the one flat map of locals
	out     *SOutcome
	choices []int
	points  []int // number of alternatives at every order choice met
	probe   func(s *SStmt, defined []string)
	ticks   int // calls of the tick() condition so far
	// search bookkeeping (see sAll): states already seen at a free order choice, and the keys the
	// enclosing forRange loops still have to visit (the only part of the continuation that is
	// neither static nor stored in a local)
	visited map[string]bool
	pending []string
	// diagnosis only (SVariant*): locals bound by reference to an injected integer
	variant string
	alias   map[string]string
}

func (in *sInterp) fail(f string, a ...interface{}) { panic(sFail{fmt.Sprintf(f, a...)}) }

func (in *sInterp) get(name string) int64 {
	if v, ok := in.ints[name]; ok {
		return v
	}
	if v, ok := in.locals[name]; ok {
		if a, ok := in.alias[name]; ok {
			return in.ints[a]
		}
		return v
	}
	in.fail("undefined:%s", name)
	return 0
}

func (in *sInterp) set(name string, v int64) {
	if _, ok := in.ints[name]; ok {
		in.ints[name] = v
		return
	}
	delete(in.alias, name)
	in.locals[name] = v
}

func (in *sInterp) eval(e *SExpr) int64 {
	if e.Var == "" {
		return e.C
	}
	return in.get(e.Var)
}

func (in *sInterp) cond(c *SCond) bool {
	switch c.Op {
	case "true":
		return true
	case "false":
		return false
	case "var":
		b, ok := in.host.Bools[c.Var]
		if !ok {
			in.fail("undefined:%s", c.Var)
		}
		return b
	case "==":
		return in.get(c.Var) == c.C
	case "<":
		return in.get(c.Var) < c.C
	case ">":
		return in.get(c.Var) > c.C
	case "tick":
		in.out.Trace = append(in.out.Trace, SEvent{ID: 99})
		in.ticks++
		return in.ticks%2 == 1
	}
	in.fail("bad condition %q", c.Op)
	return false
}

// stateKey identifies the interpreter state at the entry of loop statement s.
func (in *sInterp) stateKey(s *SStmt) string {
	var sb strings.Builder
	fmt.Fprintf(&sb, "%p|%s|", s, strings.Join(in.pending, ";"))
	for _, m := range []map[string]int64{in.locals, in.ints} {
		var ks []string
		for k := range m {
			ks = append(ks, k)
		}
		sort.Strings(ks)
		for _, k := range ks {
			fmt.Fprintf(&sb, "%s=%d,", k, m[k])
			if a, ok := in.alias[k]; ok {
				sb.WriteString("->" + a + ",")
			}
		}
		sb.WriteByte('|')
	}
	sb.WriteString(STraceString(in.out.Trace))
	return sb.String()
}

// order picks the visiting order of a map's keys from the choice sequence.
func (in *sInterp) order(s *SStmt, keys []int64) []int64 {
	n := len(keys)
	alts := 1
	for i := 2; i <= n; i++ {
		alts *= i
	}
	if alts <= 1 {
		return keys
	}
	c := 0
	if len(in.points) < len(in.choices) {
		c = in.choices[len(in.points)]
	} else if in.visited != nil {
		// a free choice: every alternative from this state is explored by the run that met it first
		k := in.stateKey(s)
		if in.visited[k] {
			panic(sPruned{})
		}
		in.visited[k] = true
	}
	in.points = append(in.points, alts)
	// c-th permutation (factorial number system)
	rest := append([]int64{}, keys...)
	var out []int64
	for i := n; i >= 1; i-- {
		f := 1
		for j := 2; j < i; j++ {
			f *= j
		}
		idx := c / f
		c %= f
		out = append(out, rest[idx])
		rest = append(rest[:idx], rest[idx+1:]...)
	}
	return out
}

func (in *sInterp) block(b *SBlock) sCtl {
	if b == nil {
		return sNext
	}
	for _, s := range b.Stmts {
		if c := in.stmt(s); c != sNext {
			return c
		}
	}
	if b.Ret != nil {
		if b.Ret.E != nil {
			v := in.eval(b.Ret.E)
			in.out.HasVal, in.out.Val = true, v
		}
		in.out.Returned = true
		return sRet
	}
	return sNext
}

func (in *sInterp) stmt(s *SStmt) sCtl {
	switch s.Kind {
	case SObs:
		if in.probe != nil {
			var d []string
			for k := range in.locals {
				d = append(d, k)
			}
			sort.Strings(d)
			in.probe(s, d)
			return sNext
		}
		ev := SEvent{ID: s.ID}
		for _, a := range s.Args {
			ev.Vals = append(ev.Vals, in.get(a))
		}
		in.out.Trace = append(in.out.Trace, ev)
		return sNext

	case SAssign:
		v := in.eval(s.E)
		if in.variant == SVariantByRef && (s.Op == "=" || s.Op == ":=") && s.E.Var != "" {
			if _, injected := in.ints[s.Target]; !injected {
				src, ok := in.alias[s.E.Var]
				if _, inj := in.ints[s.E.Var]; inj {
					src, ok = s.E.Var, true
				}
				if ok {
					in.locals[s.Target] = v
					in.alias[s.Target] = src
					return sNext
				}
			}
		}
		switch s.Op {
		case "=", ":=":
		case "+=":
			v = in.get(s.Target) + v
		case "-=":
			v = in.get(s.Target) - v
		case "*=":
			v = in.get(s.Target) * v
		case "/=":
			if v == 0 {
				in.fail("division by zero")
			}
			v = in.get(s.Target) / v
		default:
			in.fail("bad assignment operator %q", s.Op)
		}
		in.set(s.Target, v)
		return sNext

	case SIf:
		if in.cond(s.Cond) {
			return in.block(s.Then)
		}
		for i := range s.Elifs {
			if in.cond(&s.Elifs[i].Cond) {
				return in.block(s.Elifs[i].Body)
			}
		}
		if s.Else != nil {
			return in.block(s.Else)
		}
		return sNext

	case SFor:
	loop:
		for in.set(s.Var, 0); in.get(s.Var) < s.N; in.set(s.Var, in.get(s.Var)+1) {
			switch in.block(s.Body) {
			case sBrk:
				break loop
			case sCont:
				continue
			case sRet:
				return sRet
			}
		}
		return sNext

	case SRange:
		coll, ok := in.host.Colls[s.Coll]
		if !ok {
			in.fail("undefined:%s", s.Coll)
		}
		keys := coll.Keys
		if coll.Map {
			keys = in.order(s, keys)
		}
		in.pending = append(in.pending, "")
		defer func() { in.pending = in.pending[:len(in.pending)-1] }()
	visit:
		for n, k := range keys {
			in.pending[len(in.pending)-1] = fmt.Sprintf("%p%v", s, keys[n+1:])
			in.set(s.Var, k)
			switch in.block(s.Body) {
			case sBrk:
				break visit
			case sCont:
				continue
			case sRet:
				return sRet
			}
		}
		return sNext

	case SBreak:
		return sBrk
	case SContinue:
		return sCont
	}
	in.fail("bad statement kind %q", s.Kind)
	return sNext
}

// SVariantByRef is a diagnostic variant of the semantics, never used for a verdict: `v = name`
// with an injected integer on the right binds the local v to that injected integer by reference
// (later writes to the injected integer show through v until v is assigned again). A check may
// use it to name a disagreement.
const SVariantByRef = "local-bound-to-injected-by-reference"

type sSearch struct {
	p       *SBlock
	h       SHost
	probe   func(*SStmt, []string)
	variant string
	visited map[string]bool
}

// run executes p once. pruned: the run reached a free order choice in a state that an earlier run
// of the same search had already reached there (so everything after it is already covered).
func (se *sSearch) run(choices []int) (out SOutcome, points []int, pruned bool) {
	in := &sInterp{host: se.h, ints: map[string]int64{}, locals: map[string]int64{}, out: &out, choices: choices,
		probe: se.probe, visited: se.visited, variant: se.variant, alias: map[string]string{}}
	for k, v := range se.h.Ints {
		in.ints[k] = v
	}
	func() {
		defer func() {
			if r := recover(); r != nil {
				switch f := r.(type) {
				case sFail:
					out.Err = f.msg
				case sPruned:
					pruned = true
				default:
					panic(r)
				}
			}
		}()
		switch in.block(se.p) {
		case sBrk, sCont:
			// outside a loop: not specified by the property; generators never produce it
			in.fail("break/continue outside a loop")
		}
	}()
	out.Ints = in.ints
	if out.Err != "" {
		out.Returned, out.HasVal, out.Val = false, false, 0
	}
	return out, in.points, pruned
}

// SRun executes p once; map visiting orders are taken from choices (missing ones = sorted order).
func SRun(p *SBlock, h SHost, choices []int) SOutcome {
	o, _, _ := (&sSearch{p: p, h: h}).run(choices)
	return o
}

// all runs p under every sequence of order choices (depth-first, default order first); a run
// that arrives at a free choice in an already visited state is cut there.
func (se *sSearch) all(limit int, each func(o SOutcome)) bool {
	se.visited = map[string]bool{}
	stack := [][]int{nil}
	n := 0
	for len(stack) > 0 {
		pre := stack[len(stack)-1]
		stack = stack[:len(stack)-1]
		n++
		if n > limit {
			return false
		}
		o, pts, pruned := se.run(pre)
		if !pruned {
			each(o)
		}
		for idx := len(pts) - 1; idx >= len(pre); idx-- {
			for alt := pts[idx] - 1; alt >= 1; alt-- {
				c := make([]int, idx+1)
				copy(c, pre)
				c[idx] = alt
				stack = append(stack, c)
			}
		}
	}
	return true
}

// SRunAll returns the distinct admissible outcomes of p (one per map visiting order that makes a
// difference); complete is false if more than limit runs would be needed.
func SRunAll(p *SBlock, h SHost, limit int) (outs []SOutcome, complete bool) {
	return SRunAllVariant(p, h, limit, "")
}

// SRunAllVariant is SRunAll under a diagnostic variant of the semantics ("" = the reference).
func SRunAllVariant(p *SBlock, h SHost, limit int, variant string) (outs []SOutcome, complete bool) {
	seen := map[string]bool{}
	se := &sSearch{p: p, h: h, variant: variant}
	complete = se.all(limit, func(o SOutcome) {
		k := o.String()
		if !seen[k] {
			seen[k] = true
			outs = append(outs, o)
		}
	})
	return
}

// SObsDefined tells, for every obs statement of p that is reached, which locals are defined at
// every visit (under every map order). Generators use it to pass an observer exactly the locals
// that exist; the arguments already stored in the obs statements are ignored here.
func SObsDefined(p *SBlock, h SHost, limit int) (def map[*SStmt][]string, complete bool) {
	def = map[*SStmt][]string{}
	se := &sSearch{p: p, h: h}
	se.probe = func(s *SStmt, d []string) {
		old, ok := def[s]
		if !ok {
			def[s] = d
			return
		}
		var both []string
		for _, a := range old {
			for _, b := range d {
				if a == b {
					both = append(both, a)
				}
			}
		}
		def[s] = both
	}
	complete = se.all(limit, func(SOutcome) {})
	return
}
