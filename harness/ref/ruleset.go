package ref

import (
	"fmt"
	"sort"
)

// ruleset.go: the reference view of an installed rule set for the compile checks (C10).
// A rule is (salience, description, body tag); the body tag says *which* body is installed under
// the name ("a-v1" for a version-tagged prior rule, "text:<name>" for the body the submitted text
// gives that name). A full build replaces the whole set, an incremental build merges.

// RuleInfo is what is known about one installed rule.
type RuleInfo struct {
	Salience int64
	Desc     string
	BodyTag  string
}

// RuleSet maps a rule name to its installed definition.
type RuleSet map[string]RuleInfo

// Clone copies a set.
func (s RuleSet) Clone() RuleSet {
	c := RuleSet{}
	for k, v := range s {
		c[k] = v
	}
	return c
}

// Names returns the sorted rule names.
func (s RuleSet) Names() []string {
	ns := make([]string, 0, len(s))
	for k := range s {
		ns = append(ns, k)
	}
	sort.Strings(ns)
	return ns
}

// Replace is a successful full build: whatever was installed is gone, defs is installed.
func Replace(old, defs RuleSet) RuleSet {
	_ = old
	return defs.Clone()
}

// Merge is a successful incremental build: same-named rules are replaced, new ones added, all
// others are left as they were.
func Merge(old, defs RuleSet) RuleSet {
	n := old.Clone()
	for k, v := range defs {
		n[k] = v
	}
	return n
}

// Remove deletes exactly the named rules (absent names are ignored).
func Remove(old RuleSet, names []string) RuleSet {
	n := old.Clone()
	for _, k := range names {
		delete(n, k)
	}
	return n
}

// String renders a set deterministically.
func (s RuleSet) String() string {
	out := "{"
	for i, n := range s.Names() {
		if i > 0 {
			out += ", "
		}
		r := s[n]
		out += fmt.Sprintf("%q:(sal=%d desc=%q body=%s)", n, r.Salience, r.Desc, r.BodyTag)
	}
	return out + "}"
}

// RuleSetSelfTest pins the reference with hand-computed cases; it returns a complaint or "".
func RuleSetSelfTest() string {
	a1 := RuleInfo{10, "a-v1", "a-v1"}
	b1 := RuleInfo{5, "b-v1", "b-v1"}
	a2 := RuleInfo{3, "new a", "text:a"}
	n2 := RuleInfo{0, "", "text:n"}
	old := RuleSet{"a": a1, "b": b1}
	type tc struct {
		name string
		got  RuleSet
		want string
	}
	cases := []tc{
		{"replace by one new", Replace(old, RuleSet{"n": n2}), `{"n":(sal=0 desc="" body=text:n)}`},
		{"replace same name", Replace(old, RuleSet{"a": a2}), `{"a":(sal=3 desc="new a" body=text:a)}`},
		{"replace on empty", Replace(RuleSet{}, RuleSet{"a": a2, "n": n2}), `{"a":(sal=3 desc="new a" body=text:a), "n":(sal=0 desc="" body=text:n)}`},
		{"merge new", Merge(old, RuleSet{"n": n2}), `{"a":(sal=10 desc="a-v1" body=a-v1), "b":(sal=5 desc="b-v1" body=b-v1), "n":(sal=0 desc="" body=text:n)}`},
		{"merge same name", Merge(old, RuleSet{"a": a2}), `{"a":(sal=3 desc="new a" body=text:a), "b":(sal=5 desc="b-v1" body=b-v1)}`},
		{"merge both", Merge(old, RuleSet{"a": a2, "n": n2}), `{"a":(sal=3 desc="new a" body=text:a), "b":(sal=5 desc="b-v1" body=b-v1), "n":(sal=0 desc="" body=text:n)}`},
		{"merge on empty", Merge(RuleSet{}, RuleSet{"n": n2}), `{"n":(sal=0 desc="" body=text:n)}`},
	}
	for _, c := range cases {
		if c.got.String() != c.want {
			return fmt.Sprintf("ruleset self-test %q: got %s want %s", c.name, c.got, c.want)
		}
	}
	if len(old) != 2 || old["a"] != a1 || old["b"] != b1 {
		return "ruleset self-test: Merge/Replace modified their argument"
	}
	return ""
}
