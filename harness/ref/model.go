// Package ref holds the boring reference models the checks compare gengine against.
//
// model.go: for every execution model, the set of admissible observations (global event log of
// rule start/end events + error nil-ness), expressed as a staged plan. Where the statement leaves
// a choice open (order among rules of equal salience) every admissible choice is accepted.
package ref

import (
	"fmt"
	"sort"
)

// RuleRef is the reference view of one rule.
type RuleRef struct {
	ID      int64
	Name    string
	Sal     int64
	Fail    bool // fails at run time (after its start event; its end event is logged at the failure)
	SetsTag bool // sets the stop tag (before its end event)
}

// Ev is a start ("s") or end ("e") event of rule ID.
type Ev struct {
	K  string
	ID int64
}

const (
	Sorted = iota // one at a time, in the stage's listed order
	Conc          // all of the stage's rules, any interleaving
)

// Stage of a plan.
type Stage struct {
	Rules      []RuleRef
	Mode       int
	StopInside bool // sorted stage: stop at the first failing rule
	TagStops   bool // sorted stage: stop after a rule that set the stop tag
	StopAfter  bool // if a rule of this stage (or an earlier one) failed, later stages do not run
	TagAfter   bool // if a rule of this stage set the tag, later stages do not run
}

// Plan is what one call must do.
type Plan struct {
	Stages   []Stage
	MustFail bool // the call must return an error without running anything (Stages empty)
}

// Params of a call (mirror of gx.Params without engine types).
type Params struct {
	B     bool
	N, M  int
	Names []string
	Dag   [][]string
}

// orders enumerates every total order of rs that is non-increasing in salience.
func orders(rs []RuleRef) [][]RuleRef {
	s := append([]RuleRef{}, rs...)
	sort.SliceStable(s, func(i, j int) bool { return s[i].Sal > s[j].Sal })
	// groups of equal salience
	var groups [][]RuleRef
	for i := 0; i < len(s); {
		j := i
		for j < len(s) && s[j].Sal == s[i].Sal {
			j++
		}
		groups = append(groups, s[i:j])
		i = j
	}
	out := [][]RuleRef{{}}
	for _, g := range groups {
		var next [][]RuleRef
		for _, p := range perms(g) {
			for _, o := range out {
				next = append(next, append(append([]RuleRef{}, o...), p...))
			}
		}
		out = next
		if len(out) > 20000 {
			panic("ref.orders: more than 20000 admissible orders among equal saliences - use smaller tie groups")
		}
	}
	return out
}

func perms(g []RuleRef) [][]RuleRef {
	if len(g) <= 1 {
		return [][]RuleRef{append([]RuleRef{}, g...)}
	}
	var out [][]RuleRef
	for i := range g {
		rest := append(append([]RuleRef{}, g[:i]...), g[i+1:]...)
		for _, p := range perms(rest) {
			out = append(out, append([]RuleRef{g[i]}, p...))
		}
	}
	return out
}

// Plans returns every admissible plan of a call of `model` on the rule set `all` (one per
// admissible order among equal saliences). ok=false: the model name is unknown.
func Plans(model string, all []RuleRef, p Params) (plans []Plan, ok bool) {
	byName := map[string]RuleRef{}
	for _, r := range all {
		byName[r.Name] = r
	}
	selected := func() (rs []RuleRef, unknown bool) {
		for _, n := range p.Names {
			if r, ok := byName[n]; ok {
				rs = append(rs, r)
			} else {
				unknown = true
			}
		}
		return
	}
	fail := []Plan{{MustFail: true}}
	each := func(rs []RuleRef, f func(o []RuleRef) Plan) []Plan {
		var out []Plan
		for _, o := range orders(rs) {
			out = append(out, f(o))
		}
		return out
	}
	sortedPlan := func(stop, tag bool) func(o []RuleRef) Plan {
		return func(o []RuleRef) Plan {
			return Plan{Stages: []Stage{{Rules: o, Mode: Sorted, StopInside: stop, TagStops: tag}}}
		}
	}
	mix := func(tag bool) func(o []RuleRef) Plan {
		return func(o []RuleRef) Plan {
			st := []Stage{{Rules: o[:1], Mode: Sorted, StopInside: true, StopAfter: true, TagAfter: tag}}
			if len(o) > 1 {
				st = append(st, Stage{Rules: o[1:], Mode: Conc})
			}
			return Plan{Stages: st}
		}
	}
	inverse := func(o []RuleRef) Plan {
		if len(o) <= 2 {
			return Plan{Stages: []Stage{{Rules: o, Mode: Sorted, StopInside: true}}}
		}
		return Plan{Stages: []Stage{
			{Rules: o[:len(o)-1], Mode: Conc, StopAfter: true},
			{Rules: o[len(o)-1:], Mode: Sorted, StopInside: true},
		}}
	}
	nm := func(kind string) func(o []RuleRef) Plan {
		return func(o []RuleRef) Plan {
			a, b := o[:p.N], o[p.N:p.N+p.M]
			stop := !p.B
			switch kind {
			case "SC":
				return Plan{Stages: []Stage{{Rules: a, Mode: Sorted, StopInside: stop, StopAfter: stop}, {Rules: b, Mode: Conc}}}
			case "CS":
				return Plan{Stages: []Stage{{Rules: a, Mode: Conc, StopAfter: stop}, {Rules: b, Mode: Sorted, StopInside: stop}}}
			default:
				return Plan{Stages: []Stage{{Rules: a, Mode: Conc, StopAfter: stop}, {Rules: b, Mode: Conc}}}
			}
		}
	}
	nmOK := func(n int) bool { return p.N > 0 && p.M > 0 && p.N+p.M <= n }

	switch model {
	case "Execute":
		return each(all, sortedPlan(!p.B, false)), true
	case "ExecuteWithStopTagDirect":
		return each(all, sortedPlan(!p.B, true)), true
	case "ExecuteConcurrent":
		return []Plan{{Stages: []Stage{{Rules: all, Mode: Conc}}}}, true
	case "ExecuteMixModel":
		return each(all, mix(false)), true
	case "ExecuteMixModelWithStopTagDirect":
		return each(all, mix(true)), true
	case "ExecuteInverseMixModel":
		return each(all, inverse), true
	case "ExecuteNSortMConcurrent", "ExecuteNConcurrentMSort", "ExecuteNConcurrentMConcurrent":
		if !nmOK(len(all)) {
			return fail, true
		}
		k := map[string]string{"ExecuteNSortMConcurrent": "SC", "ExecuteNConcurrentMSort": "CS", "ExecuteNConcurrentMConcurrent": "CC"}[model]
		return each(all, nm(k)), true
	case "ExecuteDAGModel":
		var st []Stage
		for _, layer := range p.Dag {
			var rs []RuleRef
			for _, n := range layer {
				if r, ok := byName[n]; ok {
					rs = append(rs, r)
				}
			}
			if len(rs) > 0 {
				st = append(st, Stage{Rules: rs, Mode: Conc, StopAfter: true})
			}
		}
		return []Plan{{Stages: st}}, true
	}
	// selected variants
	rs, unknown := selected()
	if len(rs) == 0 {
		return fail, true
	}
	switch model {
	case "ExecuteSelectedRules":
		return each(rs, sortedPlan(false, false)), true
	case "ExecuteSelectedRulesWithControl":
		return each(rs, sortedPlan(!p.B, false)), true
	case "ExecuteSelectedRulesWithControlAsGivenSortedName":
		return []Plan{sortedPlan(!p.B, false)(rs)}, true
	case "ExecuteSelectedRulesWithControlAndStopTag":
		return each(rs, sortedPlan(!p.B, true)), true
	case "ExecuteSelectedRulesWithControlAndStopTagAsGivenSortedName":
		return []Plan{sortedPlan(!p.B, true)(rs)}, true
	case "ExecuteSelectedRulesConcurrent":
		if len(rs) == 1 {
			return []Plan{sortedPlan(true, false)(rs)}, true
		}
		return []Plan{{Stages: []Stage{{Rules: rs, Mode: Conc}}}}, true
	case "ExecuteSelectedRulesMixModel":
		if len(rs) <= 2 {
			return each(rs, sortedPlan(true, false)), true
		}
		return each(rs, mix(false)), true
	case "ExecuteSelectedRulesInverseMixModel":
		return each(rs, inverse), true
	case "ExecuteSelectedNSortMConcurrent", "ExecuteSelectedNConcurrentMSort", "ExecuteSelectedNConcurrentMConcurrent":
		if unknown || p.N <= 0 || p.M <= 0 || len(p.Names) != p.N+p.M || len(rs) != p.N+p.M {
			return fail, true
		}
		k := map[string]string{"ExecuteSelectedNSortMConcurrent": "SC", "ExecuteSelectedNConcurrentMSort": "CS", "ExecuteSelectedNConcurrentMConcurrent": "CC"}[model]
		return each(rs, nm(k)), true
	}
	return nil, false
}

// CheckLog judges one observed (log, error) against a plan; "" = admissible.
func CheckLog(pl Plan, log []Ev, gotErr bool) string {
	if pl.MustFail {
		if len(log) != 0 {
			return fmt.Sprintf("the call had to fail without running anything but %d events were logged", len(log))
		}
		if !gotErr {
			return "the call had to return an error (nothing selectable / bad N,M) but returned nil"
		}
		return ""
	}
	pos := 0
	failed, tagged := false, false
	for si, st := range pl.Stages {
		if len(st.Rules) == 0 {
			continue
		}
		switch st.Mode {
		case Conc:
			n := len(st.Rules)
			if pos+2*n > len(log) {
				return fmt.Sprintf("stage %d (concurrent, %d rules): log ends early - some rule did not run / did not finish", si, n)
			}
			want := map[int64]int{}
			for _, r := range st.Rules {
				want[r.ID]++
				if r.Fail {
					failed = true
				}
				if r.SetsTag {
					tagged = true
				}
			}
			open := map[int64]int{}
			s, e := map[int64]int{}, map[int64]int{}
			for _, ev := range log[pos : pos+2*n] {
				if ev.K == "s" {
					s[ev.ID]++
					open[ev.ID]++
				} else {
					e[ev.ID]++
					open[ev.ID]--
					if open[ev.ID] < 0 {
						return fmt.Sprintf("stage %d: rule %d ended before it started", si, ev.ID)
					}
				}
			}
			for id, k := range want {
				if s[id] != k || e[id] != k {
					return fmt.Sprintf("stage %d (concurrent): rule %d must start and finish %d time(s) inside the stage's window, saw %d start(s) %d end(s): stage barrier broken, or a rule ran a wrong number of times", si, id, k, s[id], e[id])
				}
			}
			for id := range s {
				if want[id] == 0 {
					return fmt.Sprintf("stage %d: rule %d does not belong to this stage (barrier broken or unscheduled rule ran)", si, id)
				}
			}
			pos += 2 * n
		case Sorted:
			for ri, r := range st.Rules {
				if pos+2 > len(log) {
					return fmt.Sprintf("stage %d (sorted): rule %d (position %d) did not run although nothing stopped the stage", si, r.ID, ri)
				}
				if log[pos] != (Ev{"s", r.ID}) || log[pos+1] != (Ev{"e", r.ID}) {
					return fmt.Sprintf("stage %d (sorted): expected rule %d to run alone at position %d, saw %v %v", si, r.ID, ri, log[pos], log[pos+1])
				}
				pos += 2
				if r.Fail {
					failed = true
				}
				if r.SetsTag {
					tagged = true
				}
				if (r.Fail && st.StopInside) || (r.SetsTag && st.TagStops) {
					goto done
				}
			}
		}
		if (failed && st.StopAfter) || (tagged && st.TagAfter) {
			break
		}
	}
done:
	if pos != len(log) {
		return fmt.Sprintf("%d unexpected event(s) after the call should have stopped (first: %v)", len(log)-pos, log[pos])
	}
	if failed != gotErr {
		return fmt.Sprintf("some executed rule failed = %v, but the call returned error = %v", failed, gotErr)
	}
	return ""
}

// Judge accepts the observation if any admissible plan accepts it; otherwise returns the complaint
// against the first plan (stable order).
func Judge(plans []Plan, log []Ev, gotErr bool) string {
	first := ""
	for i, pl := range plans {
		c := CheckLog(pl, log, gotErr)
		if c == "" {
			return ""
		}
		if i == 0 {
			first = c
		}
	}
	return first
}

// Executed returns, for a plan whose order is fixed (no ties), the ids of the rules that run, in
// stage order (the set is schedule independent).
func Executed(pl Plan) []int64 {
	var out []int64
	failed, tagged := false, false
	for _, st := range pl.Stages {
		switch st.Mode {
		case Conc:
			for _, r := range st.Rules {
				out = append(out, r.ID)
				failed = failed || r.Fail
				tagged = tagged || r.SetsTag
			}
		case Sorted:
			for _, r := range st.Rules {
				out = append(out, r.ID)
				failed = failed || r.Fail
				tagged = tagged || r.SetsTag
				if (r.Fail && st.StopInside) || (r.SetsTag && st.TagStops) {
					return out
				}
			}
		}
		if (failed && st.StopAfter) || (tagged && st.TagAfter) {
			break
		}
	}
	return out
}
