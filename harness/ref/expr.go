package ref

// expr.go: reference semantics of the rule language's expressions (property C01).
//
// Deliberately boring: a hand-written precedence-climbing parser over a token sequence and an
// evaluator over tagged values that uses nothing but Go's own int64 / uint64 / float64 / string
// operations. Nothing here looks at gengine's code or data structures.
//
// Language (exactly as the property states it):
//   level 4 (tightest)  *  /
//   level 3             +  -
//   level 2             >  <  >=  <=  ==  !=
//   level 1 (loosest)   && ||          (one shared level)
//   every binary operator associates to the left; parentheses override;
//   prefix ! applies to an atom or to a parenthesised expression.
//
// Values: int (64-bit signed) / uint (64-bit unsigned) / float (float64) / string / bool.
//   int o int -> int64 wrapping; uint o uint -> uint64 wrapping; int o uint, uint o int -> int64 with
//   the unsigned operand reinterpreted; any float operand -> float64; truncating integer division;
//   division by an int / uint / float zero is an error; + on two strings concatenates;
//   integer x integer comparisons are exact over the whole signed / unsigned 64-bit range,
//   a comparison involving a float is made in float64, strings compare lexicographically,
//   booleans only with == and !=; ! and && || only on booleans; everything else is an error.
// A bare atom keeps the Go value it came from (an injected int8 stays an int8).

import (
	"errors"
	"fmt"
	"math"
)

// XKind is the class of a value.
type XKind int

const (
	XInt XKind = iota
	XUint
	XFloat
	XString
	XBool
)

func (k XKind) String() string {
	switch k {
	case XInt:
		return "int"
	case XUint:
		return "uint"
	case XFloat:
		return "float"
	case XString:
		return "string"
	case XBool:
		return "bool"
	}
	return "?"
}

// XVal is a tagged value. Raw is the original Go value while the value is still an untouched atom.
type XVal struct {
	K   XKind
	I   int64
	U   uint64
	F   float64
	S   string
	B   bool
	Raw interface{}
}

// XFromGo classifies a Go scalar.
func XFromGo(v interface{}) (XVal, bool) {
	x := XVal{Raw: v}
	switch t := v.(type) {
	case int:
		x.K, x.I = XInt, int64(t)
	case int8:
		x.K, x.I = XInt, int64(t)
	case int16:
		x.K, x.I = XInt, int64(t)
	case int32:
		x.K, x.I = XInt, int64(t)
	case int64:
		x.K, x.I = XInt, t
	case uint:
		x.K, x.U = XUint, uint64(t)
	case uint8:
		x.K, x.U = XUint, uint64(t)
	case uint16:
		x.K, x.U = XUint, uint64(t)
	case uint32:
		x.K, x.U = XUint, uint64(t)
	case uint64:
		x.K, x.U = XUint, t
	case float32:
		x.K, x.F = XFloat, float64(t)
	case float64:
		x.K, x.F = XFloat, t
	case string:
		x.K, x.S = XString, t
	case bool:
		x.K, x.B = XBool, t
	default:
		return XVal{}, false
	}
	return x, true
}

// Go returns the Go value a caller must observe for x.
func (x XVal) Go() interface{} {
	if x.Raw != nil {
		return x.Raw
	}
	switch x.K {
	case XInt:
		return x.I
	case XUint:
		return x.U
	case XFloat:
		return x.F
	case XString:
		return x.S
	default:
		return x.B
	}
}

func (x XVal) String() string {
	g := x.Go()
	switch t := g.(type) {
	case float64:
		return fmt.Sprintf("float64(%v /bits %#x)", t, math.Float64bits(t))
	case float32:
		return fmt.Sprintf("float32(%v /bits %#x)", t, math.Float32bits(t))
	case string:
		return fmt.Sprintf("string(%q)", t)
	}
	return fmt.Sprintf("%T(%v)", g, g)
}

// SameGo: same dynamic type and same value; floats bit for bit.
func SameGo(a, b interface{}) bool {
	switch x := a.(type) {
	case float64:
		y, ok := b.(float64)
		return ok && math.Float64bits(x) == math.Float64bits(y)
	case float32:
		y, ok := b.(float32)
		return ok && math.Float32bits(x) == math.Float32bits(y)
	case int:
		y, ok := b.(int)
		return ok && x == y
	case int8:
		y, ok := b.(int8)
		return ok && x == y
	case int16:
		y, ok := b.(int16)
		return ok && x == y
	case int32:
		y, ok := b.(int32)
		return ok && x == y
	case int64:
		y, ok := b.(int64)
		return ok && x == y
	case uint:
		y, ok := b.(uint)
		return ok && x == y
	case uint8:
		y, ok := b.(uint8)
		return ok && x == y
	case uint16:
		y, ok := b.(uint16)
		return ok && x == y
	case uint32:
		y, ok := b.(uint32)
		return ok && x == y
	case uint64:
		y, ok := b.(uint64)
		return ok && x == y
	case string:
		y, ok := b.(string)
		return ok && x == y
	case bool:
		y, ok := b.(bool)
		return ok && x == y
	}
	return false
}

// ---- tokens and trees ----

// XTok is one token: "(" ")" "!" a binary operator, or an atom (T == "atom", Leaf = its index).
type XTok struct {
	T    string
	Leaf int
}

func XOp(op string) XTok    { return XTok{T: op} }
func XAtom(i int) XTok      { return XTok{T: "atom", Leaf: i} }
func (t XTok) IsAtom() bool { return t.T == "atom" }

// XLevel is the binding level of a binary operator (0 = not a binary operator).
func XLevel(op string) int {
	switch op {
	case "*", "/":
		return 4
	case "+", "-":
		return 3
	case ">", "<", ">=", "<=", "==", "!=":
		return 2
	case "&&", "||":
		return 1
	}
	return 0
}

// Operator groups (so that callers never depend on the level numbers).
func XIsArith(op string) bool   { return op == "*" || op == "/" || op == "+" || op == "-" }
func XIsLogic(op string) bool   { return op == "&&" || op == "||" }
func XIsCompare(op string) bool { return XLevel(op) > 0 && !XIsArith(op) && !XIsLogic(op) }

// XNode is a node of the tree the language assigns to a token sequence.
type XNode struct {
	Op    string // "" leaf, "!" negation, otherwise a binary operator
	L, R  *XNode // "!" uses L
	Leaf  int
	Paren bool // the node was written inside its own pair of parentheses
}

type xparser struct {
	toks []XTok
	pos  int
}

// XParse parses a complete token sequence.
func XParse(toks []XTok) (*XNode, error) {
	p := &xparser{toks: toks}
	n, err := p.expr(1)
	if err != nil {
		return nil, err
	}
	if p.pos != len(toks) {
		return nil, fmt.Errorf("unexpected token %q at %d", toks[p.pos].T, p.pos)
	}
	return n, nil
}

func (p *xparser) peek() string {
	if p.pos < len(p.toks) {
		return p.toks[p.pos].T
	}
	return ""
}

func (p *xparser) expr(minLevel int) (*XNode, error) {
	lhs, err := p.unary()
	if err != nil {
		return nil, err
	}
	for {
		op := p.peek()
		lv := XLevel(op)
		if lv == 0 || lv < minLevel {
			return lhs, nil
		}
		p.pos++
		// left associative: the right operand may only contain tighter operators
		rhs, err := p.expr(lv + 1)
		if err != nil {
			return nil, err
		}
		lhs = &XNode{Op: op, L: lhs, R: rhs}
	}
}

func (p *xparser) unary() (*XNode, error) {
	if p.peek() == "!" {
		p.pos++
		if t := p.peek(); t != "atom" && t != "(" {
			return nil, fmt.Errorf("! must be followed by an atom or a parenthesised expression, got %q", t)
		}
		n, err := p.primary()
		if err != nil {
			return nil, err
		}
		return &XNode{Op: "!", L: n}, nil
	}
	return p.primary()
}

func (p *xparser) primary() (*XNode, error) {
	switch p.peek() {
	case "atom":
		n := &XNode{Leaf: p.toks[p.pos].Leaf}
		p.pos++
		return n, nil
	case "(":
		p.pos++
		n, err := p.expr(1)
		if err != nil {
			return nil, err
		}
		if p.peek() != ")" {
			return nil, fmt.Errorf("missing ) at %d", p.pos)
		}
		p.pos++
		if n.Paren {
			// doubled parentheses: keep a separate node so Paren stays a property of one pair
			return &XNode{Op: "()", L: n, Paren: true}, nil
		}
		c := *n
		c.Paren = true
		return &c, nil
	}
	return nil, fmt.Errorf("operand expected at %d, got %q", p.pos, p.peek())
}

// Render shows the tree fully parenthesised (for messages).
func (n *XNode) Render(leaf func(i int) string) string {
	switch n.Op {
	case "":
		return leaf(n.Leaf)
	case "!":
		return "!" + n.L.Render(leaf)
	case "()":
		return n.L.Render(leaf)
	}
	return "(" + n.L.Render(leaf) + " " + n.Op + " " + n.R.Render(leaf) + ")"
}

// ---- evaluation ----

var (
	ErrIllTyped = errors.New("ill-typed operation")
	ErrDivZero  = errors.New("division by zero")
)

func isNum(k XKind) bool { return k == XInt || k == XUint || k == XFloat }

func toF(x XVal) float64 {
	switch x.K {
	case XInt:
		return float64(x.I)
	case XUint:
		return float64(x.U)
	}
	return x.F
}

// as signed 64-bit, an unsigned operand reinterpreted
func toI(x XVal) int64 {
	if x.K == XUint {
		return int64(x.U)
	}
	return x.I
}

// XArith applies + - * /.
func XArith(op string, a, b XVal) (XVal, error) {
	if a.K == XString && b.K == XString {
		if op == "+" {
			return XVal{K: XString, S: a.S + b.S}, nil
		}
		return XVal{}, ErrIllTyped
	}
	if !isNum(a.K) || !isNum(b.K) {
		return XVal{}, ErrIllTyped
	}
	if a.K == XFloat || b.K == XFloat {
		x, y := toF(a), toF(b)
		var r float64
		switch op {
		case "+":
			r = x + y
		case "-":
			r = x - y
		case "*":
			r = x * y
		case "/":
			if y == 0 {
				return XVal{}, ErrDivZero
			}
			r = x / y
		default:
			return XVal{}, ErrIllTyped
		}
		return XVal{K: XFloat, F: r}, nil
	}
	if a.K == XUint && b.K == XUint {
		x, y := a.U, b.U
		var r uint64
		switch op {
		case "+":
			r = x + y
		case "-":
			r = x - y
		case "*":
			r = x * y
		case "/":
			if y == 0 {
				return XVal{}, ErrDivZero
			}
			r = x / y
		default:
			return XVal{}, ErrIllTyped
		}
		return XVal{K: XUint, U: r}, nil
	}
	x, y := toI(a), toI(b)
	var r int64
	switch op {
	case "+":
		r = x + y
	case "-":
		r = x - y
	case "*":
		r = x * y
	case "/":
		if y == 0 {
			return XVal{}, ErrDivZero
		}
		if y == -1 {
			r = -x // MinInt64 / -1 wraps to MinInt64, as Go's own division does
		} else {
			r = x / y
		}
	default:
		return XVal{}, ErrIllTyped
	}
	return XVal{K: XInt, I: r}, nil
}

// three-way result of an exact integer comparison
func cmpInteger(a, b XVal) int {
	switch {
	case a.K == XInt && b.K == XInt:
		if a.I < b.I {
			return -1
		} else if a.I > b.I {
			return 1
		}
		return 0
	case a.K == XUint && b.K == XUint:
		if a.U < b.U {
			return -1
		} else if a.U > b.U {
			return 1
		}
		return 0
	case a.K == XInt: // int x uint
		if a.I < 0 {
			return -1
		}
		return cmpInteger(XVal{K: XUint, U: uint64(a.I)}, b)
	default: // uint x int
		return -cmpInteger(b, a)
	}
}

// XCompare applies > < >= <= == !=.
func XCompare(op string, a, b XVal) (XVal, error) {
	res := func(v bool) (XVal, error) { return XVal{K: XBool, B: v}, nil }
	switch {
	case a.K == XString && b.K == XString:
		switch op {
		case "==":
			return res(a.S == b.S)
		case "!=":
			return res(a.S != b.S)
		case ">":
			return res(a.S > b.S)
		case "<":
			return res(a.S < b.S)
		case ">=":
			return res(a.S >= b.S)
		case "<=":
			return res(a.S <= b.S)
		}
	case a.K == XBool && b.K == XBool:
		switch op {
		case "==":
			return res(a.B == b.B)
		case "!=":
			return res(a.B != b.B)
		}
	case isNum(a.K) && isNum(b.K):
		if a.K == XFloat || b.K == XFloat {
			x, y := toF(a), toF(b)
			switch op {
			case "==":
				return res(x == y)
			case "!=":
				return res(x != y)
			case ">":
				return res(x > y)
			case "<":
				return res(x < y)
			case ">=":
				return res(x >= y)
			case "<=":
				return res(x <= y)
			}
		} else {
			c := cmpInteger(a, b)
			switch op {
			case "==":
				return res(c == 0)
			case "!=":
				return res(c != 0)
			case ">":
				return res(c > 0)
			case "<":
				return res(c < 0)
			case ">=":
				return res(c >= 0)
			case "<=":
				return res(c <= 0)
			}
		}
	}
	return XVal{}, ErrIllTyped
}

// XLogic applies && ||.
func XLogic(op string, a, b XVal) (XVal, error) {
	if a.K != XBool || b.K != XBool {
		return XVal{}, ErrIllTyped
	}
	switch op {
	case "&&":
		return XVal{K: XBool, B: a.B && b.B}, nil
	case "||":
		return XVal{K: XBool, B: a.B || b.B}, nil
	}
	return XVal{}, ErrIllTyped
}

// XNot applies !.
func XNot(a XVal) (XVal, error) {
	if a.K != XBool {
		return XVal{}, ErrIllTyped
	}
	return XVal{K: XBool, B: !a.B}, nil
}

// XBinary dispatches a binary operator.
func XBinary(op string, a, b XVal) (XVal, error) {
	switch {
	case XIsArith(op):
		return XArith(op, a, b)
	case XIsCompare(op):
		return XCompare(op, a, b)
	case XIsLogic(op):
		return XLogic(op, a, b)
	}
	return XVal{}, ErrIllTyped
}

// ErrUndecided: the property does not decide the outcome. Only one situation produces it: the left
// operand of && / || already fixes the result (false && _, true || _) and the right operand fails.
// A short-circuiting implementation yields the value, an eager one fails; the statement requires
// neither, so such a case is enumerated but not judged.
var ErrUndecided = errors.New("outcome not decided by the property (short-circuit)")

// XEval evaluates a tree over leaf values. Leaves are free of side effects, so eager and
// short-circuit evaluation only differ in the situation described at ErrUndecided.
func XEval(n *XNode, leaves []XVal) (XVal, error) {
	switch n.Op {
	case "":
		return leaves[n.Leaf], nil
	case "()":
		return XEval(n.L, leaves)
	case "!":
		v, err := XEval(n.L, leaves)
		if err != nil {
			return XVal{}, err
		}
		return XNot(v)
	}
	a, err := XEval(n.L, leaves)
	if err != nil {
		return XVal{}, err
	}
	b, err := XEval(n.R, leaves)
	if err != nil {
		if a.K == XBool && ((n.Op == "&&" && !a.B) || (n.Op == "||" && a.B)) {
			return XVal{}, ErrUndecided
		}
		return XVal{}, err
	}
	return XBinary(n.Op, a, b)
}
