package gx

import (
	"reflect"
	"strings"
	"sync"
	"unsafe"

	"github.com/bilibili/gengine/verifrt/vsync"
)

// DeepClone copies an object graph (private fields included) so that a pristine, compiled
// *engine.GenginePool or *builder.RuleBuilder can serve as a template: every controlled execution
// works on its own copy instead of paying one rule compilation (~5 ms) per execution.
//
// Copied: structs, pointers, slices, maps (aliasing inside the graph is preserved, including slices
// that share a backing array).
// Shared, not copied: compiled rules (everything under internal/base except the KnowledgeContext
// container, which updates mutate in place), functions, channels, reflect.Value payloads
// (injected host objects are shared by construction - exactly as with a fresh pool built from the
// same api map). Reset to zero: synchronisation objects (a template is never in use).
//
// Each scenario that uses a clone cross-checks it once against a freshly constructed object
// (same default-schedule outcome) before relying on it.
func DeepClone(x interface{}) interface{} {
	v := reflect.ValueOf(x)
	var root unsafe.Pointer
	if v.Kind() == reflect.Ptr {
		root = v.UnsafePointer()
	}
	hintMu.Lock()
	hints := hintCache[root]
	hintMu.Unlock()
	for {
		c := &cloner{seen: map[unsafe.Pointer]reflect.Value{}, hints: hints}
		out := c.clone(v).Interface()
		if !c.grew {
			return out
		}
		// two slices of the template share a backing array and the wider one was met second: remember
		// the merged extent for this template and copy again
		hints = c.hints
		if root != nil {
			hintMu.Lock()
			hintCache[root] = hints
			hintMu.Unlock()
		}
	}
}

// Slices that share a backing array in the template (one slice living in the spare capacity of
// another, two windows of one array) must share one in the copy too. A slice is therefore copied as a
// window of a copied *region*: the memory its full capacity spans, or a wider extent already known
// to overlap it. Extents that turn out to overlap regions made earlier in the same copy are merged
// and remembered per template (hintCache), and the copy is made again with them.
type extent struct{ start, end uintptr }

type region struct {
	extent
	elem reflect.Type
	d    reflect.Value // copied backing store: slice with len = cap = number of elements
}

var (
	hintMu    sync.Mutex
	hintCache = map[unsafe.Pointer][]extent{}
)

type cloner struct {
	seen    map[unsafe.Pointer]reflect.Value
	regions []*region
	hints   []extent
	grew    bool
}

func (c *cloner) cloneSlice(v reflect.Value) reflect.Value {
	et := v.Type().Elem()
	sz := et.Size()
	n := v.Cap()
	if n == 0 || sz == 0 {
		return reflect.MakeSlice(v.Type(), v.Len(), v.Cap())
	}
	p := v.Pointer()
	ext := extent{p, p + uintptr(n)*sz}
	var r *region
	for _, x := range c.regions {
		if x.elem == et && x.start <= ext.start && ext.end <= x.end && (ext.start-x.start)%sz == 0 {
			r = x
			break
		}
	}
	if r == nil {
		h := ext
		for _, x := range c.hints {
			if x.start <= ext.start && ext.end <= x.end {
				h = x
			}
		}
		// an earlier region that overlaps without containing: merge, remember, copy again later
		for _, x := range c.regions {
			if x.elem == et && x.start < h.end && h.start < x.end {
				m := h
				if x.start < m.start {
					m.start = x.start
				}
				if x.end > m.end {
					m.end = x.end
				}
				c.hints = append(c.hints, m)
				c.grew = true
			}
		}
		cnt := int((h.end - h.start) / sz)
		r = &region{extent: h, elem: et, d: reflect.MakeSlice(reflect.SliceOf(et), cnt, cnt)}
		c.regions = append(c.regions, r)
		src := reflect.NewAt(reflect.ArrayOf(cnt, et), unsafe.Pointer(h.start)).Elem()
		for i := 0; i < cnt; i++ {
			r.d.Index(i).Set(c.clone(src.Index(i)))
		}
	}
	off := int((ext.start - r.start) / sz)
	d := r.d.Slice3(off, off+v.Len(), off+n)
	if d.Type() != v.Type() {
		d = d.Convert(v.Type())
	}
	return d
}

func shareType(t reflect.Type) bool {
	p := t.PkgPath()
	if strings.HasSuffix(p, "/internal/base") && t.Name() != "KnowledgeContext" {
		return true
	}
	return false
}

func zeroType(t reflect.Type) bool {
	p := t.PkgPath()
	return p == "sync" || p == "sync/atomic" || strings.HasSuffix(p, "/verifrt/vsync")
}

func opaqueType(t reflect.Type) bool {
	return t.PkgPath() == "reflect"
}

// settable returns an assignable view of v (which must be addressable), bypassing export rules.
func settable(v reflect.Value) reflect.Value {
	return reflect.NewAt(v.Type(), unsafe.Pointer(v.UnsafeAddr())).Elem()
}

func (c *cloner) clone(v reflect.Value) reflect.Value {
	if !v.IsValid() {
		return v
	}
	switch v.Kind() {
	case reflect.Ptr:
		if v.IsNil() {
			return v
		}
		et := v.Type().Elem()
		if shareType(et) || opaqueType(et) {
			return v
		}
		key := v.UnsafePointer()
		if d, ok := c.seen[key]; ok {
			return d
		}
		d := reflect.New(et)
		c.seen[key] = d
		c.fill(d.Elem(), v.Elem())
		return d
	case reflect.Struct, reflect.Array:
		if opaqueType(v.Type()) {
			return v
		}
		if v.Type() == reflect.TypeOf(vsync.Pool{}) {
			// a pool keeps its constructor and starts empty
			d := reflect.New(v.Type()).Elem()
			d.FieldByName("New").Set(readableField(v, "New"))
			return d
		}
		if v.Type() == reflect.TypeOf(vsync.Map{}) {
			d := reflect.New(v.Type())
			if !v.CanAddr() {
				tmp := reflect.New(v.Type()).Elem()
				tmp.Set(v)
				v = tmp
			}
			src := reflect.NewAt(v.Type(), unsafe.Pointer(v.UnsafeAddr())).Interface().(*vsync.Map)
			dst := d.Interface().(*vsync.Map)
			src.RawRange(func(k, x interface{}) bool {
				dst.RawStore(k, c.clone(reflect.ValueOf(x)).Interface())
				return true
			})
			return d.Elem()
		}
		if zeroType(v.Type()) {
			return reflect.Zero(v.Type())
		}
		d := reflect.New(v.Type()).Elem()
		if !v.CanAddr() {
			// make an addressable copy first
			tmp := reflect.New(v.Type()).Elem()
			tmp.Set(v)
			v = tmp
		}
		c.fill(d, v)
		return d
	case reflect.Slice:
		if v.IsNil() {
			return v
		}
		return c.cloneSlice(v)
	case reflect.Map:
		if v.IsNil() {
			return v
		}
		key := v.UnsafePointer()
		if d, ok := c.seen[key]; ok {
			return d
		}
		d := reflect.MakeMapWithSize(v.Type(), v.Len())
		c.seen[key] = d
		it := v.MapRange()
		for it.Next() {
			d.SetMapIndex(it.Key(), c.clone(it.Value()))
		}
		return d
	case reflect.Chan:
		if v.IsNil() || v.Type().ChanDir() != reflect.BothDir {
			return v
		}
		// a template is never in use: its channels are empty; the copy gets channels of its own
		key := v.UnsafePointer()
		if d, ok := c.seen[key]; ok {
			return d
		}
		d := reflect.MakeChan(v.Type(), v.Cap())
		c.seen[key] = d
		return d
	case reflect.Interface:
		if v.IsNil() {
			return v
		}
		// interface-held values are host objects / injected functions: shared, as with a fresh pool
		return v
	}
	return v
}

// fill copies the addressable (or at least readable) struct/array src into the addressable dst.
func (c *cloner) fill(dst, src reflect.Value) {
	t := src.Type()
	if t == reflect.TypeOf(vsync.Pool{}) || t == reflect.TypeOf(vsync.Map{}) {
		settable(dst).Set(c.clone(readable(src)))
		return
	}
	if zeroType(t) {
		return // fresh zero value
	}
	if opaqueType(t) {
		settable(dst).Set(readable(src))
		return
	}
	switch src.Kind() {
	case reflect.Struct:
		for i := 0; i < src.NumField(); i++ {
			sf := readable(src.Field(i))
			df := settable(dst.Field(i))
			df.Set(c.clone(sf))
		}
	case reflect.Array:
		for i := 0; i < src.Len(); i++ {
			settable(dst.Index(i)).Set(c.clone(readable(src.Index(i))))
		}
	default:
		settable(dst).Set(c.clone(readable(src)))
	}
}

func readableField(v reflect.Value, name string) reflect.Value {
	if !v.CanAddr() {
		tmp := reflect.New(v.Type()).Elem()
		tmp.Set(v)
		v = tmp
	}
	return readable(v.FieldByName(name))
}

// readable strips the read-only flag of values obtained through unexported fields.
func readable(v reflect.Value) reflect.Value {
	if v.CanInterface() {
		return v
	}
	if v.CanAddr() {
		return reflect.NewAt(v.Type(), unsafe.Pointer(v.UnsafeAddr())).Elem()
	}
	// copy into an addressable temporary through unsafe is impossible without an address; callers
	// always reach fields through addressable structs, so this does not happen
	panic("gx.DeepClone: unreadable non-addressable value of type " + v.Type().String())
}
