// Package gx holds gengine-specific harness helpers: the global event log that injected observer
// functions write to, rule-text builders, and a table of the engine's execution models.
package gx

import (
	"fmt"
	"sort"
	"strings"
	"sync"

	"github.com/bilibili/gengine/builder"
	"github.com/bilibili/gengine/context"
	"github.com/bilibili/gengine/engine"
	"github.com/bilibili/gengine/verifrt/vsched"
)

// Ev is one observer event.
type Ev struct {
	K  string // "s" start, "e" end, or anything a scenario defines
	ID int64
	A  int64 // optional extra argument
}

func (e Ev) String() string { return fmt.Sprintf("%s%d", e.K, e.ID) }

// Log is the globally sequenced event log. Under the scheduler every append is a scheduling point;
// detached (free-running cross-check) it is protected by a real mutex.
type Log struct {
	mu  sync.Mutex
	Evs []Ev
}

func (l *Log) add(e Ev) {
	if vsched.Attached() {
		vsched.Obs()
		if vsched.Aborted() {
			return
		}
		l.Evs = append(l.Evs, e)
		return
	}
	l.mu.Lock()
	l.Evs = append(l.Evs, e)
	l.mu.Unlock()
}

// Ev is injected into rules as `ev("s", 3)`.
func (l *Log) Ev(k string, id int64) { l.add(Ev{K: k, ID: id}) }

// Ev3 is injected as `ev3("k", id, a)`.
func (l *Log) Ev3(k string, id int64, a int64) { l.add(Ev{K: k, ID: id, A: a}) }

// Boom logs the end event of a rule and then panics: the rule fails at a known instant.
func (l *Log) Boom(id int64) {
	l.add(Ev{K: "e", ID: id})
	panic(fmt.Sprintf("boom %d", id))
}

func (l *Log) String() string {
	var sb strings.Builder
	for i, e := range l.Evs {
		if i > 0 {
			sb.WriteByte(' ')
		}
		sb.WriteString(e.String())
	}
	return sb.String()
}

// Index of the first event (k,id) at or after position from; -1 if none.
func (l *Log) Index(k string, id int64, from int) int {
	for i := from; i < len(l.Evs); i++ {
		if l.Evs[i].K == k && l.Evs[i].ID == id {
			return i
		}
	}
	return -1
}

// Count of events (k,id).
func (l *Log) Count(k string, id int64) int {
	n := 0
	for _, e := range l.Evs {
		if e.K == k && e.ID == id {
			n++
		}
	}
	return n
}

// RuleSpec describes one generated observer rule.
type RuleSpec struct {
	Name     string
	ID       int64
	Salience int64
	NoSal    bool // omit the salience clause
	Fail     bool // the rule fails (after its start event, logging its end event)
	Ret      bool // the rule returns its id
	Extra    string
	After    string // statements placed after the end event (e.g. a faulty construct)
}

// Text renders the rule. Body: ev("s",id); [boom(id)]; ev("e",id); [return id]
func (r RuleSpec) Text() string {
	var sb strings.Builder
	fmt.Fprintf(&sb, "rule \"%s\" ", r.Name)
	if !r.NoSal {
		fmt.Fprintf(&sb, "salience %d ", r.Salience)
	}
	sb.WriteString("begin\n")
	fmt.Fprintf(&sb, "  ev(\"s\", %d)\n", r.ID)
	if r.Extra != "" {
		sb.WriteString("  " + r.Extra + "\n")
	}
	if r.Fail {
		fmt.Fprintf(&sb, "  boom(%d)\n", r.ID)
	}
	fmt.Fprintf(&sb, "  ev(\"e\", %d)\n", r.ID)
	if r.After != "" {
		sb.WriteString("  " + r.After + "\n")
	}
	if r.Ret && !strings.Contains(r.After, "return") {
		fmt.Fprintf(&sb, "  return %d\n", r.ID)
	}
	sb.WriteString("end\n")
	return sb.String()
}

// RulesText concatenates rule texts.
func RulesText(rs []RuleSpec) string {
	var sb strings.Builder
	for _, r := range rs {
		sb.WriteString(r.Text())
	}
	return sb.String()
}

// Compile builds a rule set once (outside any controlled execution). The returned builder's
// knowledge context is treated as immutable and shared by per-execution builders.
func Compile(text string) (*builder.RuleBuilder, error) {
	dc := context.NewDataContext()
	rb := builder.NewRuleBuilder(dc)
	if err := rb.BuildRuleFromString(text); err != nil {
		return nil, err
	}
	return rb, nil
}

// MustCompile is Compile for harness-generated texts that must be valid.
func MustCompile(text string) *builder.RuleBuilder {
	rb, err := Compile(text)
	if err != nil {
		vsched.InternalError("harness rule text does not compile: %v\n%s", err, text)
	}
	return rb
}

// Fresh returns a builder with a fresh data context that shares src's compiled rules
// (exactly what the pool does for its instances).
func Fresh(src *builder.RuleBuilder, l *Log, extra map[string]interface{}) *builder.RuleBuilder {
	dc := context.NewDataContext()
	if l != nil {
		dc.Add("ev", l.Ev)
		dc.Add("ev3", l.Ev3)
		dc.Add("boom", l.Boom)
	}
	for k, v := range extra {
		dc.Add(k, v)
	}
	rb := builder.NewRuleBuilder(dc)
	rb.Kc = src.Kc
	return rb
}

// Params of a model call.
type Params struct {
	B     bool
	N, M  int
	Names []string
	Dag   [][]string
	Stag  *engine.Stag
}

// Model is one execution model of engine.Gengine.
type Model struct {
	Name     string
	Selected bool // takes a name list
	NM       bool // takes N, M
	Policy   bool // takes the error-policy flag
	Call     func(g *engine.Gengine, rb *builder.RuleBuilder, p Params) error
}

// Models lists every execution model of engine.Gengine.
var Models = []Model{
	{Name: "Execute", Policy: true, Call: func(g *engine.Gengine, rb *builder.RuleBuilder, p Params) error { return g.Execute(rb, p.B) }},
	{Name: "ExecuteWithStopTagDirect", Policy: true, Call: func(g *engine.Gengine, rb *builder.RuleBuilder, p Params) error {
		return g.ExecuteWithStopTagDirect(rb, p.B, stag(p))
	}},
	{Name: "ExecuteConcurrent", Call: func(g *engine.Gengine, rb *builder.RuleBuilder, p Params) error { return g.ExecuteConcurrent(rb) }},
	{Name: "ExecuteMixModel", Call: func(g *engine.Gengine, rb *builder.RuleBuilder, p Params) error { return g.ExecuteMixModel(rb) }},
	{Name: "ExecuteMixModelWithStopTagDirect", Call: func(g *engine.Gengine, rb *builder.RuleBuilder, p Params) error {
		return g.ExecuteMixModelWithStopTagDirect(rb, stag(p))
	}},
	{Name: "ExecuteInverseMixModel", Call: func(g *engine.Gengine, rb *builder.RuleBuilder, p Params) error { return g.ExecuteInverseMixModel(rb) }},
	{Name: "ExecuteNSortMConcurrent", NM: true, Policy: true, Call: func(g *engine.Gengine, rb *builder.RuleBuilder, p Params) error {
		return g.ExecuteNSortMConcurrent(p.N, p.M, rb, p.B)
	}},
	{Name: "ExecuteNConcurrentMSort", NM: true, Policy: true, Call: func(g *engine.Gengine, rb *builder.RuleBuilder, p Params) error {
		return g.ExecuteNConcurrentMSort(p.N, p.M, rb, p.B)
	}},
	{Name: "ExecuteNConcurrentMConcurrent", NM: true, Policy: true, Call: func(g *engine.Gengine, rb *builder.RuleBuilder, p Params) error {
		return g.ExecuteNConcurrentMConcurrent(p.N, p.M, rb, p.B)
	}},
	{Name: "ExecuteSelectedRules", Selected: true, Call: func(g *engine.Gengine, rb *builder.RuleBuilder, p Params) error {
		return g.ExecuteSelectedRules(rb, p.Names)
	}},
	{Name: "ExecuteSelectedRulesWithControl", Selected: true, Policy: true, Call: func(g *engine.Gengine, rb *builder.RuleBuilder, p Params) error {
		return g.ExecuteSelectedRulesWithControl(rb, p.B, p.Names)
	}},
	{Name: "ExecuteSelectedRulesWithControlAsGivenSortedName", Selected: true, Policy: true, Call: func(g *engine.Gengine, rb *builder.RuleBuilder, p Params) error {
		return g.ExecuteSelectedRulesWithControlAsGivenSortedName(rb, p.B, p.Names)
	}},
	{Name: "ExecuteSelectedRulesWithControlAndStopTag", Selected: true, Policy: true, Call: func(g *engine.Gengine, rb *builder.RuleBuilder, p Params) error {
		return g.ExecuteSelectedRulesWithControlAndStopTag(rb, p.B, stag(p), p.Names)
	}},
	{Name: "ExecuteSelectedRulesWithControlAndStopTagAsGivenSortedName", Selected: true, Policy: true, Call: func(g *engine.Gengine, rb *builder.RuleBuilder, p Params) error {
		return g.ExecuteSelectedRulesWithControlAndStopTagAsGivenSortedName(rb, p.B, stag(p), p.Names)
	}},
	{Name: "ExecuteSelectedRulesConcurrent", Selected: true, Call: func(g *engine.Gengine, rb *builder.RuleBuilder, p Params) error {
		return g.ExecuteSelectedRulesConcurrent(rb, p.Names)
	}},
	{Name: "ExecuteSelectedRulesMixModel", Selected: true, Call: func(g *engine.Gengine, rb *builder.RuleBuilder, p Params) error {
		return g.ExecuteSelectedRulesMixModel(rb, p.Names)
	}},
	{Name: "ExecuteSelectedRulesInverseMixModel", Selected: true, Call: func(g *engine.Gengine, rb *builder.RuleBuilder, p Params) error {
		return g.ExecuteSelectedRulesInverseMixModel(rb, p.Names)
	}},
	{Name: "ExecuteSelectedNSortMConcurrent", Selected: true, NM: true, Policy: true, Call: func(g *engine.Gengine, rb *builder.RuleBuilder, p Params) error {
		return g.ExecuteSelectedNSortMConcurrent(p.N, p.M, rb, p.B, p.Names)
	}},
	{Name: "ExecuteSelectedNConcurrentMSort", Selected: true, NM: true, Policy: true, Call: func(g *engine.Gengine, rb *builder.RuleBuilder, p Params) error {
		return g.ExecuteSelectedNConcurrentMSort(p.N, p.M, rb, p.B, p.Names)
	}},
	{Name: "ExecuteSelectedNConcurrentMConcurrent", Selected: true, NM: true, Policy: true, Call: func(g *engine.Gengine, rb *builder.RuleBuilder, p Params) error {
		return g.ExecuteSelectedNConcurrentMConcurrent(p.N, p.M, rb, p.B, p.Names)
	}},
	{Name: "ExecuteDAGModel", Call: func(g *engine.Gengine, rb *builder.RuleBuilder, p Params) error { return g.ExecuteDAGModel(rb, p.Dag) }},
}

func stag(p Params) *engine.Stag {
	if p.Stag != nil {
		return p.Stag
	}
	return &engine.Stag{}
}

// ModelByName looks a model up.
func ModelByName(n string) *Model {
	for i := range Models {
		if Models[i].Name == n {
			return &Models[i]
		}
	}
	return nil
}

// CallGuarded calls f and converts a panic that escapes it into (recovered value, true): this is
// what the *caller* of an execute method would see.
func CallGuarded(f func() error) (err error, panicked interface{}) {
	defer func() {
		if r := recover(); r != nil {
			panicked = r
		}
	}()
	return f(), nil
}

// ResultKeys returns the sorted keys of a result map.
func ResultKeys(m map[string]interface{}) []string {
	var ks []string
	for k := range m {
		ks = append(ks, k)
	}
	sort.Strings(ks)
	return ks
}

// CopyResult makes a shallow copy of a result map.
func CopyResult(m map[string]interface{}) map[string]interface{} {
	if m == nil {
		return nil
	}
	c := make(map[string]interface{}, len(m))
	for k, v := range m {
		c[k] = v
	}
	return c
}

// ---- helpers for sequential (program/input) enumerations ----

// RunRule executes exactly the rule `name` of the compiled set `src` on a fresh engine with the
// given injected data and reports what a caller observes: the rule's entry in the result map (if
// any), the error, and a panic that escaped the execute call.
// RunRule executes one rule of src on a fresh engine with fresh injected data. When no controlled
// execution is attached it attaches one for the duration of the call (a single thread, default
// schedule): a rule that blocks on a lock it already holds, or never ends, then yields the
// scheduler's verdict - returned as the `panicked` value - instead of hanging the check.
func RunRule(src *builder.RuleBuilder, name string, inject map[string]interface{}) (val interface{}, has bool, err error, panicked interface{}) {
	if vsched.Cur() != nil || !AttachRunRule {
		return runRule(src, name, inject)
	}
	ex := vsched.Run(vsched.Options{Horizon: 3000000}, nil, func() {
		val, has, err, panicked = runRule(src, name, inject)
	})
	if ex.Verdict != "" {
		msg := ex.Verdict
		if ex.Crash != "" {
			msg += ": " + strings.SplitN(ex.Crash, "\n", 2)[0]
		}
		return nil, false, nil, "the execution did not complete (" + msg + ")"
	}
	return
}

// AttachRunRule is switched off by checks that also make DETACHED pool calls in the same process (the
// pool hands instances back on goroutines of its own; one of those still running while a controlled
// execution is attached would call into a scheduler it does not belong to).
var AttachRunRule = true

func runRule(src *builder.RuleBuilder, name string, inject map[string]interface{}) (val interface{}, has bool, err error, panicked interface{}) {
	// "__withdc": a callback that receives the data context of the run (for injected functions that
	// inject further names while the rule is running); not itself injected
	withDc, _ := inject["__withdc"].(func(*context.DataContext))
	if withDc != nil {
		cp := map[string]interface{}{}
		for k, v := range inject {
			if k != "__withdc" {
				cp[k] = v
			}
		}
		inject = cp
	}
	rb := Fresh(src, nil, inject)
	if withDc != nil {
		withDc(rb.Dc)
	}
	g := engine.NewGengine()
	err, panicked = CallGuarded(func() error { return g.ExecuteSelectedRules(rb, []string{name}) })
	if panicked != nil {
		return nil, false, err, panicked
	}
	m, _ := g.GetRulesResultMap()
	val, has = m[name]
	return
}

// RuleText wraps a body into a rule.
func RuleText(name string, body string) string {
	return fmt.Sprintf("rule \"%s\" begin\n%s\nend\n", name, body)
}
