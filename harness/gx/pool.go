package gx

import (
	"github.com/bilibili/gengine/engine"
)

// PoolCallParams are the non-data parameters of a pool execute method.
type PoolCallParams struct {
	B     bool
	N, M  int
	Names []string
	Dag   [][]string
	Stag  *engine.Stag
}

// PoolMethod is one of the pool's 24 execute methods behind one signature. ReqResp methods inject
// data["req"] / data["resp"] through their (name, value) parameters and ignore every other key.
type PoolMethod struct {
	Name    string
	ReqResp bool // only "req" and "resp" can be injected
	UsesEM  bool // dispatches on the pool's configured execution model
	Conc    bool // starts goroutines (for at least 3 rules)
	Call    func(gp *engine.GenginePool, data map[string]interface{}, p PoolCallParams) (error, map[string]interface{})
}

func pstag(p PoolCallParams) *engine.Stag {
	if p.Stag != nil {
		return p.Stag
	}
	return &engine.Stag{}
}

// PoolMethods lists every execute method of engine.GenginePool.
var PoolMethods = []PoolMethod{
	{Name: "ExecuteRulesWithSpecifiedEM", ReqResp: true, UsesEM: true, Call: func(gp *engine.GenginePool, d map[string]interface{}, p PoolCallParams) (error, map[string]interface{}) {
		rn, pn := "", ""
		if d["req"] != nil {
			rn = "req"
		}
		if d["resp"] != nil {
			pn = "resp"
		}
		return gp.ExecuteRulesWithSpecifiedEM(rn, d["req"], pn, d["resp"])
	}},
	{Name: "ExecuteRulesWithMultiInputWithSpecifiedEM", UsesEM: true, Call: func(gp *engine.GenginePool, d map[string]interface{}, p PoolCallParams) (error, map[string]interface{}) {
		return gp.ExecuteRulesWithMultiInputWithSpecifiedEM(d)
	}},
	{Name: "ExecuteSelectedWithSpecifiedEM", UsesEM: true, Call: func(gp *engine.GenginePool, d map[string]interface{}, p PoolCallParams) (error, map[string]interface{}) {
		return gp.ExecuteSelectedWithSpecifiedEM(d, p.Names)
	}},
	{Name: "Execute", Call: func(gp *engine.GenginePool, d map[string]interface{}, p PoolCallParams) (error, map[string]interface{}) {
		return gp.Execute(d, p.B)
	}},
	{Name: "ExecuteWithStopTagDirect", Call: func(gp *engine.GenginePool, d map[string]interface{}, p PoolCallParams) (error, map[string]interface{}) {
		return gp.ExecuteWithStopTagDirect(d, p.B, pstag(p))
	}},
	{Name: "ExecuteConcurrent", Conc: true, Call: func(gp *engine.GenginePool, d map[string]interface{}, p PoolCallParams) (error, map[string]interface{}) {
		return gp.ExecuteConcurrent(d)
	}},
	{Name: "ExecuteMixModel", Conc: true, Call: func(gp *engine.GenginePool, d map[string]interface{}, p PoolCallParams) (error, map[string]interface{}) {
		return gp.ExecuteMixModel(d)
	}},
	{Name: "ExecuteMixModelWithStopTagDirect", Conc: true, Call: func(gp *engine.GenginePool, d map[string]interface{}, p PoolCallParams) (error, map[string]interface{}) {
		return gp.ExecuteMixModelWithStopTagDirect(d, pstag(p))
	}},
	{Name: "ExecuteSelectedRules", Call: func(gp *engine.GenginePool, d map[string]interface{}, p PoolCallParams) (error, map[string]interface{}) {
		return gp.ExecuteSelectedRules(d, p.Names)
	}},
	{Name: "ExecuteSelectedRulesWithControl", Call: func(gp *engine.GenginePool, d map[string]interface{}, p PoolCallParams) (error, map[string]interface{}) {
		return gp.ExecuteSelectedRulesWithControl(d, p.B, p.Names)
	}},
	{Name: "ExecuteSelectedRulesWithControlAsGivenSortedName", Call: func(gp *engine.GenginePool, d map[string]interface{}, p PoolCallParams) (error, map[string]interface{}) {
		return gp.ExecuteSelectedRulesWithControlAsGivenSortedName(d, p.B, p.Names)
	}},
	{Name: "ExecuteSelectedRulesWithControlAndStopTag", Call: func(gp *engine.GenginePool, d map[string]interface{}, p PoolCallParams) (error, map[string]interface{}) {
		return gp.ExecuteSelectedRulesWithControlAndStopTag(d, p.B, pstag(p), p.Names)
	}},
	{Name: "ExecuteSelectedRulesWithControlAndStopTagAsGivenSortedName", Call: func(gp *engine.GenginePool, d map[string]interface{}, p PoolCallParams) (error, map[string]interface{}) {
		return gp.ExecuteSelectedRulesWithControlAndStopTagAsGivenSortedName(d, p.B, pstag(p), p.Names)
	}},
	{Name: "ExecuteSelectedRulesConcurrent", Conc: true, Call: func(gp *engine.GenginePool, d map[string]interface{}, p PoolCallParams) (error, map[string]interface{}) {
		return gp.ExecuteSelectedRulesConcurrent(d, p.Names)
	}},
	{Name: "ExecuteSelectedRulesMixModel", Conc: true, Call: func(gp *engine.GenginePool, d map[string]interface{}, p PoolCallParams) (error, map[string]interface{}) {
		return gp.ExecuteSelectedRulesMixModel(d, p.Names)
	}},
	{Name: "ExecuteInverseMixModel", Conc: true, Call: func(gp *engine.GenginePool, d map[string]interface{}, p PoolCallParams) (error, map[string]interface{}) {
		return gp.ExecuteInverseMixModel(d)
	}},
	{Name: "ExecuteSelectedRulesInverseMixModel", Conc: true, Call: func(gp *engine.GenginePool, d map[string]interface{}, p PoolCallParams) (error, map[string]interface{}) {
		return gp.ExecuteSelectedRulesInverseMixModel(d, p.Names)
	}},
	{Name: "ExecuteNSortMConcurrent", Conc: true, Call: func(gp *engine.GenginePool, d map[string]interface{}, p PoolCallParams) (error, map[string]interface{}) {
		return gp.ExecuteNSortMConcurrent(p.N, p.M, p.B, d)
	}},
	{Name: "ExecuteNConcurrentMSort", Conc: true, Call: func(gp *engine.GenginePool, d map[string]interface{}, p PoolCallParams) (error, map[string]interface{}) {
		return gp.ExecuteNConcurrentMSort(p.N, p.M, p.B, d)
	}},
	{Name: "ExecuteNConcurrentMConcurrent", Conc: true, Call: func(gp *engine.GenginePool, d map[string]interface{}, p PoolCallParams) (error, map[string]interface{}) {
		return gp.ExecuteNConcurrentMConcurrent(p.N, p.M, p.B, d)
	}},
	{Name: "ExecuteSelectedNSortMConcurrent", Conc: true, Call: func(gp *engine.GenginePool, d map[string]interface{}, p PoolCallParams) (error, map[string]interface{}) {
		return gp.ExecuteSelectedNSortMConcurrent(p.N, p.M, p.B, p.Names, d)
	}},
	{Name: "ExecuteSelectedNConcurrentMSort", Conc: true, Call: func(gp *engine.GenginePool, d map[string]interface{}, p PoolCallParams) (error, map[string]interface{}) {
		return gp.ExecuteSelectedNConcurrentMSort(p.N, p.M, p.B, p.Names, d)
	}},
	{Name: "ExecuteSelectedNConcurrentMConcurrent", Conc: true, Call: func(gp *engine.GenginePool, d map[string]interface{}, p PoolCallParams) (error, map[string]interface{}) {
		return gp.ExecuteSelectedNConcurrentMConcurrent(p.N, p.M, p.B, p.Names, d)
	}},
	{Name: "ExecuteDAGModel", Conc: true, Call: func(gp *engine.GenginePool, d map[string]interface{}, p PoolCallParams) (error, map[string]interface{}) {
		return gp.ExecuteDAGModel(p.Dag, d)
	}},
}

// PoolMethodByName looks a method up.
func PoolMethodByName(n string) *PoolMethod {
	for i := range PoolMethods {
		if PoolMethods[i].Name == n {
			return &PoolMethods[i]
		}
	}
	return nil
}

// PoolCallGuarded calls the method and reports a panic that escapes it.
func PoolCallGuarded(m *PoolMethod, gp *engine.GenginePool, d map[string]interface{}, p PoolCallParams) (err error, res map[string]interface{}, panicked interface{}) {
	defer func() {
		if r := recover(); r != nil {
			panicked = r
		}
	}()
	err, res = m.Call(gp, d, p)
	return
}
