package main

import (
	"fmt"

	"github.com/bilibili/gengine/engine"
	"github.com/bilibili/gengine/verifrt/vsched"
)

func main() {
	fmt.Println(vsched.Attached(), engine.SortModel)
}
