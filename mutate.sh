#!/bin/bash
# usage: mutate.sh [-R] <patch> <check-id>... [-- extra env assignments are taken from the environment]
# Applies a patch to /repo's working tree (never committed), runs the given quick checks, restores /repo.
REV=""
if [ "$1" = "-R" ]; then REV="-R"; shift; fi
P="$(readlink -f "$1")"; shift
cd /repo || exit 2
if ! git diff --quiet; then echo "/repo working tree not clean" >&2; exit 2; fi
git apply $REV "$P" || { echo "patch does not apply" >&2; exit 2; }
trap 'git -C /repo checkout -- . ' EXIT
for id in "$@"; do
  out=$(cd /verif && timeout 1200 ./check "$id" 2>&1)
  rc=$?
  echo "== $id rc=$rc $(echo "$out" | grep -c '^VIOLATION') violation line(s)"
  echo "$out" | grep -E "^(VIOLATION|  [a-z]|C[0-9][0-9] )" | cut -c1-260 | head -${MUT_LINES:-8}
done
