// instr rewrites the current /repo working tree for the controlled scheduler and writes a build
// overlay; /repo itself is never modified. See DESIGN.md §E1 for the rewrite table (R1..R6).
//
//	instr -repo /repo -rt /verif/rt -out <dir>
//
// Output: <dir>/overlay.json, <dir>/src/... (rewritten files), <dir>/sites.json.
// Exit code 2 = internal error (tree does not parse / type-check), never a verdict.
package main

import (
	"bytes"
	"encoding/json"
	"flag"
	"fmt"
	"go/ast"
	"go/build"
	"go/importer"
	"go/parser"
	"go/printer"
	"go/token"
	"go/types"
	"os"
	"path/filepath"
	"sort"
	"strconv"
	"strings"
)

const (
	modPath    = "github.com/bilibili/gengine"
	vschedPath = modPath + "/verifrt/vsched"
	vsyncPath  = modPath + "/verifrt/vsync"
)

type Site struct {
	File  string
	Line  int
	Func  string
	Expr  string
	Write bool
}

var (
	fset     = token.NewFileSet()
	sites    []Site
	warnings []string
	noAccess bool
)

func die(format string, a ...interface{}) {
	fmt.Fprintf(os.Stderr, "INTERNAL-ERROR instr: "+format+"\n", a...)
	os.Exit(2)
}

func warn(format string, a ...interface{}) {
	warnings = append(warnings, fmt.Sprintf(format, a...))
}

func main() {
	repo := flag.String("repo", "/repo", "repository root")
	rt := flag.String("rt", "/verif/rt", "runtime sources (vsched, vsync)")
	out := flag.String("out", "", "output directory")
	flag.BoolVar(&noAccess, "noaccess", false, "skip R5 (shared-memory access hooks)")
	flag.Parse()
	if *out == "" {
		die("missing -out")
	}
	repoAbs, _ := filepath.Abs(*repo)
	rtAbs, _ := filepath.Abs(*rt)
	outAbs, _ := filepath.Abs(*out)
	os.MkdirAll(filepath.Join(outAbs, "src"), 0o755)

	// collect package directories
	var dirs []string
	filepath.Walk(repoAbs, func(p string, fi os.FileInfo, err error) error {
		if err != nil {
			return nil
		}
		if fi.IsDir() {
			rel, _ := filepath.Rel(repoAbs, p)
			if rel == "test" || rel == ".git" || rel == "verifrt" || strings.HasPrefix(rel, "internal/iantlr") || strings.HasPrefix(filepath.Base(p), ".") && rel != "." {
				return filepath.SkipDir
			}
			dirs = append(dirs, p)
		}
		return nil
	})

	os.Chdir(repoAbs)
	build.Default.Dir = repoAbs
	imp := importer.ForCompiler(fset, "source", nil)

	overlay := map[string]string{}
	for _, dir := range dirs {
		ents, _ := os.ReadDir(dir)
		var files []*ast.File
		var names []string
		for _, e := range ents {
			n := e.Name()
			if e.IsDir() || !strings.HasSuffix(n, ".go") || strings.HasSuffix(n, "_test.go") {
				continue
			}
			full := filepath.Join(dir, n)
			// honour build constraints of the default context
			if ok, _ := build.Default.MatchFile(dir, n); !ok {
				continue
			}
			f, err := parser.ParseFile(fset, full, nil, parser.ParseComments)
			if err != nil {
				die("parse %s: %v", full, err)
			}
			files = append(files, f)
			names = append(names, full)
		}
		if len(files) == 0 {
			continue
		}
		rel, _ := filepath.Rel(repoAbs, dir)
		ipath := modPath
		if rel != "." {
			ipath = modPath + "/" + filepath.ToSlash(rel)
		}
		info := &types.Info{
			Types:      map[ast.Expr]types.TypeAndValue{},
			Defs:       map[*ast.Ident]types.Object{},
			Uses:       map[*ast.Ident]types.Object{},
			Selections: map[*ast.SelectorExpr]*types.Selection{},
		}
		var terrs []string
		conf := types.Config{Importer: imp, Error: func(err error) { terrs = append(terrs, err.Error()) }}
		pkg, _ := conf.Check(ipath, fset, files, info)
		if len(terrs) > 0 {
			die("type-check %s: %s", ipath, strings.Join(terrs, "; "))
		}
		for i, f := range files {
			r := &rw{info: info, pkg: pkg, file: f, relFile: mustRel(repoAbs, names[i])}
			if !r.rewriteFile() {
				continue
			}
			dst := filepath.Join(outAbs, "src", r.relFile)
			os.MkdirAll(filepath.Dir(dst), 0o755)
			var buf bytes.Buffer
			buf.WriteString("//go:build go1.18\n\n")
			cfg := printer.Config{Mode: printer.UseSpaces | printer.TabIndent, Tabwidth: 8}
			if err := cfg.Fprint(&buf, fset, f); err != nil {
				die("print %s: %v", names[i], err)
			}
			// re-parse as a sanity check
			if _, err := parser.ParseFile(token.NewFileSet(), dst, buf.Bytes(), 0); err != nil {
				os.WriteFile(dst+".broken", buf.Bytes(), 0o644)
				die("rewritten %s does not parse: %v", names[i], err)
			}
			if err := os.WriteFile(dst, buf.Bytes(), 0o644); err != nil {
				die("write %s: %v", dst, err)
			}
			overlay[names[i]] = dst
		}
	}

	// runtime packages as virtual packages inside the gengine module
	for _, p := range []string{"vsched", "vsync"} {
		ents, err := os.ReadDir(filepath.Join(rtAbs, p))
		if err != nil {
			die("runtime dir: %v", err)
		}
		for _, e := range ents {
			if strings.HasSuffix(e.Name(), ".go") && !strings.HasSuffix(e.Name(), "_test.go") {
				overlay[filepath.Join(repoAbs, "verifrt", p, e.Name())] = filepath.Join(rtAbs, p, e.Name())
			}
		}
	}
	// site table
	var sb bytes.Buffer
	sb.WriteString("//go:build go1.18\n\npackage vsched\n\nfunc init() {\n\tSiteTable = []SiteInfo{\n")
	for _, s := range sites {
		fmt.Fprintf(&sb, "\t\t{%q, %d, %q, %q, %v},\n", s.File, s.Line, s.Func, s.Expr, s.Write)
	}
	sb.WriteString("\t}\n}\n")
	gen := filepath.Join(outAbs, "src", "sites_gen.go")
	os.WriteFile(gen, sb.Bytes(), 0o644)
	overlay[filepath.Join(repoAbs, "verifrt", "vsched", "sites_gen.go")] = gen

	ov, _ := json.MarshalIndent(map[string]interface{}{"Replace": overlay}, "", " ")
	os.WriteFile(filepath.Join(outAbs, "overlay.json"), ov, 0o644)
	sj, _ := json.MarshalIndent(map[string]interface{}{"sites": len(sites), "warnings": warnings, "files": len(overlay)}, "", " ")
	os.WriteFile(filepath.Join(outAbs, "instr.json"), sj, 0o644)
	for _, w := range warnings {
		fmt.Fprintln(os.Stderr, "instr: warning:", w)
	}
}

func mustRel(base, p string) string {
	r, err := filepath.Rel(base, p)
	if err != nil {
		die("rel: %v", err)
	}
	return r
}

// ---------------------------------------------------------------------------------------------

type rw struct {
	info    *types.Info
	pkg     *types.Package
	file    *ast.File
	relFile string

	curFunc    string
	shared     map[*types.Var]bool
	usedVsched bool
	usedUnsafe bool
	changed    bool
	tmpN       int
	noHook     bool
	nAtomic    int // atomic operations rewritten so far (R8)
}

func id(n string) *ast.Ident { return &ast.Ident{Name: n} }

func sel(x, s string) *ast.SelectorExpr { return &ast.SelectorExpr{X: id(x), Sel: id(s)} }

func call(fun ast.Expr, args ...ast.Expr) *ast.CallExpr { return &ast.CallExpr{Fun: fun, Args: args} }

func intLit(n int) *ast.BasicLit { return &ast.BasicLit{Kind: token.INT, Value: strconv.Itoa(n)} }

func (r *rw) vs(name string, args ...ast.Expr) *ast.CallExpr {
	r.usedVsched = true
	r.changed = true
	return call(sel("vsched", name), args...)
}

func (r *rw) tmp() string {
	r.tmpN++
	return "__vt" + strconv.Itoa(r.tmpN)
}

func exprString(e ast.Expr) string {
	var b bytes.Buffer
	printer.Fprint(&b, fset, e)
	s := b.String()
	if len(s) > 80 {
		s = s[:80]
	}
	return strings.Join(strings.Fields(s), " ")
}

func (r *rw) site(orig ast.Expr, write bool) ast.Expr {
	pos := fset.Position(orig.Pos())
	sites = append(sites, Site{File: r.relFile, Line: pos.Line, Func: r.curFunc, Expr: exprString(orig), Write: write})
	return intLit(len(sites) - 1)
}

func (r *rw) rewriteFile() bool {
	f := r.file
	// R1: sync import
	for _, im := range f.Imports {
		p, _ := strconv.Unquote(im.Path.Value)
		if p == "sync" {
			if im.Name != nil && im.Name.Name != "sync" {
				// keep the alias
			} else {
				im.Name = id("sync")
			}
			im.Path = &ast.BasicLit{Kind: token.STRING, Value: strconv.Quote(vsyncPath)}
			im.EndPos = 0
			r.changed = true
		}
	}
	for _, d := range f.Decls {
		fd, ok := d.(*ast.FuncDecl)
		if !ok || fd.Body == nil {
			continue
		}
		r.curFunc = fd.Name.Name
		if fd.Recv != nil && len(fd.Recv.List) > 0 {
			r.curFunc = exprString(fd.Recv.List[0].Type) + "." + fd.Name.Name
		}
		r.shared = map[*types.Var]bool{}
		if !noAccess {
			r.findShared(fd)
		}
		fd.Body.List = r.block(fd.Body.List)
	}
	// package-level var initialisers may contain func literals
	for _, d := range f.Decls {
		if gd, ok := d.(*ast.GenDecl); ok && gd.Tok == token.VAR {
			for _, sp := range gd.Specs {
				vsp := sp.(*ast.ValueSpec)
				for i, v := range vsp.Values {
					r.curFunc = "init"
					r.shared = map[*types.Var]bool{}
					vsp.Values[i] = r.expr(v)
				}
			}
		}
	}
	if !r.changed {
		return false
	}
	f.Comments = nil
	stripDocs(f)
	var specs []ast.Spec
	if r.usedVsched {
		specs = append(specs, &ast.ImportSpec{Name: id("vsched"), Path: &ast.BasicLit{Kind: token.STRING, Value: strconv.Quote(vschedPath)}})
	}
	if r.usedUnsafe {
		has := false
		for _, im := range f.Imports {
			if im.Path.Value == `"unsafe"` {
				has = true
			}
		}
		if !has {
			specs = append(specs, &ast.ImportSpec{Path: &ast.BasicLit{Kind: token.STRING, Value: `"unsafe"`}})
		}
	}
	if len(specs) > 0 {
		gd := &ast.GenDecl{Tok: token.IMPORT, Lparen: 1, Specs: specs}
		f.Decls = append([]ast.Decl{gd}, f.Decls...)
	}
	return true
}

func stripDocs(f *ast.File) {
	f.Doc = nil
	ast.Inspect(f, func(n ast.Node) bool {
		switch x := n.(type) {
		case *ast.FuncDecl:
			x.Doc = nil
		case *ast.GenDecl:
			x.Doc = nil
		case *ast.TypeSpec:
			x.Doc, x.Comment = nil, nil
		case *ast.ValueSpec:
			x.Doc, x.Comment = nil, nil
		case *ast.Field:
			x.Doc, x.Comment = nil, nil
		case *ast.ImportSpec:
			x.Doc, x.Comment = nil, nil
		}
		return true
	})
}

// findShared collects the local variables of fd that are referenced from inside a function
// literal nested in fd while declared outside that literal (captured variables).
func (r *rw) findShared(fd *ast.FuncDecl) {
	var lits []*ast.FuncLit
	ast.Inspect(fd.Body, func(n ast.Node) bool {
		if l, ok := n.(*ast.FuncLit); ok {
			lits = append(lits, l)
		}
		return true
	})
	// variables that are stored to (or whose address is taken) after their declaration
	mutated := map[*types.Var]bool{}
	mark := func(e ast.Expr) {
		if idn, ok := unparen(e).(*ast.Ident); ok {
			if v, ok := r.info.Uses[idn].(*types.Var); ok {
				mutated[v] = true
			}
		}
	}
	ast.Inspect(fd.Body, func(n ast.Node) bool {
		switch x := n.(type) {
		case *ast.AssignStmt:
			for _, l := range x.Lhs {
				mark(l)
			}
		case *ast.IncDecStmt:
			mark(x.X)
		case *ast.UnaryExpr:
			if x.Op == token.AND {
				mark(x.X)
			}
		case *ast.RangeStmt:
			if x.Tok == token.ASSIGN {
				if x.Key != nil {
					mark(x.Key)
				}
				if x.Value != nil {
					mark(x.Value)
				}
			}
		}
		return true
	})
	for _, l := range lits {
		ast.Inspect(l.Body, func(n ast.Node) bool {
			idn, ok := n.(*ast.Ident)
			if !ok {
				return true
			}
			v, ok := r.info.Uses[idn].(*types.Var)
			if !ok || v.IsField() || v.Pkg() == nil || v.Parent() == v.Pkg().Scope() {
				return true
			}
			if v.Pos() >= l.Pos() && v.Pos() < l.End() {
				return true
			}
			if !wrappable(v.Type()) || !mutated[v] {
				return true
			}
			r.shared[v] = true
			return true
		})
	}
}

func isSyncType(t types.Type) bool {
	if p, ok := t.(*types.Pointer); ok {
		t = p.Elem()
	}
	n, ok := t.(*types.Named)
	if !ok || n.Obj().Pkg() == nil {
		return false
	}
	return n.Obj().Pkg().Path() == "sync" || n.Obj().Pkg().Path() == "sync/atomic"
}

// wrappable: values of struct or array type are never wrapped (they may be needed addressable).
func wrappable(t types.Type) bool {
	if isSyncType(t) {
		return false
	}
	switch t.Underlying().(type) {
	case *types.Struct, *types.Array:
		return false
	}
	return true
}

func inModule(p *types.Package) bool {
	if p == nil {
		return false
	}
	pp := p.Path()
	return (pp == modPath || strings.HasPrefix(pp, modPath+"/")) && !strings.Contains(pp, "/internal/iantlr") && !strings.Contains(pp, "/verifrt")
}

// watchedField reports whether sel selects a field of one of gengine's own struct types.
func (r *rw) watchedField(s *ast.SelectorExpr) bool {
	if noAccess {
		return false
	}
	sl := r.info.Selections[s]
	if sl == nil || sl.Kind() != types.FieldVal {
		return false
	}
	v, ok := sl.Obj().(*types.Var)
	if !ok || !inModule(v.Pkg()) {
		return false
	}
	return wrappable(v.Type())
}

// watchedVar reports whether idn is a use of a captured local or of a gengine package-level variable.
func (r *rw) watchedVar(idn *ast.Ident) bool {
	if noAccess {
		return false
	}
	v, ok := r.info.Uses[idn].(*types.Var)
	if !ok || v.IsField() {
		return false
	}
	if r.shared[v] {
		return true
	}
	if v.Pkg() != nil && v.Parent() == v.Pkg().Scope() && inModule(v.Pkg()) && wrappable(v.Type()) {
		return true
	}
	return false
}

func (r *rw) isMap(e ast.Expr) bool {
	t := r.info.TypeOf(e)
	if t == nil {
		return false
	}
	_, ok := t.Underlying().(*types.Map)
	return ok
}

// isSlice: e has a slice type (named or not); strings and arrays are not hooked
func (r *rw) isSlice(e ast.Expr) bool {
	t := r.info.TypeOf(e)
	if t == nil {
		return false
	}
	_, ok := t.Underlying().(*types.Slice)
	return ok
}

func (r *rw) isString(e ast.Expr) bool {
	t := r.info.TypeOf(e)
	if t == nil {
		return false
	}
	b, ok := t.Underlying().(*types.Basic)
	return ok && b.Info()&types.IsString != 0
}

func (r *rw) isChan(e ast.Expr) bool {
	t := r.info.TypeOf(e)
	if t == nil {
		return false
	}
	_, ok := t.Underlying().(*types.Chan)
	return ok
}

func (r *rw) addressable(e ast.Expr) bool {
	tv, ok := r.info.Types[e]
	if ok {
		return tv.Addressable()
	}
	if idn, ok := e.(*ast.Ident); ok {
		_, isVar := r.info.Uses[idn].(*types.Var)
		return isVar
	}
	return false
}

func (r *rw) hasRealCall(e ast.Expr) bool {
	found := false
	ast.Inspect(e, func(n ast.Node) bool {
		if found {
			return false
		}
		if _, ok := n.(*ast.FuncLit); ok {
			return false
		}
		c, ok := n.(*ast.CallExpr)
		if !ok {
			return true
		}
		if tv, ok := r.info.Types[c.Fun]; ok && (tv.IsType() || tv.IsBuiltin()) {
			return true
		}
		found = true
		return false
	})
	return found
}

// ---- statements ----

func (r *rw) block(list []ast.Stmt) []ast.Stmt {
	var out []ast.Stmt
	for _, s := range list {
		pre, ns := r.stmt(s, "")
		out = append(out, pre...)
		if ns != nil {
			out = append(out, ns)
		}
	}
	return out
}

func (r *rw) blockStmt(b *ast.BlockStmt) {
	if b != nil {
		b.List = r.block(b.List)
	}
}

// simple rewrites a statement that sits where no pre-statements can be inserted (if/for/switch
// init and post): reads are wrapped, writes are not hooked.
func (r *rw) simple(s ast.Stmt) ast.Stmt {
	if s == nil {
		return nil
	}
	old := r.noHook
	r.noHook = true
	pre, ns := r.stmt(s, "")
	r.noHook = old
	if len(pre) > 0 {
		die("%s: pre-statements generated in init/post statement (%s)", r.relFile, r.curFunc)
	}
	return ns
}

func (r *rw) stmt(s ast.Stmt, label string) (pre []ast.Stmt, out ast.Stmt) {
	switch x := s.(type) {
	case *ast.AssignStmt:
		return r.assign(x)
	case *ast.ExprStmt:
		// delete(m, k)
		if c, ok := x.X.(*ast.CallExpr); ok {
			if f, ok := c.Fun.(*ast.Ident); ok && f.Name == "delete" && len(c.Args) == 2 && r.isMap(c.Args[0]) && !noAccess && !r.noHook {
				if _, isB := r.info.Uses[f].(*types.Builtin); isB && !r.hasRealCall(c.Args[0]) {
					pre = append(pre, &ast.ExprStmt{X: r.vs("WM", c.Args[0], r.site(c.Args[0], true))})
				}
			}
		}
		x.X = r.expr(x.X)
		return pre, x
	case *ast.IncDecStmt:
		if w := r.writeHook(x.X); w != nil {
			pre = append(pre, w)
		}
		x.X = r.lhs(x.X)
		return pre, x
	case *ast.GoStmt:
		return nil, r.goStmt(x)
	case *ast.DeferStmt:
		x.Call = r.expr(x.Call).(*ast.CallExpr)
		return nil, x
	case *ast.ReturnStmt:
		for i, e := range x.Results {
			x.Results[i] = r.expr(e)
		}
		return nil, x
	case *ast.IfStmt:
		x.Init = r.simple(x.Init)
		x.Cond = r.expr(x.Cond)
		r.blockStmt(x.Body)
		if x.Else != nil {
			_, e := r.stmt(x.Else, "")
			x.Else = e
		}
		return nil, x
	case *ast.ForStmt:
		x.Init = r.simple(x.Init)
		na := r.nAtomic
		if x.Cond != nil {
			x.Cond = r.expr(x.Cond)
		}
		atomicCond := r.nAtomic != na
		x.Post = r.simple(x.Post)
		r.blockStmt(x.Body)
		atomicBody := r.nAtomic != na
		// R4: condition-less retry loop around a lock (or around atomic operations)
		if x.Init == nil && x.Cond == nil && x.Post == nil && (containsLockCall(x.Body) || atomicBody) {
			c := r.tmp()
			x.Init = &ast.AssignStmt{Lhs: []ast.Expr{id(c)}, Tok: token.DEFINE, Rhs: []ast.Expr{intLit(0)}}
			x.Post = &ast.IncDecStmt{X: id(c), Tok: token.INC}
			guard := &ast.IfStmt{Cond: &ast.BinaryExpr{X: id(c), Op: token.GTR, Y: intLit(0)},
				Body: &ast.BlockStmt{List: []ast.Stmt{&ast.ExprStmt{X: r.vs("SpinYield")}}}}
			x.Body.List = append([]ast.Stmt{guard}, x.Body.List...)
			return nil, x
		}
		// a loop that waits on an atomic operation in its condition: fair yield from the second iteration on
		if atomicCond {
			c := r.tmp()
			guard := &ast.IfStmt{Cond: &ast.BinaryExpr{X: id(c), Op: token.GTR, Y: intLit(0)},
				Body: &ast.BlockStmt{List: []ast.Stmt{&ast.ExprStmt{X: r.vs("SpinYield")}}}}
			inc := &ast.IncDecStmt{X: id(c), Tok: token.INC}
			x.Body.List = append([]ast.Stmt{guard, inc}, x.Body.List...)
			var loop ast.Stmt = x
			if label != "" {
				loop = &ast.LabeledStmt{Label: id(label), Stmt: x}
			}
			return nil, &ast.BlockStmt{List: []ast.Stmt{
				&ast.AssignStmt{Lhs: []ast.Expr{id(c)}, Tok: token.DEFINE, Rhs: []ast.Expr{intLit(0)}},
				loop,
			}}
		}
		return nil, x
	case *ast.RangeStmt:
		return nil, r.rangeStmt(x, label)
	case *ast.SwitchStmt:
		x.Init = r.simple(x.Init)
		if x.Tag != nil {
			x.Tag = r.expr(x.Tag)
		}
		r.clauses(x.Body)
		return nil, x
	case *ast.TypeSwitchStmt:
		x.Init = r.simple(x.Init)
		x.Assign = r.simple(x.Assign)
		r.clauses(x.Body)
		return nil, x
	case *ast.SelectStmt:
		return nil, r.selectStmt(x)
	case *ast.BlockStmt:
		r.blockStmt(x)
		return nil, x
	case *ast.LabeledStmt:
		if rs, ok := x.Stmt.(*ast.RangeStmt); ok && (r.isMap(rs.X) || r.isChan(rs.X)) {
			return nil, r.rangeStmt(rs, x.Label.Name)
		}
		p, ns := r.stmt(x.Stmt, "")
		x.Stmt = ns
		return p, x
	case *ast.DeclStmt:
		if gd, ok := x.Decl.(*ast.GenDecl); ok && gd.Tok == token.VAR {
			for _, sp := range gd.Specs {
				vsp := sp.(*ast.ValueSpec)
				for i, v := range vsp.Values {
					vsp.Values[i] = r.expr(v)
				}
			}
		}
		return nil, x
	case *ast.SendStmt:
		// R7: channel operations go through the scheduler's channel model
		return nil, &ast.ExprStmt{X: r.vs("ChanSend", r.expr(x.Chan), r.expr(x.Value))}
	}
	return nil, s
}

// R7: select statement -> switch over vsched.Select(...)
func (r *rw) selectStmt(x *ast.SelectStmt) ast.Stmt {
	var cases []ast.Expr
	hasDefault := false
	var clauses []ast.Stmt
	res := r.tmp()
	idx := 0
	for _, c := range x.Body.List {
		cc := c.(*ast.CommClause)
		if cc.Comm == nil {
			hasDefault = true
			clauses = append(clauses, &ast.CaseClause{List: nil, Body: r.block(cc.Body)})
			continue
		}
		var head []ast.Stmt
		switch cm := cc.Comm.(type) {
		case *ast.SendStmt:
			cases = append(cases, r.vs("SendCase", r.expr(cm.Chan), r.expr(cm.Value)))
		case *ast.ExprStmt: // <-ch
			u := unparen(cm.X).(*ast.UnaryExpr)
			cases = append(cases, r.vs("RecvCase", r.expr(u.X)))
		case *ast.AssignStmt: // v := <-ch ; v, ok = <-ch
			u := unparen(cm.Rhs[0]).(*ast.UnaryExpr)
			chE := r.expr(u.X)
			cases = append(cases, r.vs("RecvCase", chE))
			lhs := append([]ast.Expr{}, cm.Lhs...)
			if len(lhs) == 1 {
				lhs = append(lhs, id("_"))
			}
			head = append(head, &ast.AssignStmt{Lhs: lhs, Tok: cm.Tok, Rhs: []ast.Expr{r.vs("SelVal", id(res), cloneExpr(chE))}})
		}
		clauses = append(clauses, &ast.CaseClause{List: []ast.Expr{intLit(idx)}, Body: append(head, r.block(cc.Body)...)})
		idx++
	}
	def := "false"
	if hasDefault {
		def = "true"
	}
	args := append([]ast.Expr{id(def)}, cases...)
	return &ast.SwitchStmt{
		Init: &ast.AssignStmt{Lhs: []ast.Expr{id(res)}, Tok: token.DEFINE, Rhs: []ast.Expr{r.vs("Select", args...)}},
		Tag:  &ast.SelectorExpr{X: id(res), Sel: id("Index")},
		Body: &ast.BlockStmt{List: clauses},
	}
}

func (r *rw) clauses(b *ast.BlockStmt) {
	for _, c := range b.List {
		cc := c.(*ast.CaseClause)
		for i, e := range cc.List {
			if tv, ok := r.info.Types[e]; ok && tv.IsType() {
				continue
			}
			cc.List[i] = r.expr(e)
		}
		cc.Body = r.block(cc.Body)
	}
}

func containsLockCall(b *ast.BlockStmt) bool {
	found := false
	ast.Inspect(b, func(n ast.Node) bool {
		if _, ok := n.(*ast.FuncLit); ok {
			return false
		}
		if c, ok := n.(*ast.CallExpr); ok {
			if s, ok := c.Fun.(*ast.SelectorExpr); ok && (s.Sel.Name == "Lock" || s.Sel.Name == "RLock") && len(c.Args) == 0 {
				found = true
			}
		}
		return !found
	})
	return found
}

// R2
func (r *rw) goStmt(g *ast.GoStmt) ast.Stmt {
	c := g.Call
	if fl, ok := c.Fun.(*ast.FuncLit); ok && len(c.Args) == 0 {
		r.blockStmt(fl.Body)
		return &ast.ExprStmt{X: r.vs("Go", fl)}
	}
	// general case: evaluate function value and arguments now, call later
	var pre []ast.Stmt
	fn := r.expr(c.Fun)
	if _, isLit := fn.(*ast.FuncLit); !isLit {
		if _, isSel := fn.(*ast.SelectorExpr); !isSel {
			if _, isId := fn.(*ast.Ident); !isId {
				t := r.tmp()
				pre = append(pre, &ast.AssignStmt{Lhs: []ast.Expr{id(t)}, Tok: token.DEFINE, Rhs: []ast.Expr{fn}})
				fn = id(t)
			}
		}
	}
	var args []ast.Expr
	for _, a := range c.Args {
		t := r.tmp()
		pre = append(pre, &ast.AssignStmt{Lhs: []ast.Expr{id(t)}, Tok: token.DEFINE, Rhs: []ast.Expr{r.expr(a)}})
		args = append(args, id(t))
	}
	inner := &ast.CallExpr{Fun: fn, Args: args, Ellipsis: c.Ellipsis}
	lit := &ast.FuncLit{Type: &ast.FuncType{Params: &ast.FieldList{}}, Body: &ast.BlockStmt{List: []ast.Stmt{&ast.ExprStmt{X: inner}}}}
	pre = append(pre, &ast.ExprStmt{X: r.vs("Go", lit)})
	return &ast.BlockStmt{List: pre}
}

// R3
func (r *rw) rangeStmt(x *ast.RangeStmt, label string) ast.Stmt {
	if r.isChan(x.X) {
		// for v := range ch { body }  ->  for { v, ok := vsched.ChanRecv2(ch); if !ok { break }; body }
		okv := r.tmp()
		chE := r.expr(x.X)
		r.blockStmt(x.Body)
		var lhs ast.Expr = id("_")
		tok := token.DEFINE
		if x.Key != nil {
			lhs = x.Key
			if x.Tok == token.ASSIGN {
				tok = token.ASSIGN
			}
		}
		var pre []ast.Stmt
		if tok == token.ASSIGN {
			pre = append(pre, &ast.DeclStmt{Decl: &ast.GenDecl{Tok: token.VAR, Specs: []ast.Spec{&ast.ValueSpec{Names: []*ast.Ident{id(okv)}, Type: id("bool")}}}})
		}
		recv := &ast.AssignStmt{Lhs: []ast.Expr{lhs, id(okv)}, Tok: tok, Rhs: []ast.Expr{r.vs("ChanRecv2", chE)}}
		brk := &ast.IfStmt{Cond: &ast.UnaryExpr{Op: token.NOT, X: id(okv)}, Body: &ast.BlockStmt{List: []ast.Stmt{&ast.BranchStmt{Tok: token.BREAK}}}}
		loop := &ast.ForStmt{Body: &ast.BlockStmt{List: append(append(pre, recv, brk), x.Body.List...)}}
		if label != "" {
			return &ast.LabeledStmt{Label: id(label), Stmt: loop}
		}
		return loop
	}
	if !r.isMap(x.X) {
		if x.Key != nil && x.Tok == token.ASSIGN {
			x.Key = r.lhs(x.Key)
		}
		if x.Value != nil && x.Tok == token.ASSIGN {
			x.Value = r.lhs(x.Value)
		}
		isBlankE := func(e ast.Expr) bool {
			if e == nil {
				return true
			}
			i, ok := e.(*ast.Ident)
			return ok && i.Name == "_"
		}
		if r.isSlice(x.X) && !noAccess && !r.noHook && x.Tok == token.DEFINE && !isBlankE(x.Value) {
			// for i, v := range X  ->  s := X; for i, v := range s { vsched.REr(s, i, site); ... }
			site := r.site(x.X, false)
			sv := r.tmp()
			xe := r.expr(x.X)
			r.blockStmt(x.Body)
			if isBlankE(x.Key) {
				x.Key = id(r.tmp())
			}
			kid := x.Key.(*ast.Ident)
			x.X = id(sv)
			x.Body.List = append([]ast.Stmt{&ast.ExprStmt{X: r.vs("REr", id(sv), id(kid.Name), site)}}, x.Body.List...)
			var loop ast.Stmt = x
			if label != "" {
				loop = &ast.LabeledStmt{Label: id(label), Stmt: x}
			}
			return &ast.BlockStmt{List: []ast.Stmt{
				&ast.AssignStmt{Lhs: []ast.Expr{id(sv)}, Tok: token.DEFINE, Rhs: []ast.Expr{xe}},
				loop,
			}}
		}
		x.X = r.expr(x.X)
		r.blockStmt(x.Body)
		if label != "" {
			return &ast.LabeledStmt{Label: id(label), Stmt: x}
		}
		return x
	}
	// the site is described by the ORIGINAL expression (r.expr rewrites the tree in place)
	siteArg := ast.Expr(&ast.UnaryExpr{Op: token.SUB, X: intLit(1)})
	if !noAccess {
		siteArg = r.site(x.X, false)
	}
	mexpr := r.expr(x.X)
	r.blockStmt(x.Body)
	mv := r.tmp()
	kv := r.tmp()
	head := []ast.Stmt{&ast.AssignStmt{Lhs: []ast.Expr{id("_")}, Tok: token.ASSIGN, Rhs: []ast.Expr{id(kv)}}}
	isBlank := func(e ast.Expr) bool {
		if e == nil {
			return true
		}
		i, ok := e.(*ast.Ident)
		return ok && i.Name == "_"
	}
	tok := x.Tok
	if tok == token.ILLEGAL {
		tok = token.DEFINE
	}
	if !isBlank(x.Key) {
		head = append(head, &ast.AssignStmt{Lhs: []ast.Expr{x.Key}, Tok: tok, Rhs: []ast.Expr{id(kv)}})
	}
	if !isBlank(x.Value) {
		head = append(head, &ast.AssignStmt{Lhs: []ast.Expr{x.Value}, Tok: tok, Rhs: []ast.Expr{&ast.IndexExpr{X: id(mv), Index: id(kv)}}})
	}
	if tok == token.DEFINE {
		// silence "declared and not used" for key/value that the body ignores
		for _, e := range []ast.Expr{x.Key, x.Value} {
			if !isBlank(e) {
				head = append(head, &ast.AssignStmt{Lhs: []ast.Expr{id("_")}, Tok: token.ASSIGN, Rhs: []ast.Expr{e}})
			}
		}
	}
	inner := &ast.RangeStmt{Key: id("_"), Value: id(kv), Tok: token.DEFINE, X: r.vs("SortedKeys", id(mv), siteArg),
		Body: &ast.BlockStmt{List: append(head, x.Body.List...)}}
	var loop ast.Stmt = inner
	if label != "" {
		loop = &ast.LabeledStmt{Label: id(label), Stmt: inner}
	}
	return &ast.BlockStmt{List: []ast.Stmt{
		&ast.AssignStmt{Lhs: []ast.Expr{id(mv)}, Tok: token.DEFINE, Rhs: []ast.Expr{mexpr}},
		loop,
	}}
}

func (r *rw) assign(x *ast.AssignStmt) (pre []ast.Stmt, out ast.Stmt) {
	realCall := false
	callRhs := make([]bool, len(x.Rhs))
	for i, e := range x.Rhs {
		if r.hasRealCall(e) {
			realCall = true
			callRhs[i] = true
		}
	}
	// comma-ok channel receive
	if len(x.Lhs) == 2 && len(x.Rhs) == 1 {
		if u, ok := unparen(x.Rhs[0]).(*ast.UnaryExpr); ok && u.Op == token.ARROW {
			x.Rhs[0] = r.vs("ChanRecv2", r.expr(u.X))
			goto lhs
		}
	}
	// comma-ok map read
	if len(x.Lhs) == 2 && len(x.Rhs) == 1 && !noAccess {
		if ix, ok := unparen(x.Rhs[0]).(*ast.IndexExpr); ok && r.isMap(ix.X) {
			site := r.site(ix, false)
			x.Rhs[0] = r.vs("RMI2", r.expr(ix.X), r.expr(ix.Index), site)
			goto lhs
		}
	}
	for i, e := range x.Rhs {
		x.Rhs[i] = r.expr(e)
	}
lhs:
	var hooks []ast.Stmt
	for _, l := range x.Lhs {
		if x.Tok == token.DEFINE {
			idn, ok := l.(*ast.Ident)
			if !ok || idn.Name == "_" || r.info.Defs[idn] != nil {
				continue
			}
		}
		if w := r.writeHook(l); w != nil {
			hooks = append(hooks, w)
		}
	}
	if len(hooks) > 0 {
		// evaluate right-hand sides that perform calls first, so that the hook sits next to the store
		if realCall && x.Tok != token.DEFINE && len(x.Lhs) == len(x.Rhs) {
			// only the right-hand sides that perform calls move into temporaries (others may be
			// untyped constants / nil that need the assignment's context)
			var tl, tr []ast.Expr
			nr := make([]ast.Expr, len(x.Rhs))
			for i, e := range x.Rhs {
				if callRhs[i] {
					t := id(r.tmp())
					tl = append(tl, t)
					tr = append(tr, e)
					nr[i] = t
				} else {
					nr[i] = e
				}
			}
			pre = append(pre, &ast.AssignStmt{Lhs: tl, Tok: token.DEFINE, Rhs: tr})
			x.Rhs = nr
		} else if realCall && x.Tok != token.DEFINE && len(x.Rhs) == 1 {
			var tmps []ast.Expr
			for range x.Lhs {
				tmps = append(tmps, id(r.tmp()))
			}
			pre = append(pre, &ast.AssignStmt{Lhs: tmps, Tok: token.DEFINE, Rhs: x.Rhs})
			x.Rhs = append([]ast.Expr{}, tmps...)
		} else if realCall {
			// := with a call on the right: the hook cannot be placed after the call; record it before
			// only when the call cannot synchronise - we cannot know, so drop the hook (under-approximation)
			warn("%s: write hook dropped for := with call (%s)", r.relFile, r.curFunc)
			hooks = nil
		}
		pre = append(pre, hooks...)
	}
	if x.Tok != token.DEFINE {
		for i, l := range x.Lhs {
			x.Lhs[i] = r.lhs(l)
		}
	}
	return pre, x
}

func unparen(e ast.Expr) ast.Expr {
	for {
		p, ok := e.(*ast.ParenExpr)
		if !ok {
			return e
		}
		e = p.X
	}
}

// writeHook returns the statement that records a store to l, or nil when l is not watched.
func (r *rw) writeHook(l ast.Expr) ast.Stmt {
	if noAccess || r.noHook {
		return nil
	}
	l = unparen(l)
	switch x := l.(type) {
	case *ast.SelectorExpr:
		if r.watchedField(x) && r.addressable(x) && !r.hasRealCall(x) {
			r.usedUnsafe = true
			return &ast.ExprStmt{X: r.vs("W", call(sel("unsafe", "Pointer"), &ast.UnaryExpr{Op: token.AND, X: cloneExpr(x)}), r.site(x, true))}
		}
		if idn, ok := x.X.(*ast.Ident); ok {
			if _, isPkg := r.info.Uses[idn].(*types.PkgName); isPkg && r.watchedVar(x.Sel) {
				r.usedUnsafe = true
				return &ast.ExprStmt{X: r.vs("W", call(sel("unsafe", "Pointer"), &ast.UnaryExpr{Op: token.AND, X: x}), r.site(x, true))}
			}
		}
	case *ast.Ident:
		if r.watchedVar(x) {
			r.usedUnsafe = true
			return &ast.ExprStmt{X: r.vs("W", call(sel("unsafe", "Pointer"), &ast.UnaryExpr{Op: token.AND, X: id(x.Name)}), r.site(x, true))}
		}
	case *ast.IndexExpr:
		if r.isMap(x.X) && !r.hasRealCall(x.X) {
			return &ast.ExprStmt{X: r.vs("WM", cloneExpr(x.X), r.site(x, true))}
		}
		if r.isSlice(x.X) && !r.hasRealCall(x.X) && !r.hasRealCall(x.Index) && pureExpr(x.X) && pureExpr(x.Index) {
			return &ast.ExprStmt{X: r.vs("WE", cloneExpr(x.X), cloneExpr(x.Index), r.site(x, true))}
		}
	}
	return nil
}

// cloneExpr makes a shallow structural copy of selector/index/ident chains so that a later in-place
// rewrite of the original does not change the copy.
func cloneExpr(e ast.Expr) ast.Expr {
	switch x := e.(type) {
	case *ast.Ident:
		return id(x.Name)
	case *ast.SelectorExpr:
		return &ast.SelectorExpr{X: cloneExpr(x.X), Sel: id(x.Sel.Name)}
	case *ast.IndexExpr:
		return &ast.IndexExpr{X: cloneExpr(x.X), Index: cloneExpr(x.Index)}
	case *ast.ParenExpr:
		return &ast.ParenExpr{X: cloneExpr(x.X)}
	case *ast.StarExpr:
		return &ast.StarExpr{X: cloneExpr(x.X)}
	case *ast.BasicLit:
		return &ast.BasicLit{Kind: x.Kind, Value: x.Value}
	case *ast.BinaryExpr:
		return &ast.BinaryExpr{X: cloneExpr(x.X), Op: x.Op, Y: cloneExpr(x.Y)}
	case *ast.UnaryExpr:
		return &ast.UnaryExpr{Op: x.Op, X: cloneExpr(x.X)}
	}
	return e
}

// pureExpr: built only from identifiers, selectors, indexes, literals, arithmetic and len/cap - can be
// evaluated a second time (in a hook) without effect, and cloneExpr copies it completely.
func pureExpr(e ast.Expr) bool {
	switch x := e.(type) {
	case *ast.Ident, *ast.BasicLit:
		return true
	case *ast.SelectorExpr:
		return pureExpr(x.X)
	case *ast.IndexExpr:
		return pureExpr(x.X) && pureExpr(x.Index)
	case *ast.ParenExpr:
		return pureExpr(x.X)
	case *ast.StarExpr:
		return pureExpr(x.X)
	case *ast.BinaryExpr:
		return pureExpr(x.X) && pureExpr(x.Y)
	case *ast.UnaryExpr:
		return x.Op != token.ARROW && x.Op != token.AND && pureExpr(x.X)
	}
	return false
}

// lhs rewrites the operand of a store: the outermost location is not wrapped, everything read on
// the way to it is.
func (r *rw) lhs(e ast.Expr) ast.Expr {
	switch x := e.(type) {
	case *ast.ParenExpr:
		x.X = r.lhs(x.X)
		return x
	case *ast.SelectorExpr:
		x.X = r.base(x.X)
		return x
	case *ast.IndexExpr:
		x.X = r.base(x.X)
		x.Index = r.expr(x.Index)
		return x
	case *ast.StarExpr:
		x.X = r.expr(x.X)
		return x
	case *ast.Ident:
		return x
	}
	return r.expr(e)
}

// base rewrites an expression that is the operand of a selector / index on the way to a store or
// to an address-of: pointer-, slice- and map-valued reads may be wrapped, anything that must stay
// addressable is not.
func (r *rw) base(e ast.Expr) ast.Expr {
	t := r.info.TypeOf(e)
	if t != nil {
		switch t.Underlying().(type) {
		case *types.Pointer, *types.Slice, *types.Map:
			return r.expr(e)
		}
	}
	return r.lhs(e)
}

// ---- expressions (read context) ----

func (r *rw) exprs(list []ast.Expr) {
	for i, e := range list {
		list[i] = r.expr(e)
	}
}

func (r *rw) expr(e ast.Expr) ast.Expr {
	switch x := e.(type) {
	case nil:
		return nil
	case *ast.ParenExpr:
		x.X = r.expr(x.X)
		return x
	case *ast.Ident:
		if r.watchedVar(x) {
			return r.vs("R", &ast.UnaryExpr{Op: token.AND, X: id(x.Name)}, r.site(x, false))
		}
		return x
	case *ast.SelectorExpr:
		// package-qualified identifier
		if idn, ok := x.X.(*ast.Ident); ok {
			if _, isPkg := r.info.Uses[idn].(*types.PkgName); isPkg {
				if r.watchedVar(x.Sel) {
					return r.vs("R", &ast.UnaryExpr{Op: token.AND, X: x}, r.site(x, false))
				}
				return x
			}
		}
		watched := r.watchedField(x) && r.addressable(x)
		var site ast.Expr
		if watched {
			site = r.site(x, false)
		}
		// method value / method call receiver or field base
		if sl := r.info.Selections[x]; sl != nil && sl.Kind() != types.FieldVal {
			// receiver of a method: keep addressable when the method has a pointer receiver
			x.X = r.base(x.X)
			return x
		}
		x.X = r.base(x.X)
		if watched {
			return r.vs("R", &ast.UnaryExpr{Op: token.AND, X: x}, site)
		}
		return x
	case *ast.IndexExpr:
		if r.isMap(x.X) && !noAccess {
			site := r.site(x, false)
			return r.vs("RMI", r.expr(x.X), r.expr(x.Index), site)
		}
		if tv, ok := r.info.Types[x.X]; ok && tv.IsType() {
			return x // generic instantiation
		}
		if r.isSlice(x.X) && !noAccess && !r.noHook {
			site := r.site(x, false)
			return r.vs("RE", r.expr(x.X), r.expr(x.Index), site)
		}
		x.X = r.base(x.X)
		x.Index = r.expr(x.Index)
		return x
	case *ast.SliceExpr:
		x.X = r.base(x.X)
		x.Low, x.High, x.Max = r.expr(x.Low), r.expr(x.High), r.expr(x.Max)
		return x
	case *ast.StarExpr:
		x.X = r.expr(x.X)
		return x
	case *ast.UnaryExpr:
		if x.Op == token.AND {
			if _, isLit := unparen(x.X).(*ast.CompositeLit); isLit {
				x.X = r.expr(x.X)
				return x
			}
			x.X = r.lhs(x.X)
			return x
		}
		if x.Op == token.ARROW {
			return r.vs("ChanRecv", r.expr(x.X))
		}
		x.X = r.expr(x.X)
		return x
	case *ast.BinaryExpr:
		x.X = r.expr(x.X)
		x.Y = r.expr(x.Y)
		return x
	case *ast.CallExpr:
		if tv, ok := r.info.Types[x.Fun]; ok && tv.IsType() {
			r.exprs(x.Args)
			return x
		}
		if f, ok := x.Fun.(*ast.Ident); ok {
			if _, isB := r.info.Uses[f].(*types.Builtin); isB {
				switch f.Name {
				case "close":
					if len(x.Args) == 1 && r.isChan(x.Args[0]) {
						return r.vs("ChanClose", r.expr(x.Args[0]))
					}
				case "len":
					if r.isChan(x.Args[0]) {
						return r.vs("ChanLen", r.expr(x.Args[0]))
					}
					if r.isMap(x.Args[0]) && !noAccess {
						site := r.site(x.Args[0], false)
						return r.vs("LenM", r.expr(x.Args[0]), site)
					}
				case "append":
					if len(x.Args) >= 2 && r.isSlice(x.Args[0]) && !noAccess && !r.noHook && !(x.Ellipsis.IsValid() && r.isString(x.Args[1])) {
						site := r.site(x.Args[0], true)
						inexact := false // an element of another (assignable) type: T cannot be inferred for Append
						if sl, ok := r.info.TypeOf(x.Args[0]).Underlying().(*types.Slice); ok && !x.Ellipsis.IsValid() {
							for _, a := range x.Args[1:] {
								if tv, ok := r.info.Types[a]; ok && tv.Type != nil {
									if b, isB := tv.Type.(*types.Basic); isB && b.Info()&types.IsUntyped != 0 {
										continue
									}
									if !types.Identical(tv.Type, sl.Elem()) {
										inexact = true
									}
								}
							}
						}
						r.exprs(x.Args)
						if inexact {
							n := &ast.BasicLit{Kind: token.INT, Value: fmt.Sprint(len(x.Args) - 1)}
							x.Args[0] = r.vs("AppendPre", x.Args[0], site, n)
							return x
						}
						na := append([]ast.Expr{x.Args[0], site}, x.Args[1:]...)
						c := r.vs("Append", na...)
						c.Ellipsis = x.Ellipsis
						return c
					}
				case "copy":
					if len(x.Args) == 2 && r.isSlice(x.Args[0]) && r.isSlice(x.Args[1]) && !noAccess && !r.noHook {
						site := r.site(x.Args[0], true)
						r.exprs(x.Args)
						return r.vs("Copy", x.Args[0], x.Args[1], site)
					}
				case "new", "make":
					for i := 1; i < len(x.Args); i++ {
						x.Args[i] = r.expr(x.Args[i])
					}
					return x
				}
				r.exprs(x.Args)
				return x
			}
		}
		// R9: time.Sleep - under the controlled scheduler a sleep is a fair yield (real time is not modelled)
		if sx, ok := x.Fun.(*ast.SelectorExpr); ok && sx.Sel.Name == "Sleep" && len(x.Args) == 1 {
			if idn, ok := sx.X.(*ast.Ident); ok {
				if pn, isPkg := r.info.Uses[idn].(*types.PkgName); isPkg && pn.Imported().Path() == "time" {
					r.exprs(x.Args)
					r.nAtomic++ // a loop around a sleep is a waiting loop
					return r.vs("Sleep", x.Args[0])
				}
			}
		}
		// R8: sync/atomic - the operation is a scheduling point and a happens-before edge per address
		if sx, ok := x.Fun.(*ast.SelectorExpr); ok {
			if idn, ok := sx.X.(*ast.Ident); ok {
				if pn, isPkg := r.info.Uses[idn].(*types.PkgName); isPkg && pn.Imported().Path() == "sync/atomic" && len(x.Args) >= 1 {
					r.exprs(x.Args)
					x.Args[0] = r.vs("AtomicP", x.Args[0])
					r.nAtomic++
					return x
				}
			}
			if sl := r.info.Selections[sx]; sl != nil && sl.Kind() == types.MethodVal {
				rt := sl.Recv()
				isPtr := false
				if pt, ok := rt.(*types.Pointer); ok {
					rt, isPtr = pt.Elem(), true
				}
				if nt, ok := rt.(*types.Named); ok && nt.Obj().Pkg() != nil && nt.Obj().Pkg().Path() == "sync/atomic" {
					r.exprs(x.Args)
					if isPtr {
						sx.X = r.vs("AtomicP", r.expr(sx.X))
					} else {
						sx.X = r.vs("AtomicP", &ast.UnaryExpr{Op: token.AND, X: r.lhs(sx.X)})
					}
					r.nAtomic++
					return x
				}
			}
		}
		// R6: reflect.Value.MapKeys()
		if s, ok := x.Fun.(*ast.SelectorExpr); ok && s.Sel.Name == "MapKeys" && len(x.Args) == 0 {
			if t := r.info.TypeOf(s.X); t != nil && t.String() == "reflect.Value" {
				s.X = r.base(s.X)
				return r.vs("SortValues", x)
			}
		}
		x.Fun = r.expr(x.Fun)
		r.exprs(x.Args)
		return x
	case *ast.FuncLit:
		r.blockStmt(x.Body)
		return x
	case *ast.CompositeLit:
		for i, el := range x.Elts {
			if kv, ok := el.(*ast.KeyValueExpr); ok {
				// keys of struct literals are field names; keys of map/slice literals are expressions
				if t := r.info.TypeOf(x); t != nil {
					if _, isStruct := t.Underlying().(*types.Struct); !isStruct {
						kv.Key = r.expr(kv.Key)
					}
				}
				kv.Value = r.expr(kv.Value)
			} else {
				x.Elts[i] = r.expr(el)
			}
		}
		return x
	case *ast.TypeAssertExpr:
		x.X = r.expr(x.X)
		return x
	case *ast.KeyValueExpr:
		x.Value = r.expr(x.Value)
		return x
	}
	return e
}

var _ = sort.Strings
