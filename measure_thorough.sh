#!/bin/bash
# usage: measure_thorough.sh [budget] [ids...]  - runs thorough tiers one after the other on the clean /repo, prints the summary lines
cd "$(dirname "$(readlink -f "$0")")"
B=${1:-900s}; shift
IDS="${*:-C01 C02 C03 C04 C05 C06 C07 C08 C09 C10 C11 C12 C13 C14 C15 C16 C17 C18 C19 C20}"
git -C /repo diff --quiet || { echo "/repo not clean"; exit 2; }
for id in $IDS; do
  s=$(date +%s)
  out=$(./check $id thorough --budget $B 2>&1); rc=$?
  e=$(date +%s)
  echo "$id rc=$rc wall=$((e-s))s :: $(echo "$out" | grep -E "thorough:" | cut -c1-220)"
  echo "$out" | grep -E "^  cap:|VIOLATION|INTERNAL" | sort | uniq -c | head -5
done
